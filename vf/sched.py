"""Family F4: schedules as generated inputs (vsched). Harness build, case execution, linearizable models for C17 / C18."""
import collections
import os
import subprocess

from . import wasm, cexec, f1
from .wasm import I32, I64, Module, Func

WRAP = ['pthread_mutex_init', 'pthread_mutex_destroy', 'pthread_mutex_lock', 'pthread_mutex_unlock', 'pthread_cond_init',
        'pthread_cond_destroy', 'pthread_cond_wait', 'pthread_cond_timedwait', 'pthread_cond_signal', 'pthread_cond_broadcast',
        'pthread_create', 'pthread_join', 'clock_gettime', 'gettimeofday']
WRAP_FLAGS = ['-Wl,' + ','.join('--wrap=' + w for w in WRAP)]
OFF = 16          # static offset of every wait / notify / atomic store in the harness module
MAXPAGES = 6


SEG_AT = 65000


def harness_module(imported=False, maxpages=None):
    """imported=True: the shared memory is imported from the embedder (the wasi-threads shape) instead of defined"""
    m = Module()
    T = m.type_index
    maxpages = maxpages or MAXPAGES
    if imported:
        m.imports.append((b'env', b'memory', 'memory', (1, maxpages, True)))
    else:
        m.memory = (1, maxpages, True)
    m.exports.append((b'memory', 'memory', 0))

    def add(name, ps, rs, body):
        m.funcs.append(Func(T(ps, rs), [], body))
        m.exports.append((name, 'func', len(m.funcs) - 1))
    add(b'wait32', (I32, I32, I64), (I32,), [('local.get', 0), ('local.get', 1), ('local.get', 2), ('memory.atomic.wait32', 2, OFF)])
    add(b'wait64', (I32, I64, I64), (I32,), [('local.get', 0), ('local.get', 1), ('local.get', 2), ('memory.atomic.wait64', 3, OFF)])
    add(b'notify', (I32, I32), (I32,), [('local.get', 0), ('local.get', 1), ('memory.atomic.notify', 2, OFF)])
    add(b'store32', (I32, I32), (), [('local.get', 0), ('local.get', 1), ('i32.atomic.store', 2, OFF)])
    add(b'store64', (I32, I64), (), [('local.get', 0), ('local.get', 1), ('i64.atomic.store', 3, OFF)])
    add(b'grow', (I32,), (I32,), [('local.get', 0), ('memory.grow',)])
    add(b'size', (), (I32,), [('memory.size',)])
    add(b'load32', (I32,), (I32,), [('local.get', 0), ('i32.atomic.load', 2, OFF)])
    add(b'plainstore', (I32, I32), (), [('local.get', 0), ('local.get', 1), ('i32.store', 2, 0)])
    # data segments (an active one, copied again by every child instance, and a passive one for memory.init) and the bulk operations:
    # data accesses that run while other threads grow the memory.  They live at the end of page 0, away from the generated cells.
    m.datas.append(('active', ('i32.const', SEG_AT), b'ACTIVE-8'))
    m.datas.append(('passive', None, b'passive-segment!'))
    add(b'init', (I32, I32, I32), (), [('local.get', 0), ('local.get', 1), ('local.get', 2), ('memory.init', 1)])
    add(b'fill', (I32, I32, I32), (), [('local.get', 0), ('local.get', 1), ('local.get', 2), ('memory.fill',)])
    add(b'copy', (I32, I32, I32), (), [('local.get', 0), ('local.get', 1), ('local.get', 2), ('memory.copy',)])
    wasm.validate(m)
    return m


_bin = {}


def harness_binary(asan=True, imported=False, ndebug=False, be=False):
    """ndebug=True: the generated C and the runtime are compiled with -DNDEBUG (release builds of embedders do that): nothing
    the property needs may live inside an assert()"""
    key = ('h', asan, imported, ndebug, be)
    if key in _bin and os.path.exists(_bin[key]):
        return _bin[key]
    d = cexec.new_dir('vs')
    tr = cexec.translate(wasm.encode(harness_module(imported)), d, 'm', (), 'plain')
    if tr.rc != 0:
        raise cexec.InfraError('translating the schedule-harness module failed: %s' % tr.err[-300:])
    cc = ['clang', '-O1', '-g', '-w'] + (['-fsanitize=address,undefined', '-fno-sanitize-recover=all'] if asan else [])
    cmd = cc + (['-DVF_IMPORTED_MEMORY=%d' % MAXPAGES] if imported else []) + (['-DNDEBUG'] if ndebug else []) + (['-DWASM_ENDIAN=1'] if be else []) + ['-DWASM_THREADS_PTHREADS', '-I', os.path.join(cexec.REPO, 'w2c2'), '-I', os.path.join(cexec.REPO, 'futex'),
                '-I', os.path.join(cexec.VERIF, 'c'), '-I', d,
                os.path.join(cexec.VERIF, 'c', 'sched_harness.c'), os.path.join(cexec.VERIF, 'c', 'vsched.c'), os.path.join(d, 'm.c')] + \
        [os.path.join(cexec.REPO, 'futex', f) for f in cexec.FUTEX_SRCS] + WRAP_FLAGS + ['-o', os.path.join(d, 'harness'), '-lpthread', '-lm']
    r = cexec.run(cmd, cwd=d)
    if r.returncode != 0:
        raise cexec.InfraError('building the schedule harness failed: %s' % r.stderr.decode(errors='replace')[-2000:])
    _bin[key] = os.path.join(d, 'harness')
    return _bin[key]


Ev = collections.namedtuple('Ev', 'tid idx op a b c res s0 s1 acqs')


def run_case(case, asan=True, timeout=60):
    """case: {'threads': {tid: [[op,a,b,c],...]}, 'addrs': [...], 'decisions': hex, 'spurious': n}
    returns (status, events, extra): status in ok | deadlock | stuck | crash | timeout"""
    exe = harness_binary(asan, bool(case.get('imported')), bool(case.get('ndebug')), bool(case.get('be')))
    lines = ['T %d' % len(case['threads']), 'D %s %d' % (case['decisions'] or '-', case.get('spurious', 3))]
    for tid in sorted(case['threads'], key=int):
        for op in case['threads'][tid]:
            lines.append('o %d %d %d %d %d' % (int(tid), op[0], op[1], op[2], op[3]))
    for a in case['addrs']:
        lines.append('A %d' % a)
    lines.append('X')
    env = dict(os.environ)
    env.update(cexec.ASAN_ENV)
    try:
        r = subprocess.run([exe], input=('\n'.join(lines) + '\n').encode(), stdout=subprocess.PIPE, stderr=subprocess.PIPE, env=env,
                           timeout=timeout)
    except subprocess.TimeoutExpired:
        return 'timeout', [], {}
    events = []
    extra = {}
    for ln in r.stdout.decode(errors='replace').splitlines():
        p = ln.split()
        if not p:
            continue
        if p[0] == 'E':
            n = int(p[10])
            events.append(Ev(int(p[1]), int(p[2]), int(p[3]), int(p[4]), int(p[5]), int(p[6]), int(p[7]), int(p[8]), int(p[9]),
                             tuple(int(x) for x in p[11:11 + n])))
        elif p[0] == 'P':
            extra['pages'], extra['size'], extra['max'] = int(p[1]), int(p[2]), int(p[3])
        elif p[0] == 'S':
            extra['steps'], extra['switches'], extra['spurious'], extra['timeouts'], extra['decisions_used'] = [int(x) for x in p[1:6]]
        elif p[0] == 'EARLY':
            extra.setdefault('early', []).append(tuple(int(x) for x in p[1:5]))
        elif p[0] == 'STUCK':
            extra['stuck'] = True
        elif p[0] == 'TRAP':
            extra['trap'] = int(p[1])
    err = r.stderr.decode(errors='replace')
    extra['stderr'] = cexec.san_head(err, 1500)
    if r.returncode == 66 or 'VSCHED-DEADLOCK' in err:
        return 'deadlock', events, extra
    if r.returncode == 65:
        return 'stuck', events, extra
    if r.returncode != 0:
        return 'crash:%d' % r.returncode, events, extra
    return 'ok', events, extra


# ------------------------------------------------------------------------------------------------ C17 model
def check_futex(case, events):
    """linearizable model of wait/notify; linearization point = acquisition of the memory mutex. returns (sig, msg) or None, plus classes"""
    mem = bytearray(65536 * MAXPAGES)
    # the big-endian code paths forced on this little-endian host (-DWASM_ENDIAN=1) keep every access consistent with itself but
    # lay the bytes of a value out in reverse: accesses of different widths to the same cell see that layout (same rule as in C19)
    bo = 'big' if case.get('be') else 'little'
    classes = set()
    timeline = []
    nprog = sum(len(v) for v in case['threads'].values())
    done = set()
    for e in events:
        if e.tid != 0:
            done.add((e.tid, e.idx))
        if e.op in (3, 4, 8):
            # a store that takes the memory mutex (atomic stores of the big-endian runtime, which emulates read-modify-writes under
            # that mutex) takes effect when it holds it; a lock-free store between the scheduling points around the call
            timeline.append((e.acqs[0] if e.acqs else e.s0, 'store', e))
        elif e.op in (0, 1):
            if not e.acqs:
                return ('wait-no-lock', 'wait by thread %d did not take the memory mutex' % e.tid), classes
            timeline.append((e.acqs[0], 'wait', e))
            if len(e.acqs) > 1:
                timeline.append((e.acqs[-1], 'waitend', e))
            if len(e.acqs) > 2:
                classes.add('spurious_wakeup')
        elif e.op == 2:
            if not e.acqs:
                return ('notify-no-lock', 'notify by thread %d did not take the memory mutex' % e.tid), classes
            timeline.append((e.acqs[0], 'notify', e))
    if len(done) != nprog:
        return ('not-terminated', 'only %d of %d generated operations finished' % (len(done), nprog)), classes
    timeline.sort(key=lambda x: x[0])
    W = collections.Counter()
    P = collections.Counter()
    blocked = {}
    notifies_since = collections.defaultdict(list)
    for stamp, kind, e in timeline:
        if kind == 'store':
            if e.op == 3:
                mem[e.a + OFF:e.a + OFF + 4] = (e.b & 0xffffffff).to_bytes(4, bo)
            elif e.op == 4:
                mem[e.a + OFF:e.a + OFF + 8] = (e.b & 0xffffffffffffffff).to_bytes(8, bo)
            else:
                mem[e.a:e.a + 4] = (e.b & 0xffffffff).to_bytes(4, bo)
        elif kind == 'wait':
            ea = e.a + OFF
            nb = 4 if e.op == 0 else 8
            cur = int.from_bytes(mem[ea:ea + nb], bo)
            exp = e.b & ((1 << (nb * 8)) - 1)
            if nb == 8 and cur != exp and (cur ^ exp) & 0xffffffff == 0:
                classes.add('wait64_differs_in_high_half_only')
            if cur != exp:
                if e.res != 1 or len(e.acqs) != 1:
                    return ('wait-should-not-block', 'thread %d: wait%d at effective address %d (operand %d + offset %d) holds %d, expected %d '
                            'given: must return 1 at once, returned %d after %d lock acquisitions' % (e.tid, nb * 8, ea, e.a, OFF, cur, exp, e.res, len(e.acqs))), classes
            else:
                if e.res == 1:
                    return ('wait-should-block', 'thread %d: wait%d at effective address %d (operand %d + offset %d) holds the expected value %d '
                            'but returned 1 (not-equal)' % (e.tid, nb * 8, ea, e.a, OFF, cur)), classes
                if len(e.acqs) < 2:
                    return ('wait-no-reacquire', 'thread %d: blocking wait returned %d without re-acquiring the mutex' % (e.tid, e.res)), classes
                W[ea] += 1
                blocked[(e.tid, e.idx)] = ea
                if len([a for a in W if W[a] > 0]) >= 2:
                    classes.add('waiters_on>=2_addresses')
                if len(set(a % 1024 for a in W if W[a] > 0)) < len([a for a in W if W[a] > 0]):
                    classes.add('bucket_collision_live')
        elif kind == 'notify':
            ea = e.a + OFF
            want = min(e.b, W[ea])
            if e.res != want:
                return ('notify-count', 'thread %d: notify(effective address %d, count %d) returned %d; %d waiter(s) were blocked on that '
                        'address at its linearization point' % (e.tid, ea, e.b, e.res, W[ea])), classes
            if W[ea] >= 2 or (want and sum(1 for a in W if W[a] > 0) >= 2):
                classes.add('notify_with_several_waiters')
            W[ea] -= want
            P[ea] += want
            for k, a in blocked.items():
                if a == ea:
                    notifies_since[k].append(stamp)
        else:
            ea = blocked.pop((e.tid, e.idx), None)
            if ea is None:
                continue
            if e.res == 0:
                if P[ea] <= 0:
                    return ('woken-without-notify', 'thread %d: wait on effective address %d returned 0 (woken) but no notify on that address '
                            'has an uncollected wake-up' % (e.tid, ea)), classes
                P[ea] -= 1
                if e.c >= 0:
                    classes.add('timeout_notify_race')
            elif e.res == 2:
                if e.c < 0:
                    return ('timeout-on-infinite-wait', 'thread %d: wait without timeout returned 2' % e.tid), classes
                if W[ea] <= 0:
                    return ('counted-but-timed-out', 'thread %d: wait on effective address %d returned 2 (timed out) although a notify had '
                            'already counted it as woken' % (e.tid, ea)), classes
                W[ea] -= 1
                if notifies_since.get((e.tid, e.idx)):
                    classes.add('timeout_notify_race')
            else:
                return ('wait-result', 'thread %d: blocking wait returned %d' % (e.tid, e.res)), classes
    if blocked:
        return ('waiter-never-returned', 'waiters never returned: %r' % sorted(blocked)[:4]), classes
    for ea, p in P.items():
        if p:
            return ('notify-overcount', 'notifies on effective address %d report %d more wake-ups than waiters that returned 0' % (ea, p)), classes
    return None, classes


# ------------------------------------------------------------------------------------------------ C18 model
def check_grow(case, events, extra, initial=1, maxpages=MAXPAGES):
    classes = set()
    grows = [e for e in events if e.op == 5]
    succ = sorted([e for e in grows if e.res != 0xffffffff and e.acqs], key=lambda e: e.acqs[0])
    nolock = [e for e in grows if e.res != 0xffffffff and not e.acqs and e.a != 0]
    if nolock:
        e = nolock[0]
        return ('grow-without-lock', 'thread %d: successful grow(%d) of a shared memory did not take the memory mutex' % (e.tid, e.a)), classes
    zero = [e for e in grows if e.res != 0xffffffff and not e.acqs]
    changes = []      # (stamp, pages after)
    pages = initial
    for e in succ:
        if e.res != pages:
            return ('grow-old-size', 'thread %d: grow(%d) returned old size %d, but %d page(s) were allocated when it acquired the mutex '
                    '(order of successful grows by lock acquisition: %s)' % (e.tid, e.a, e.res, pages, [(x.tid, x.a, x.res) for x in succ][:8])), classes
        if pages + e.a > maxpages:
            return ('grow-beyond-max', 'thread %d: grow(%d) succeeded from %d pages although the maximum is %d' % (e.tid, e.a, pages, maxpages)), classes
        pages += e.a
        changes.append((e.acqs[0], pages))

    def pages_at(t):
        p = initial
        for s, v in changes:
            if s < t:
                p = v
        return p
    olds = [e.res for e in succ if e.a > 0]
    if len(set(olds)) != len(olds):
        return ('grow-duplicate-old', 'two successful grows returned the same old size: %r' % sorted(olds)), classes
    for e in grows:
        if e.res == 0xffffffff:
            p0, p1 = pages_at(e.s0), pages_at(e.s1)
            fits = [p for p in {p0, p1} if p + e.a <= maxpages and p + e.a < (1 << 32)]
            if len(fits) == 2 or (p0 == p1 and fits):
                return ('grow-spurious-failure', 'thread %d: grow(%d) failed although %d page(s) were allocated and the maximum is %d' % (
                    e.tid, e.a, p0, maxpages)), classes
            classes.add('failing_grow')
    for e in zero:
        if e.res != pages_at(e.s0) and e.res != pages_at(e.s1):
            return ('grow-zero', 'thread %d: grow(0) returned %d with %d pages allocated' % (e.tid, e.res, pages_at(e.s0))), classes
    for e in events:
        if e.op == 6:
            t = e.acqs[0] if e.acqs else e.s0
            if e.res != pages_at(t):
                return ('size-value', 'thread %d: memory.size returned %d while %d page(s) were allocated' % (e.tid, e.res, pages_at(t))), classes
    if extra.get('pages') is not None:
        if extra['pages'] != pages:
            return ('final-pages', 'final page count is %d, initial + successful deltas = %d' % (extra['pages'], pages)), classes
    # adjacency: two grows whose critical sections are adjacent with a preemption between start and lock
    for a, b in zip(succ, succ[1:]):
        if b.s0 < a.acqs[0]:
            classes.add('preempted_between_read_and_lock')
    if len(succ) >= 2:
        classes.add('several_successful_grows')
    return None, classes


# ------------------------------------------------------------------------------------------------ vsched self-test
def selftest(nstrings=1500, seed=7):
    """the scheduler must reach exactly the expected outcome sets on small programs with known behaviour"""
    import random
    cd = cexec.cache_dir()
    exe = os.path.join(cd, 'vsched_selftest')
    if not os.path.exists(exe):
        r = cexec.run(['gcc', '-O1', '-w', '-I', os.path.join(cexec.VERIF, 'c'), os.path.join(cexec.VERIF, 'c', 'vsched_selftest.c'),
                       os.path.join(cexec.VERIF, 'c', 'vsched.c')] + WRAP_FLAGS + ['-o', exe + '.tmp', '-lpthread'])
        if r.returncode != 0:
            return ['building the vsched self-test failed: %s' % r.stderr.decode(errors='replace')[-800:]]
        os.rename(exe + '.tmp', exe)
    rng = random.Random(seed)
    problems = []
    want = {(0, 3): {'1', '2'}, (1, 3): {'2'}, (2, 3): {'0', '1'}, (2, 0): {'0'}, (3, 3): {'0', 'deadlock'}}
    for (sc, spur), exp in sorted(want.items()):
        seen = set()
        for i in range(nstrings):
            dec = bytes(rng.randrange(256) for _ in range(rng.choice((0, 4, 12, 30)))).hex()
            env = dict(os.environ)
            env['VSCHED_DECISIONS'] = dec
            env['VSCHED_SPURIOUS'] = str(spur)
            r = subprocess.run([exe, str(sc)], stdout=subprocess.PIPE, stderr=subprocess.PIPE, env=env, timeout=30)
            if r.returncode == 66:
                seen.add('deadlock')
            elif r.returncode == 0:
                seen.add(r.stdout.decode().split()[1])
            else:
                seen.add('exit%d' % r.returncode)
            if seen == exp and i > 50:
                break
        if seen != exp:
            problems.append('vsched self-test scenario %d (spurious budget %d): outcomes %r, expected exactly %r' % (sc, spur, sorted(seen), sorted(exp)))
    return problems
