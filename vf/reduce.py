"""Structural reducer for failing modules: candidate edits are filtered by the validator, then tested by the predicate."""
import copy

from . import wasm
from .wasm import Func


def default_body(m, f):
    rs = m.types[f.type][1]
    return [('%s.const' % rs[0], 0)] if rs else [('nop',)]


def _valid(m):
    try:
        wasm.validate(m)
        return True
    except wasm.Invalid:
        return False
    except Exception:
        return False


def _lists(body, path=()):
    """yield (path, list) for every instruction list nested in body; path addresses the list"""
    yield path, body
    for i, ins in enumerate(body):
        if ins[0] in ('block', 'loop'):
            for x in _lists(ins[2], path + ((i, 2),)):
                yield x
        elif ins[0] == 'if':
            for x in _lists(ins[2], path + ((i, 2),)):
                yield x
            if ins[3] is not None:
                for x in _lists(ins[3], path + ((i, 3),)):
                    yield x


def _replace(body, path, newlist):
    """return a copy of body where the list at path is replaced by newlist"""
    if not path:
        return list(newlist)
    (i, k), rest = path[0], path[1:]
    out = list(body)
    ins = list(out[i])
    ins[k] = _replace(ins[k], rest, newlist)
    out[i] = tuple(ins)
    return out


def reduce_module(m, still_fails, budget=120, keep_funcs=()):
    """m: wasm.Module (not modified). still_fails(module) -> bool. Returns the smallest failing module found."""
    used = [0]

    def test(cand):
        if used[0] >= budget or not _valid(cand):
            return False
        used[0] += 1
        try:
            return bool(still_fails(cand))
        except Exception:
            return False

    best = copy.deepcopy(m)
    # pass A: neutralise whole functions (halves first, then singles)
    idxs = [i for i in range(len(best.funcs)) if i not in keep_funcs]

    def neutralise(sel):
        c = copy.deepcopy(best)
        changed = False
        for i in sel:
            nb = default_body(c, c.funcs[i])
            if c.funcs[i].body != nb or c.funcs[i].locals:
                c.funcs[i] = Func(c.funcs[i].type, [], nb)
                changed = True
        return c if changed else None
    chunk = len(idxs)
    while chunk >= 1 and used[0] < budget:
        i = 0
        while i < len(idxs) and used[0] < budget:
            c = neutralise(idxs[i:i + chunk])
            if c is not None and test(c):
                best = c
            i += chunk
        chunk //= 2
    # pass B: shrink the bodies that are left
    progress = True
    while progress and used[0] < budget:
        progress = False
        for fi in range(len(best.funcs)):
            f = best.funcs[fi]
            if f.body == default_body(best, f):
                continue
            for path, lst in list(_lists(f.body)):
                n = len(lst)
                size = n
                while size >= 1 and used[0] < budget:
                    i = 0
                    while i + size <= len(lst) and used[0] < budget:
                        newl = lst[:i] + lst[i + size:]
                        c = copy.deepcopy(best)
                        c.funcs[fi] = Func(f.type, f.locals, _replace(f.body, path, newl))
                        if test(c):
                            best = c
                            f = best.funcs[fi]
                            lst = newl
                            progress = True
                        else:
                            i += 1
                    size //= 2
                # unwrap structured instructions
                for i, ins in enumerate(lst):
                    if used[0] >= budget:
                        break
                    cands = []
                    if ins[0] in ('block', 'loop'):
                        cands.append(lst[:i] + list(ins[2]) + lst[i + 1:])
                    elif ins[0] == 'if':
                        cands.append(lst[:i] + [('drop',)] + list(ins[2]) + lst[i + 1:])
                        if ins[3] is not None:
                            cands.append(lst[:i] + [('drop',)] + list(ins[3]) + lst[i + 1:])
                    for newl in cands:
                        c = copy.deepcopy(best)
                        c.funcs[fi] = Func(f.type, f.locals, _replace(f.body, path, newl))
                        if test(c):
                            best = c
                            f = best.funcs[fi]
                            progress = True
                            break
                    if progress:
                        break
                if progress:
                    break
    return best, used[0]
