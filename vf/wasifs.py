"""Executor for WASI file-system histories: every operation runs through the agent (wasi.c under ASan) on real/ and as the
corresponding POSIX call on mirror/; results are compared step by step. Used by C12, C13, C14 (state machines + replay)."""
import errno
import fcntl
import os
import shutil
import stat
import struct

from . import cexec
from . import wasi as W
from .wasi import (Agent, AgentDied, Violation, E, wasi_errno_of, ename, IOV, RES, PATHBUF, PATHBUF2, DATA, STATBUF, DIRBUF,
                   CANARY, put_iovs)

RIGHTS_READ = (1 << 1) | (1 << 14)      # fd_read | fd_readdir
RIGHTS_WRITE = 1 << 6
O_CREAT, O_DIRECTORY, O_EXCL, O_TRUNC = 1, 2, 4, 8
FDFLAG_APPEND = 1

INITIAL_TREE = [('d', 'dir1'), ('d', 'dir2'), ('d', 'dir2/sub'), ('d', 'emptydir'),
                ('f', 'a', b'alpha-contents-0123456789'), ('f', 'b.txt', b'B' * 100), ('f', 'empty', b''),
                ('f', 'dir1/x', bytes(range(256)) * 3), ('f', 'dir2/sub/y', b'deep'), ('l', 'lnk', 'a'), ('l', 'dlnk', 'dir1'),
                ('l', 'dangling', 'nowhere'), ('l', 'devnull', '/dev/null'),
                # further character devices with their own answers: /dev/full refuses every write with ENOSPC, /dev/zero delivers
                # as many zero bytes as asked for
                ('l', 'devfull', '/dev/full'), ('l', 'devzero', '/dev/zero')]
FILE_NAMES = ['a', 'b.txt', 'empty', 'dir1/x', 'dir2/sub/y', 'new1', 'new2', 'dir1/new3', 'dir2/new4', 'lnk', 'dangling',
              'missing/z', 'dir1', 'emptydir', 'dlnk/x', 'a/b', 'dir1/../a', './b.txt', 'dir2//sub/y', 'dlnk', 'devnull', 'devfull', 'devzero',
              # a trailing separator asks for a directory: on a regular file (existing or to be created) the host refuses
              'a/', 'b.txt/', 'new1/', 'dir1/', 'dir1/x/', 'lnk/', 'dlnk/', 'new5//']


def make_tree(root, spec=INITIAL_TREE):
    os.makedirs(root)
    for ent in spec:
        p = os.path.join(root, ent[1])
        if ent[0] == 'd':
            os.makedirs(p, exist_ok=True)
        elif ent[0] == 'f':
            with open(p, 'wb') as f:
                f.write(ent[2])
        else:
            os.symlink(ent[2], p)


class FsExecutor(object):
    def __init__(self, npreopen=1, stdin_data=b'standard input bytes\n', pages=64, variant='default'):
        self.base = cexec.new_dir('w')
        # same path length on both sides (path-length limits hit both alike); separate parents, so that '..' escapes stay apart
        os.makedirs(os.path.join(self.base, 'A', 'up'))
        os.makedirs(os.path.join(self.base, 'B', 'up'))
        self.real = os.path.join(self.base, 'A', 'up', 'real')
        self.mirror = os.path.join(self.base, 'B', 'up', 'mirr')
        make_tree(self.real)
        make_tree(self.mirror)
        self.stdin_path = os.path.join(self.base, 'stdin')
        self.stdout_path = os.path.join(self.base, 'stdout')
        self.stderr_path = os.path.join(self.base, 'stderr')
        with open(self.stdin_path, 'wb') as f:
            f.write(stdin_data)
        self.stdin_data = stdin_data
        self.stdin_pos = 0
        self.out_expect = {1: b'', 2: b''}
        self.std_closed = set()
        self.tree_unknown = False
        open(self.stdout_path, 'wb').close()
        open(self.stderr_path, 'wb').close()
        variant = W.FORCE_VARIANT or variant
        self.agent = Agent(self.base, self.stdin_path, self.stdout_path, self.stderr_path, pages=pages, cwd=self.base, variant=variant)
        self.agent.init([b'prog'], [])
        self.fds = {}          # wasi fd -> dict(kind, rel, mfd, closed, append, pre)
        self.preopens = []
        self.history = [['agent_variant', variant]]
        self.flags = set()
        if variant != 'default':
            self.flags.add('agent_' + variant)
        for i in range(npreopen):
            rel = '' if i == 0 else ('dir1' if i == 1 else 'dir2')
            path = os.path.join(self.real, rel) if rel else self.real
            ok, fd = self.agent.preopen(path)
            if not ok:
                raise Violation('preopen-failed', 'wasiFileDescriptorAdd failed for %s' % path)
            self.fds[fd] = {'kind': 'dir', 'rel': rel, 'mfd': None, 'closed': False, 'append': False, 'pre': True, 'path': path,
                            'wpath': path.encode()}
            self.preopens.append(fd)
        self.next_fd = 3 + npreopen
        self.last_positional = {}
        self.pipe_avail = {}     # (directory, name) of a FIFO -> bytes written and not yet read (all descriptors together)

    def set_edge(self, mode):
        """mode > 0: from now on one guest object per WASI call (chosen deterministically from mode and the call counter) is placed
        so that it ends exactly at the end of guest memory (wasi.Agent._call_edge)"""
        self.history.append(['set_edge', mode])
        self.agent.edge_mode = mode
        if mode:
            self.flags.add('objects_at_end_of_guest_memory')

    # ---- helpers
    def close(self):
        try:
            self.agent.close()
        finally:
            for d in self.fds.values():
                if d.get('mfd') is not None and not d['closed']:
                    try:
                        os.close(d['mfd'])
                    except OSError:
                        pass
            cexec.rm(self.base)

    def fail(self, sig, msg):
        raise Violation(sig, msg)

    def record(self, op, *args):
        self.history.append([op] + [a.hex() if isinstance(a, (bytes, bytearray)) else a for a in args])

    def mpath(self, dirfd, name):
        d = self.fds[dirfd]
        if name.startswith('/'):
            # absolute guest paths are used as is: they are generated inside the real sandbox root (no normalisation)
            return name.replace(self.real, self.mirror, 1)
        return os.path.join(self.mirror, d['rel'], name) if d['rel'] else os.path.join(self.mirror, name)

    def rpath(self, dirfd, name):
        d = self.fds[dirfd]
        if name.startswith('/'):
            return name
        return os.path.join(self.real, d['rel'], name)

    def subst(self, name):
        """histories name the sandbox root symbolically so that they replay in a fresh sandbox"""
        if name is None:
            return None
        if isinstance(name, str):
            return name.replace('@REAL@', self.real)
        return bytes(name).replace(b'@REAL@', self.real.encode())

    def put_path(self, name_bytes, where=PATHBUF):
        # guest path bytes are NOT NUL terminated: followed by junk
        self.agent.poke(where, name_bytes + b'JUNK-not-part-of-the-path/..')
        return where, len(name_bytes)

    def check_errno(self, what, got, expected_oserror):
        exp = 0 if expected_oserror is None else wasi_errno_of(expected_oserror)
        if got != exp:
            self.fail('errno:%s:%s->%s' % (what.split('(')[0], ename(exp), ename(got)),
                      '%s: errno %s (%d) but the corresponding POSIX call gives %s (%d)%s' % (
                          what, ename(got), got, ename(exp), exp,
                          '' if expected_oserror is None else ' [%s]' % os.strerror(expected_oserror.errno)))
        return exp

    def live_file_fds(self):
        return [fd for fd, d in self.fds.items() if d['kind'] == 'file' and not d['closed']]

    def check_position(self, fd):
        d = self.fds[fd]
        if d['closed'] or d['mfd'] is None or d['kind'] != 'file':
            return
        self.agent.fill(RES, 16)
        r = self.agent.call('fd_tell', 0, fd, RES)
        try:
            want = os.lseek(d['mfd'], 0, os.SEEK_CUR)
            err = None
        except OSError as e:
            err = e
        if err is not None:
            return
        if r != 0:
            self.fail('tell-failed', 'fd_tell(%d) failed with %s on an open file' % (fd, ename(r)))
        got = self.agent.peek_u64(RES)
        if got != want:
            self.fail('position', 'file position of fd %d is %d, POSIX mirror is at %d (after %r)' % (fd, got, want, self.history[-1]))

    # ---- operations
    def path_open(self, dirfd, name, oflags, read, write, append, unstable=False):
        self.record('path_open', dirfd, name, oflags, read, write, append, unstable)
        name = self.subst(name)
        nb = name.encode() if isinstance(name, str) else name
        p, ln = self.put_path(nb)
        rights = (RIGHTS_READ if read else 0) | (RIGHTS_WRITE if write else 0)
        self.agent.fill(RES, 16)
        stale_before = nb[:1] != b'/' and self._stale(dirfd)
        r = self.agent.call('path_open', unstable, dirfd, 0, p, ln, oflags, rights, rights, FDFLAG_APPEND if append else 0, RES)
        if stale_before:
            self.flags.add('descriptor_path_no_longer_denotes_its_directory')
            if r == 0:
                # a descriptor was handed out for something this model cannot name: close it again, unchecked
                self.agent.call('fd_close', unstable, self.agent.peek_u32(RES))
                if oflags & (O_CREAT | O_TRUNC):
                    self.tree_unknown = True
            return None
        flags = (os.O_RDWR if read else os.O_WRONLY) if write else os.O_RDONLY
        if oflags & O_CREAT:
            flags |= os.O_CREAT
        if oflags & O_DIRECTORY:
            flags |= os.O_DIRECTORY
        if oflags & O_EXCL:
            flags |= os.O_EXCL
        if oflags & O_TRUNC:
            flags |= os.O_TRUNC
        if append:
            flags |= os.O_APPEND
            self.flags.add('append')
        err = None
        mfd = None
        # the resolved path is the descriptor's path + separator + guest path: when that does not fit the host limit the call is
        # rejected (any error code) and has no effect; within two bytes of the limit either rejection or the host's answer
        jl = self._joined_len(dirfd, nb)
        if jl >= self.PATH_MAX - 2:
            self.flags.add('path_near_limit')
            if jl >= self.PATH_MAX:
                if r == 0:
                    self.fail('path-accepted:too-long', 'path_open accepted a path whose resolved length %d does not fit the host limit' % jl)
                return None
            if r != 0:
                return None
        try:
            mfd = os.open(self.mpath(dirfd, name), flags, 0o644)
        except OSError as e:
            err = e
        try:
            self.check_errno('path_open(%r, oflags=%d, r=%s, w=%s)' % (name, oflags, read, write), r, err)
        except Violation:
            if mfd is not None:
                os.close(mfd)
            raise
        if err is not None:
            return None
        fd = self.agent.peek_u32(RES)
        if self.agent.peek(RES + 4, 4) != bytes([CANARY] * 4):
            self.fail('guest-overwrite', 'path_open wrote more than 4 bytes at the fd result pointer')
        live = [f for f, d in self.fds.items() if not d['closed']]
        if fd in live or fd in (0, 1, 2):
            os.close(mfd)
            self.fail('fd-alias', 'path_open returned descriptor %d which is already live' % fd)
        st = os.fstat(mfd)
        kind = 'dir' if stat.S_ISDIR(st.st_mode) else 'file'
        is_chr = stat.S_ISCHR(st.st_mode)
        rel = os.path.normpath(os.path.join(self.fds[dirfd]['rel'], name)) if not name.startswith('/') else os.path.relpath(name, self.real)
        self.fds[fd] = {'kind': kind, 'rel': '' if rel == '.' else rel, 'mfd': mfd, 'closed': False, 'append': append, 'pre': False,
                        'path': self.rpath(dirfd, name), 'chr': is_chr, 'wpath': self.wjoin(dirfd, name.encode('utf-8', 'surrogateescape'))}
        try:
            self.fds[fd]['ino'] = os.stat(self.rpath(dirfd, name)).st_ino
        except OSError:
            self.fds[fd]['ino'] = None
        return fd

    def open_fifo(self, dirfd, idx):
        """the host puts a FIFO `pipeN` into the directory (both sides), the guest opens it with read + write rights (O_RDWR: the
        open does not block).  Through such a descriptor sequential writes and reads move bytes, every positional or seeking call
        is ESPIPE - whatever the POSIX calls say.  Reads are only issued while the pipe holds bytes (an empty pipe blocks)."""
        d = self.fds[dirfd]
        if d['closed'] or d['kind'] != 'dir' or len(d.get('wpath') or b'') > 512:
            return None
        self.record('open_fifo', dirfd, idx)
        mark = len(self.history)
        name = 'pipe%d' % idx
        for side in (self.real, self.mirror):
            p = os.path.join(side, d['rel'], name) if d['rel'] else os.path.join(side, name)
            try:
                os.mkfifo(p)
            except OSError:
                pass
        try:
            fd = self.path_open(dirfd, name, 0, True, True, False)
        finally:
            del self.history[mark:]
        if fd is not None and stat.S_ISFIFO(os.fstat(self.fds[fd]['mfd']).st_mode):
            # bytes in flight are a property of the pipe, not of the descriptor: several descriptors may be open on one FIFO
            self.fds[fd]['fifo'] = (d['rel'], name)
            self.pipe_avail.setdefault(self.fds[fd]['fifo'], 0)
            self.flags.add('fifo_descriptor')
        return fd

    def fd_write(self, fd, bufs):
        if fd in self.fds and self.fds[fd].get('fifo') and self.pipe_avail[self.fds[fd]['fifo']] + sum(len(b) for b in bufs) > 4096:
            return          # keep well below the pipe capacity: a full pipe blocks
        self.record('fd_write', fd, [b.hex() for b in bufs])
        iovs, n, _ = put_iovs(self.agent, bufs)
        self.agent.fill(RES, 16)
        r = self.agent.call('fd_write', 0, fd, iovs, n, RES)
        if fd in self.std_closed:
            if r != E['BADF']:
                self.fail('ebadf:fd_write', 'fd_write on closed standard descriptor %d returned %s instead of BADF' % (fd, ename(r)))
            return
        if fd == 0:
            # standard input of the agent is a regular file opened read-only: writev(2) on such a descriptor is EBADF (and nothing
            # else - whatever the host does with its standard streams on the way must not change the error)
            if r != E['BADF']:
                self.fail('errno:fd_write', 'fd_write to descriptor 0 (the host\'s standard input, a file opened read-only) returned %s, writev gives BADF' % ename(r))
            self.flags.add('failing_write_on_standard_stream')
            return
        if fd in (1, 2):
            if r != 0:
                self.fail('stdio', 'fd_write to standard stream %d failed with %s' % (fd, ename(r)))
            self.out_expect[fd] += b''.join(bufs)
            nw = self.agent.peek_u32(RES)
            if nw != sum(len(b) for b in bufs):
                self.fail('stdio', 'fd_write to fd %d reported %d bytes, %d were given' % (fd, nw, sum(len(b) for b in bufs)))
            return
        d = self.fds[fd]
        err = None
        want = 0
        try:
            want = os.writev(d['mfd'], bufs)
        except OSError as e:
            err = e
        self.check_errno('fd_write(fd=%d, %d iovecs)' % (fd, len(bufs)), r, err)
        if err is None and d.get('fifo'):
            self.pipe_avail[d['fifo']] += want
        if err is None:
            got = self.agent.peek_u32(RES)
            if got != want:
                self.fail('count', 'fd_write stored nwritten=%d, writev returned %d' % (got, want))
            if self.agent.peek(RES + 4, 4) != bytes([CANARY] * 4):
                self.fail('guest-overwrite', 'fd_write stored more than 4 bytes at the nwritten pointer')
        if len(bufs) >= 2 and any(len(b) == 0 for b in bufs):
            self.flags.add('multi_iovec_with_empty')
        if self.last_positional.get(fd):
            self.flags.add('positional_then_sequential')
        self.check_position(fd)

    def limited_write(self, fd, bufs, offset, limit):
        """one fd_write (offset None) / fd_pwrite under a soft file-size limit of `limit` bytes (RLIMIT_FSIZE, SIGXFSZ ignored) that
        is in force for the agent and, during the mirror call, for this process: a transfer that crosses the limit is a short
        write, one that starts at or beyond it fails with EFBIG - whatever writev(2) / pwritev(2) say"""
        import resource
        d = self.fds[fd]
        if d['closed'] or d['kind'] != 'file' or d.get('chr') or d.get('fifo'):
            return
        self.record('limited_write', fd, [b.hex() for b in bufs], offset, limit)
        mark = len(self.history)
        soft, hard = resource.getrlimit(resource.RLIMIT_FSIZE)
        self.agent.fsize(limit)
        resource.setrlimit(resource.RLIMIT_FSIZE, (limit, hard))
        try:
            if offset is None:
                self.fd_write(fd, bufs)
            else:
                self.fd_pwrite(fd, bufs, offset)
        finally:
            resource.setrlimit(resource.RLIMIT_FSIZE, (soft, hard))
            del self.history[mark:]
            try:
                self.agent.fsize(None)
            except AgentDied:
                pass
        self.flags.add('write_at_file_size_limit')

    def _dev_offset(self, fd, offset):
        # positional I/O at the far end of the offset range of a character device (/dev/null accepts any seek) is left out:
        # the lseek-based emulation and pread(2)/pwrite(2) legitimately differ there and no realistic caller depends on it
        # (the same for pipes: a negative off_t on a pipe is both EINVAL and ESPIPE in POSIX, which of the two is reported is not specified)
        if (self.fds[fd].get('chr') or self.fds[fd].get('fifo')) and offset >= (1 << 40):
            return 1 << 33
        if offset >= (1 << 63):
            self.flags.add('offset>=2^63')
        return offset

    @staticmethod
    def _libc_pv(fd, bufs, offset, write):
        """preadv(2) / pwritev(2) through libc for offsets >= 2^63 (negative off_t): Python's os.preadv goes through preadv2, where
        offset -1 means 'current position'; the plain system calls reject every negative offset with EINVAL"""
        import ctypes

        class IoVec(ctypes.Structure):
            _fields_ = [('base', ctypes.c_void_p), ('len', ctypes.c_size_t)]
        libc = ctypes.CDLL(None, use_errno=True)
        fn = libc.pwritev if write else libc.preadv
        fn.argtypes = [ctypes.c_int, ctypes.POINTER(IoVec), ctypes.c_int, ctypes.c_int64]
        fn.restype = ctypes.c_ssize_t
        keep = [ctypes.create_string_buffer(bytes(b), max(len(b), 1)) for b in bufs]
        arr = (IoVec * max(len(bufs), 1))()
        for i, b in enumerate(bufs):
            arr[i].base = ctypes.cast(keep[i], ctypes.c_void_p)
            arr[i].len = len(b)
        r = fn(fd, arr, len(bufs), offset - (1 << 64))
        if r < 0:
            e = ctypes.get_errno()
            raise OSError(e, os.strerror(e))
        if not write:
            for i, b in enumerate(bufs):
                b[:] = keep[i].raw[:len(b)]
        return r

    def fd_pwrite(self, fd, bufs, offset):
        offset = self._dev_offset(fd, offset)
        self.record('fd_pwrite', fd, [b.hex() for b in bufs], offset)
        iovs, n, _ = put_iovs(self.agent, bufs)
        self.agent.fill(RES, 16)
        r = self.agent.call('fd_pwrite', 0, fd, iovs, n, offset, RES)
        d = self.fds[fd]
        err = None
        want = 0
        try:
            want = os.pwritev(d['mfd'], bufs, offset) if offset < (1 << 63) else self._libc_pv(d['mfd'], bufs, offset, True)
        except OSError as e:
            err = e
        self.check_errno('fd_pwrite(fd=%d, %d iovecs, offset=%d)' % (fd, len(bufs), offset), r, err)
        if err is None:
            got = self.agent.peek_u32(RES)
            if got != want:
                self.fail('count', 'fd_pwrite stored nwritten=%d, pwritev returned %d' % (got, want))
        if offset >= 1 << 32:
            self.flags.add('offset>=2^32')
        self.last_positional[fd] = True
        self.check_position(fd)
        self.check_file(d)

    def _read_common(self, fn, fd, lens, offset):
        iovs, n, places = put_iovs(self.agent, lens)
        total = sum(lens) + 16 * len(lens) + 16
        self.agent.fill(DATA, total)
        self.agent.fill(RES, 16)
        if offset is None:
            r = self.agent.call(fn, 0, fd, iovs, n, RES)
        else:
            r = self.agent.call(fn, 0, fd, iovs, n, offset, RES)
        return r, places

    def fd_read(self, fd, lens):
        if fd in self.fds and self.fds[fd].get('fifo') and (self.pipe_avail[self.fds[fd]['fifo']] <= 0 or sum(lens) == 0):
            return          # a read from an empty pipe blocks (on both sides)
        self.record('fd_read', fd, list(lens))
        r, places = self._read_common('fd_read', fd, lens, None)
        if fd == 0:
            if r != 0:
                self.fail('stdio', 'fd_read from standard input failed with %s' % ename(r))
            got = self.agent.peek_u32(RES)
            data = b''.join(self.agent.peek(p, l) for p, l in places)[:got]
            want = self.stdin_data[self.stdin_pos:self.stdin_pos + sum(lens)]
            if data != want[:len(data)] or (got < len(want) and got < sum(lens) and got == 0 and want):
                self.fail('stdio', 'fd_read(0) returned %r, standard input holds %r' % (data, want))
            self.stdin_pos += got
            return
        if fd in self.std_closed:
            if r != E['BADF']:
                self.fail('ebadf:fd_read', 'fd_read on closed standard descriptor %d returned %s instead of BADF' % (fd, ename(r)))
            return
        if fd in (1, 2):
            # standard output / error of the agent are files opened write-only (append): readv(2) is EBADF
            if r != E['BADF']:
                self.fail('errno:fd_read', 'fd_read from descriptor %d (a file opened write-only) returned %s, readv gives BADF' % (fd, ename(r)))
            self.flags.add('failing_read_on_standard_stream')
            return
        d = self.fds[fd]
        bufs = [bytearray(l) for l in lens]
        err = None
        want = 0
        try:
            want = os.readv(d['mfd'], bufs)
        except OSError as e:
            err = e
        self.check_errno('fd_read(fd=%d, lens=%r)' % (fd, lens), r, err)
        if err is None and d.get('fifo'):
            self.pipe_avail[d['fifo']] -= want
        if err is None:
            self._compare_read('fd_read', want, bufs, places)
        if self.last_positional.get(fd):
            self.flags.add('positional_then_sequential')
        self.check_position(fd)

    def fd_pread(self, fd, lens, offset):
        offset = self._dev_offset(fd, offset)
        self.record('fd_pread', fd, list(lens), offset)
        r, places = self._read_common('fd_pread', fd, lens, offset)
        d = self.fds[fd]
        bufs = [bytearray(l) for l in lens]
        err = None
        want = 0
        try:
            want = os.preadv(d['mfd'], bufs, offset) if offset < (1 << 63) else self._libc_pv(d['mfd'], bufs, offset, False)
        except OSError as e:
            err = e
        self.check_errno('fd_pread(fd=%d, lens=%r, offset=%d)' % (fd, lens, offset), r, err)
        if err is None:
            self._compare_read('fd_pread', want, bufs, places)
        if offset >= 1 << 32:
            self.flags.add('offset>=2^32')
        self.last_positional[fd] = True
        self.check_position(fd)

    def _compare_read(self, what, want, bufs, places):
        got = self.agent.peek_u32(RES)
        if got != want:
            self.fail('count', '%s stored nread=%d, the POSIX call returned %d' % (what, got, want))
        rem = want
        for (p, l), b in zip(places, bufs):
            take = min(rem, l)
            data = self.agent.peek(p, l + 8)
            if data[:take] != bytes(b[:take]):
                self.fail('data', '%s delivered %r, the file holds %r' % (what, data[:take][:40], bytes(b[:take])[:40]))
            if data[take:] != bytes([CANARY]) * (l - take + 8):
                self.fail('guest-overwrite', '%s wrote outside the bytes it reported (buffer at 0x%x len %d, %d valid)' % (what, p, l, take))
            rem -= take

    def fd_seek(self, fd, offset, whence, unstable):
        self.record('fd_seek', fd, offset, whence, unstable)
        self.agent.fill(RES, 16)
        r = self.agent.call('fd_seek', unstable, fd, offset & 0xffffffffffffffff, whence, RES)
        d = self.fds[fd]
        table = {0: os.SEEK_CUR, 1: os.SEEK_END, 2: os.SEEK_SET} if unstable else {0: os.SEEK_SET, 1: os.SEEK_CUR, 2: os.SEEK_END}
        if unstable:
            self.flags.add('unstable_seek')
        if whence not in table:
            if r != E['INVAL']:
                self.fail('errno:fd_seek:INVAL->%s' % ename(r), 'fd_seek with invalid whence %d returned %s' % (whence, ename(r)))
            if self.agent.peek(RES, 8) != bytes([CANARY] * 8):
                self.fail('guest-overwrite', 'fd_seek with invalid whence %d stored a new offset' % whence)
            if d['kind'] == 'file':
                self.check_position(fd)
            return
        err = None
        want = 0
        so = offset if offset < (1 << 63) else offset - (1 << 64)
        try:
            want = os.lseek(d['mfd'], so, table[whence])
        except OSError as e:
            err = e
        self.check_errno('fd_seek(fd=%d, offset=%d, whence=%d, %s)' % (fd, so, whence, 'unstable' if unstable else 'preview1'), r, err)
        if err is None:
            got = self.agent.peek_u64(RES)
            if got != want:
                self.fail('offset', 'fd_seek stored new offset %d, lseek returned %d' % (got, want))
        self.last_positional[fd] = False

    def fd_tell(self, fd):
        self.record('fd_tell', fd)
        self.check_position(fd)

    def fd_fdstat_get(self, fd, unstable=False):
        """fd_fdstat_get on a live descriptor: succeeds when fstat of the corresponding POSIX descriptor does, reports its file type
        (regular / directory / character device) and the append flag the descriptor was opened with, and writes exactly the
        24-byte record (padding zero, nothing behind it)"""
        self.record('fd_fdstat_get', fd, unstable)
        d = self.fds[fd]
        if d['closed']:
            return
        self.agent.fill(STATBUF, 48)
        r = self.agent.call('fd_fdstat_get', unstable, fd, STATBUF)
        try:
            if d.get('mfd') is not None:
                mst = os.fstat(d['mfd'])
                app = bool(fcntl.fcntl(d['mfd'], fcntl.F_GETFL) & os.O_APPEND)
            else:
                mst = os.stat(d['path'])
                app = False
                if d.get('ino') is not None and mst.st_ino != d['ino']:
                    return
        except OSError:
            return
        if len(d.get('wpath') or b'') >= self.PATH_MAX - 8:
            return
        if r != 0:
            self.fail('fdstat-failed', 'fd_fdstat_get(%d) failed with %s on a live descriptor whose POSIX counterpart answers fstat' % (fd, ename(r)))
        raw = self.agent.peek(STATBUF, 32)
        mft = 3 if stat.S_ISDIR(mst.st_mode) else 4 if stat.S_ISREG(mst.st_mode) else 2 if stat.S_ISCHR(mst.st_mode) else None
        flags = struct.unpack(self.agent.E + 'H', raw[2:4])[0]
        if mft is not None and raw[0] != mft:
            self.fail('fdstat-type', 'fd_fdstat_get(%d) reports file type %d, fstat of the POSIX descriptor gives %d' % (fd, raw[0], mft))
        if d.get('mfd') is not None and bool(flags & 1) != app:
            self.fail('fdstat-flags', 'fd_fdstat_get(%d) reports fdflags %#x, the POSIX descriptor %s O_APPEND' % (fd, flags, 'has' if app else 'does not have'))
        if raw[1] != 0 or raw[4:8] != b'\0' * 4 or raw[24:32] != bytes([CANARY] * 8):
            self.fail('guest-overwrite', 'fd_fdstat_get(%d): padding of the 24-byte record not zero, or bytes behind it written: %s' % (fd, raw.hex()))
        self.flags.add('fdstat_of_live_descriptor')

    def fd_filestat_get(self, fd, unstable):
        self.record('fd_filestat_get', fd, unstable)
        d = self.fds[fd]
        self.agent.fill(STATBUF, 80)
        r = self.agent.call('fd_filestat_get', unstable, fd, STATBUF)
        st = None
        try:
            st = os.stat(d['path'])
        except OSError as e:
            pass
        if st is None or (d.get('ino') is not None and st.st_ino != d['ino']):
            # the name no longer denotes the object the descriptor was opened on (removed / renamed away / replaced): the
            # DESCRIPTOR still does - fstat semantics.  Size, link count and type are compared with fstat of the mirror descriptor
            # (inode and device numbers differ between the two trees).
            if d.get('mfd') is None or d['kind'] != 'file':
                return
            self.flags.add('filestat_of_renamed_or_unlinked_open_file')
            if r != 0:
                self.fail('filestat-stale', 'fd_filestat_get(%d) on an open file whose name was removed / replaced failed with %s; '
                          'fstat() of the corresponding POSIX descriptor succeeds' % (fd, ename(r)))
            mst = os.fstat(d['mfd'])
            raw = self.agent.peek(STATBUF, 64)
            if unstable:
                ftype, nlink, size = struct.unpack(self.agent.E + 'B3xIQ', raw[16:32])
            else:
                ftype = raw[16]
                nlink, size = struct.unpack(self.agent.E + 'QQ', raw[24:40])
            mft = 3 if stat.S_ISDIR(mst.st_mode) else 4 if stat.S_ISREG(mst.st_mode) else 2 if stat.S_ISCHR(mst.st_mode) else \
                1 if stat.S_ISBLK(mst.st_mode) else 0
            if stat.S_ISCHR(mst.st_mode):
                return      # the symlink to /dev/null was removed, not the device: link counts of the device node are not ours
            if (ftype, nlink, size) != (mft, mst.st_nlink, mst.st_size):
                self.fail('filestat-stale', 'fd_filestat_get(%d) on an open file whose name was removed / replaced reports type %d, '
                          'nlink %d, size %d; fstat() of the corresponding POSIX descriptor gives type %d, nlink %d, size %d' % (
                              fd, ftype, nlink, size, mft, mst.st_nlink, mst.st_size))
            return
        if r != 0:
            self.fail('filestat', 'fd_filestat_get(%d) failed with %s' % (fd, ename(r)))
        self.compare_stat('fd_filestat_get', st, unstable)

    def compare_stat(self, what, st, unstable):
        raw = self.agent.peek(STATBUF, 72)
        # record size: preview1 64 bytes; wasi_unstable (snapshot 0) 56 bytes (its link count is a u32 at offset 20)
        rec = 56 if unstable else 64
        if raw[rec:] != bytes([CANARY] * (72 - rec)):
            self.fail('guest-overwrite', '%s wrote past the %d-byte %s filestat record' % (what, rec, 'unstable' if unstable else 'preview1'))
        ft = 3 if stat.S_ISDIR(st.st_mode) else 4 if stat.S_ISREG(st.st_mode) else 7 if stat.S_ISLNK(st.st_mode) else \
            2 if stat.S_ISCHR(st.st_mode) else 1 if stat.S_ISBLK(st.st_mode) else 0
        if unstable:
            dev, ino, ftype, nlink, size, at, mt, ct = struct.unpack(self.agent.E + 'QQB3xIQQQQ', raw[:56])
        else:
            dev, ino, ftype = struct.unpack(self.agent.E + 'QQB', raw[:17])
            nlink, size, at, mt, ct = struct.unpack(self.agent.E + 'QQQQQ', raw[24:64])
        want = (st.st_dev, st.st_ino, ft, st.st_nlink, st.st_size, st.st_mtime_ns, st.st_ctime_ns)
        got = (dev, ino, ftype, nlink, size, mt, ct)
        names = ('dev', 'ino', 'filetype', 'nlink', 'size', 'mtim', 'ctim')
        for n, w, g in zip(names, want, got):
            if w != g:
                self.fail('filestat:' + n, '%s (%s layout): %s is %d, stat() of the same file gives %d' % (
                    what, 'unstable' if unstable else 'preview1', n, g, w))

    def fd_close(self, fd):
        self.record('fd_close', fd)
        r = self.agent.call('fd_close', 0, fd)
        d = self.fds[fd]
        if r != 0:
            self.fail('close', 'fd_close(%d) of a live descriptor failed with %s' % (fd, ename(r)))
        if d['mfd'] is not None:
            os.close(d['mfd'])
        d['closed'] = True
        if d.get('fifo') and not any(x.get('fifo') == d['fifo'] and not x['closed'] for x in self.fds.values()):
            self.pipe_avail[d['fifo']] = 0        # the last descriptor is gone: the kernel discards what the pipe held

    def close_std(self, which):
        """the guest closes its standard output / error: afterwards the number is as dead as any other closed descriptor, also
        once the host has handed the native number to a later open"""
        self.record('close_std', which)
        r = self.agent.call('fd_close', 0, which)
        want = E['BADF'] if which in self.std_closed else 0
        if r != want:
            self.fail('close-std', 'fd_close(%d) returned %s, expected %s' % (which, ename(r), ename(want)))
        self.std_closed.add(which)
        self.flags.add('closed_standard_stream')

    # ---- C13: invalid descriptors
    BAD_CALLS = ('fd_write', 'fd_read', 'fd_pwrite', 'fd_pread', 'fd_seek', 'fd_tell', 'fd_close', 'fd_filestat_get',
                 'fd_fdstat_get', 'fd_prestat_get', 'fd_prestat_dir_name', 'fd_readdir', 'fd_sync', 'fd_datasync', 'path_open',
                 'path_filestat_get', 'path_create_directory', 'path_remove_directory', 'path_unlink_file', 'path_rename_old',
                 'path_rename_new', 'path_symlink', 'path_readlink')

    def bad_fd_call(self, fn, fd, unstable, absolute=False, extreme=0):
        """any descriptor-taking call on a closed / never-issued descriptor must fail with EBADF (and stay memory-safe);
        absolute=True: the guest paths of the path_* calls are absolute (the directory descriptor is then not needed to FORM the
        host path, but it must be valid all the same)"""
        self.record('bad_fd_call', fn, fd, unstable, absolute, extreme)
        a = self.agent
        p, ln = self.put_path((self.real.encode() + b'/a') if absolute else b'a')
        P2, L2 = self.put_path((self.real.encode() + b'/zz') if absolute else b'zz', PATHBUF2)
        put_iovs(a, [b'xy'])
        good = self.preopens[0]
        args = {
            'fd_write': (fd, IOV, 1, RES), 'fd_read': (fd, IOV, 1, RES), 'fd_pwrite': (fd, IOV, 1, 0, RES),
            'fd_pread': (fd, IOV, 1, 0, RES), 'fd_seek': (fd, 0, 0, RES), 'fd_tell': (fd, RES), 'fd_close': (fd,),
            'fd_filestat_get': (fd, STATBUF), 'fd_fdstat_get': (fd, STATBUF), 'fd_prestat_get': (fd, RES),
            'fd_prestat_dir_name': (fd, DIRBUF, 64), 'fd_readdir': (fd, DIRBUF, 256, 0, RES), 'fd_sync': (fd,), 'fd_datasync': (fd,),
            'path_open': (fd, 0, p, ln, 0, RIGHTS_READ, RIGHTS_READ, 0, RES), 'path_filestat_get': (fd, 0, p, ln, STATBUF),
            'path_create_directory': (fd, P2, L2), 'path_remove_directory': (fd, P2, L2),
            'path_unlink_file': (fd, P2, L2), 'path_rename_old': (fd, P2, L2, good, P2, L2),
            'path_rename_new': (good, P2, L2, fd, P2, L2), 'path_symlink': (p, ln, fd, P2, L2),
            'path_readlink': (fd, p, ln, DIRBUF, 64, RES),
        }[fn]
        if extreme:
            # the OTHER arguments are invalid or extreme as well (counts, lengths, pointers, flags): the descriptor is examined
            # first - the answer is still EBADF and no guest or host memory is touched on behalf of a descriptor that does not exist
            big = (0, 1024, 1025, 65536, 0x7fffffff, 0xffffffff)[extreme % 6]
            far = (0xfffffff0, self.agent.pages * 65536 - 4, 0)[extreme % 3]
            alt = {
                'fd_write': (fd, IOV, big, RES), 'fd_read': (fd, far, big, RES), 'fd_pwrite': (fd, far, big, (1 << 64) - 1, RES),
                'fd_pread': (fd, IOV, big, 1 << 63, far), 'fd_seek': (fd, (1 << 63), 3 + extreme, far), 'fd_tell': (fd, far),
                'fd_filestat_get': (fd, far), 'fd_fdstat_get': (fd, far), 'fd_prestat_get': (fd, far),
                'fd_prestat_dir_name': (fd, far, big), 'fd_readdir': (fd, far, big, (1 << 64) - 1, far),
                'path_open': (fd, 0xffffffff, p, (0, 5000, 0xffffffff)[extreme % 3], 0xffff, (1 << 64) - 1, (1 << 64) - 1, 0xffff, far),
                'path_filestat_get': (fd, 0xffffffff, far, big, far),
                'path_create_directory': (fd, P2, (0, 5000)[extreme % 2]), 'path_remove_directory': (fd, far, big),
                'path_unlink_file': (fd, P2, (0, 5000)[extreme % 2]), 'path_rename_old': (fd, P2, 0, good, P2, 5000),
                'path_rename_new': (good, P2, L2, fd, far, big), 'path_symlink': (p, (0, 5000)[extreme % 2], fd, P2, 0),
                'path_readlink': (fd, p, 0, far, big, far),
            }.get(fn)
            if alt is not None:
                args = alt
                self.flags.add('invalid_descriptor_with_extreme_arguments')
        real_fn = 'path_rename' if fn.startswith('path_rename') else fn
        r = a.call(real_fn, unstable, *args)
        if r != E['BADF']:
            self.fail('ebadf:%s:%s' % (fn, ename(r)), '%s on invalid descriptor %d returned %s instead of BADF' % (fn, fd, ename(r)))
        rep = a.sanitizer_report()
        if rep:
            self.fail('sanitizer', 'sanitizer report after %s(%d): %s' % (fn, fd, cexec.san_head(rep, 600)))

    def prestat(self, fd):
        self.record('prestat', fd)
        d = self.fds[fd]
        a = self.agent
        a.fill(RES, 16)
        r = a.call('fd_prestat_get', 0, fd, RES)
        if r != 0:
            self.fail('prestat', 'fd_prestat_get on pre-opened directory %d failed with %s' % (fd, ename(r)))
        tag, ln = struct.unpack(self.agent.E + 'II', a.peek(RES, 8))
        path = d['path'].encode()
        if tag != 0 or ln != len(path):
            self.fail('prestat', 'fd_prestat_get(%d) reports tag %d length %d, the path %r has length %d' % (fd, tag, ln, path, len(path)))
        a.fill(DIRBUF, len(path) + 16)
        r = a.call('fd_prestat_dir_name', 0, fd, DIRBUF, len(path))
        got = a.peek(DIRBUF, len(path) + 8)
        if r != 0 or got[:len(path)] != path:
            self.fail('prestat', 'fd_prestat_dir_name(%d) gave %r (errno %s), expected %r' % (fd, got[:len(path)], ename(r), path))
        if got[len(path):] != bytes([CANARY] * 8):
            self.fail('guest-overwrite', 'fd_prestat_dir_name wrote past the requested length')

    # ---- C14: path operations
    PATH_MAX = 4096

    def _stale(self, dirfd):
        """w2c2 keeps, per directory descriptor, the path string it resolved (never normalised: 'a/../b/.' stays as written) and the
        property defines every call as acting on that path + the guest path.  The mirror works with the normalised place.  The two
        denote the same directory until a component that only the unnormalised string passes through ('a' in 'a/..') is renamed,
        removed or replaced - from then on the call acts on whatever the string denotes now (usually nothing), which this model does
        not track: such steps are executed (memory safety) but not compared."""
        d = self.fds.get(dirfd)
        if not d or d.get('pre') or d['closed'] or d['kind'] != 'dir' or not d.get('wpath'):
            return False
        try:
            a = os.stat(d['wpath'])
            b = os.stat(os.path.join(self.real, d['rel']) if d['rel'] else self.real)
            return (a.st_ino, a.st_dev) != (b.st_ino, b.st_dev)
        except OSError:
            return True

    def wjoin(self, dirfd, nb):
        """the host path w2c2 forms for a guest path: an absolute one as is, otherwise the descriptor's own (never normalised) path,
        a separator unless that path ends in one, and the guest path; a directory opened through it is remembered under this string"""
        if nb[:1] == b'/':
            return nb
        w = self.fds[dirfd].get('wpath') or self.fds[dirfd]['path'].encode()
        return w + (b'' if w.endswith(b'/') else b'/') + nb

    def _joined_len(self, dirfd, nb):
        if nb[:1] == b'/':
            return len(nb)
        # length as the length check of the implementation sees it: descriptor path + separator + guest path
        w = self.fds[dirfd].get('wpath') or self.fds[dirfd]['path'].encode()
        return len(w) + 1 + len(nb)

    def path_op(self, op, dirfd, name, name2=None, dirfd2=None, bufsize=64, unstable=False):
        """op in create_directory, remove_directory, unlink_file, rename, symlink, readlink, filestat_get.
        name/name2 are str or bytes guest paths (relative to the descriptor, or absolute inside the sandbox)"""
        self.record('path_op', op, dirfd, name if isinstance(name, str) else {'hex': bytes(name).hex()},
                    name2 if name2 is None or isinstance(name2, str) else {'hex': bytes(name2).hex()}, dirfd2, bufsize, unstable)
        name, name2 = self.subst(name), self.subst(name2)
        a = self.agent
        nb = name.encode() if isinstance(name, str) else bytes(name)
        nb2 = None if name2 is None else (name2.encode() if isinstance(name2, str) else bytes(name2))
        p1, l1 = self.put_path(nb, PATHBUF)
        if nb2 is not None:
            p2, l2 = self.put_path(nb2, PATHBUF2)
        d2 = dirfd if dirfd2 is None else dirfd2

        def mp(dfd, b):
            s_ = b.decode('utf-8', 'surrogateescape')
            return self.mpath(dfd, s_)
        err = None
        result = None
        too_long = 0
        limit_zone = False
        for dfd, b in ((dirfd, nb), (d2, nb2)) if nb2 is not None and op != 'symlink' else ((dirfd if op != 'symlink' else d2, nb if op != 'symlink' else nb2),):
            jl = self._joined_len(dfd, b)
            if jl >= self.PATH_MAX:
                too_long += 1
            elif jl >= self.PATH_MAX - 2:
                limit_zone = True
        empty = (len(nb) == 0 and op != 'symlink') or (nb2 is not None and len(nb2) == 0)
        if op == 'symlink' and len(nb) >= self.PATH_MAX:
            too_long += 1
        if too_long or limit_zone:
            self.flags.add('path_near_limit')
        if not self.fds[dirfd]['pre'] or (dirfd2 is not None and not self.fds[dirfd2]['pre']):
            self.flags.add('non_preopen_dirfd')
        before = None
        if too_long or empty:
            before = self.tree_listing()
        # judged BEFORE the call (the call itself may rename the component away)
        stale_before = (nb[:1] != b'/' and self._stale(dirfd if op != 'symlink' else d2)) or \
            (nb2 is not None and op == 'rename' and nb2[:1] != b'/' and self._stale(d2))
        a.fill(RES, 16)
        a.fill(DIRBUF, bufsize + 16)
        a.fill(STATBUF, 80)
        if op == 'create_directory':
            r = a.call('path_create_directory', unstable, dirfd, p1, l1)
        elif op == 'remove_directory':
            r = a.call('path_remove_directory', unstable, dirfd, p1, l1)
        elif op == 'unlink_file':
            r = a.call('path_unlink_file', unstable, dirfd, p1, l1)
        elif op == 'rename':
            r = a.call('path_rename', unstable, dirfd, p1, l1, d2, p2, l2)
        elif op == 'symlink':
            r = a.call('path_symlink', unstable, p1, l1, d2, p2, l2)
        elif op == 'readlink':
            r = a.call('path_readlink', unstable, dirfd, p1, l1, DIRBUF, bufsize, RES)
        elif op == 'filestat_get':
            r = a.call('path_filestat_get', unstable, dirfd, 1, p1, l1, STATBUF)
        else:
            raise AssertionError(op)
        rep = a.sanitizer_report()
        if rep:
            self.fail('sanitizer', 'sanitizer report during path_%s: %s' % (op, cexec.san_head(rep, 800)))
        if stale_before:
            self.flags.add('descriptor_path_no_longer_denotes_its_directory')
            if r == 0 and op not in ('readlink', 'filestat_get'):
                self.tree_unknown = True
            return
        if empty or too_long:
            if r == 0:
                self.fail('path-accepted:%s' % ('empty' if empty else 'too-long'),
                          'path_%s accepted %s' % (op, 'an empty path' if empty else 'a path whose resolved length %d does not fit the host limit' % max(self._joined_len(dirfd, nb), len(nb))))
            if self.tree_listing() != before:
                self.fail('path-rejected-but-acted', 'path_%s was rejected with %s but changed the tree' % (op, ename(r)))
            return
        try:
            if op == 'create_directory':
                os.mkdir(mp(dirfd, nb), 0o755)
            elif op == 'remove_directory':
                os.rmdir(mp(dirfd, nb))
            elif op == 'unlink_file':
                os.unlink(mp(dirfd, nb))
            elif op == 'rename':
                os.rename(mp(dirfd, nb), mp(d2, nb2))
            elif op == 'symlink':
                tgt = nb.decode('utf-8', 'surrogateescape')
                os.symlink(tgt, mp(d2, nb2))
            elif op == 'readlink':
                if bufsize == 0:
                    raise OSError(errno.EINVAL, 'readlink(2) with a zero-sized buffer')
                result = os.readlink(mp(dirfd, nb).encode('utf-8', 'surrogateescape'))
            elif op == 'filestat_get':
                result = os.stat(self.rpath(dirfd, nb.decode('utf-8', 'surrogateescape')) if nb[:1] != b'/' else nb)
        except OSError as e:
            err = e
        except ValueError as e:        # embedded NUL etc.: not generated
            return
        if limit_zone:
            # boundary zone the property leaves open: rejection or the host's answer
            if r != 0 and err is None:
                self._undo_mirror(op, mp, dirfd, nb, d2, nb2)
            elif r == 0 and err is not None:
                self.fail('limit-zone', 'path_%s succeeded where the POSIX call fails with %s' % (op, err))
            return
        self.check_errno('path_%s(%r%s)' % (op, nb[:60], '' if nb2 is None else ', %r' % nb2[:60]), r, err)
        if err is None and op == 'readlink':
            got_len = a.peek_u32(RES)
            exp = result.replace(self.mirror.encode(), self.real.encode())[:bufsize]
            data = a.peek(DIRBUF, bufsize + 8)
            if got_len != len(exp) or data[:len(exp)] != exp:
                self.fail('readlink', 'path_readlink gave %r (length %d), readlink() gives %r' % (data[:got_len][:60], got_len, exp[:60]))
            if data[bufsize:] != bytes([CANARY] * 8):
                self.fail('guest-overwrite', 'path_readlink wrote past its buffer')
        if err is None and op == 'filestat_get':
            self.compare_stat('path_filestat_get', result, unstable)

    def _undo_mirror(self, op, mp, dirfd, nb, d2, nb2):
        try:
            if op == 'create_directory':
                os.rmdir(mp(dirfd, nb))
            elif op == 'symlink':
                os.unlink(mp(d2, nb2))
            elif op == 'rename':
                os.rename(mp(d2, nb2), mp(dirfd, nb))
        except OSError:
            pass

    def host_special(self, dirfd, kinds):
        """the HOST (not the guest) puts objects into a directory that WASI itself cannot create: FIFOs and unix sockets (both
        listed with the WASI file type 'unknown'), on both sides alike.  Names fifoN / sockN are never opened by any rule (an open of
        a FIFO blocks); path operations and listings see them like any other entry."""
        import socket
        self.record('host_special', dirfd, list(kinds))
        d = self.fds[dirfd]
        if d['closed'] or d['kind'] != 'dir':
            return
        for i, k in enumerate(kinds):
            name = ('fifo%d' if k == 'fifo' else 'sock%d') % i
            for side in (os.path.join(self.real, d['rel']) if d['rel'] else self.real, os.path.join(self.mirror, d['rel']) if d['rel'] else self.mirror):
                p = os.path.join(side, name)
                if len(p) > 100 and k != 'fifo':
                    continue                  # sun_path limit: same decision on both sides (equal root lengths)
                try:
                    if k == 'fifo':
                        os.mkfifo(p)
                    else:
                        sk = socket.socket(socket.AF_UNIX)
                        try:
                            sk.bind(p)
                        finally:
                            sk.close()
                except OSError:
                    pass
        self.flags.add('host_created_fifo_or_socket')

    def tree_listing(self):
        out = []
        for dp, dns, fns in os.walk(self.real):
            out.append((os.path.relpath(dp, self.real), sorted(dns), sorted(fns)))
        return sorted(out)

    def open_dir(self, dirfd, name):
        return self.path_open(dirfd, name, O_DIRECTORY, True, False, False)

    # ---- C14: fd_readdir with the standard client
    def _listing(self, fd, bufsize, cookie, max_calls=10000):
        """standard client: consume complete entries, resume from the last complete entry's d_next"""
        a = self.agent
        entries = []
        calls = 0
        tail = b''
        while True:
            calls += 1
            if calls > max_calls:
                self.fail('readdir-loop', 'fd_readdir does not make progress with buffer size %d' % bufsize)
            a.fill(DIRBUF, bufsize + 16)
            a.fill(RES, 16)
            r = a.call('fd_readdir', 0, fd, DIRBUF, bufsize, cookie, RES)
            if r != 0:
                self.fail('readdir-errno', 'fd_readdir(fd=%d, len=%d, cookie=%d) failed with %s' % (fd, bufsize, cookie, ename(r)))
            used = a.peek_u32(RES)
            if used > bufsize:
                self.fail('readdir-used', 'fd_readdir reported %d used bytes for a %d-byte buffer' % (used, bufsize))
            raw = a.peek(DIRBUF, bufsize + 8)
            if raw[bufsize:] != bytes([CANARY] * 8):
                self.fail('guest-overwrite', 'fd_readdir wrote past its buffer')
            pos = 0
            got = 0
            while pos + 24 <= used:
                d_next, d_ino, namlen, d_type = struct.unpack(self.agent.E + 'QQIB', raw[pos:pos + 21])
                if pos + 24 + namlen > used:
                    break
                name = raw[pos + 24:pos + 24 + namlen]
                if got == 0 and tail:
                    # what the previous call delivered of the entry that did not fit is the beginning of that entry's record
                    # (a truncated entry is cut off, not re-encoded): the record is now here in full, in the same layout
                    if raw[pos:pos + 24 + namlen][:len(tail)] != tail:
                        self.fail('readdir-truncated-entry', 'fd_readdir (buffer %d) delivered %d bytes of the entry that did not fit: %s; the complete '
                                  'record of that entry (%r), delivered by the next call, begins %s' % (bufsize, len(tail), tail.hex(), name, raw[pos:pos + len(tail)].hex()))
                    self.flags.add('truncated_entry_bytes_delivered')
                entries.append((name, d_next, d_ino, d_type, namlen))
                cookie = d_next
                pos += 24 + namlen
                got += 1
            tail = raw[pos:used]
            if tail == bytes([CANARY] * len(tail)):
                tail = b''           # reported as used (the "buffer full, come again" signal) but left untouched: nothing to compare
            if used < bufsize:
                return entries, calls
            if got == 0:
                self.fail('readdir-stuck', 'buffer of %d bytes can hold an entry but fd_readdir delivered no complete entry' % bufsize)

    def readdir(self, fd, bufsize, resume_index, restart):
        self.record('readdir', fd, bufsize, resume_index, restart)
        d = self.fds[fd]
        rdir = d['path']
        try:
            if d.get('ino') is not None and os.stat(rdir).st_ino != d['ino']:
                raise OSError('replaced')
            names = os.listdir(rdir)
        except OSError:
            # the directory was renamed / removed after the descriptor was opened: no listing is specified, but the call is still
            # made (cookie 0 = restart): whatever it answers, the host must stay memory-safe now and at the later fd_close
            a = self.agent
            bufsize = max(bufsize, 64)
            a.fill(DIRBUF, bufsize + 16)
            a.fill(RES, 16)
            r = a.call('fd_readdir', 0, fd, DIRBUF, bufsize, 0, RES)
            if r == 0:
                if a.peek_u32(RES) > bufsize:
                    self.fail('readdir-used', 'fd_readdir reported %d used bytes for a %d-byte buffer' % (a.peek_u32(RES), bufsize))
                if a.peek(DIRBUF + bufsize, 8) != bytes([CANARY] * 8):
                    self.fail('guest-overwrite', 'fd_readdir wrote past its buffer')
            self.flags.add('readdir_on_vanished_directory')
            return
        # Python-side lstat calls go through the shortest name of the same directory (the descriptor's own path may be within a few
        # bytes of the host limit, so that path + '/' + entry name no longer fits)
        short = os.path.join(self.real, d['rel']) if d['rel'] else self.real
        try:
            if os.stat(short).st_ino == os.stat(rdir).st_ino:
                rdir = short
        except OSError:
            pass
        maxname = max([len(os.fsencode(n)) for n in names] + [2])
        bufsize = max(bufsize, 24 + maxname)          # "any buffer size that can hold one entry"
        entries, calls = self._listing(fd, bufsize, 0)
        if calls >= 3:
            self.flags.add('listing_needs>=3_calls')
        want = sorted([os.fsencode(n) for n in names] + [b'.', b'..'])
        got = sorted(e[0] for e in entries)
        if got != want:
            self.fail('readdir-names', 'fd_readdir (buffer %d) listed %r, the directory holds %r' % (bufsize, got, want))
        for name, d_next, d_ino, d_type, namlen in entries:
            st = os.lstat(os.path.join(os.fsencode(rdir), name))
            ft = 3 if stat.S_ISDIR(st.st_mode) else 4 if stat.S_ISREG(st.st_mode) else 7 if stat.S_ISLNK(st.st_mode) else 0
            if d_ino != st.st_ino or d_type != ft or namlen != len(name):
                self.fail('readdir-entry', 'dirent of %r: ino %d type %d namlen %d, lstat gives ino %d type %d' % (
                    name, d_ino, d_type, namlen, st.st_ino, ft))
        if entries and resume_index is not None:
            self.flags.add('resume')
            k = resume_index % len(entries)
            rest, _ = self._listing(fd, bufsize, entries[k][1])
            if [e[0] for e in rest] != [e[0] for e in entries[k + 1:]]:
                self.fail('readdir-resume', 'resuming from the cookie of entry %d (%r) gave %r, expected %r' % (
                    k, entries[k][0], [e[0] for e in rest], [e[0] for e in entries[k + 1:]]))
        if restart:
            self.flags.add('restart')
            again, _ = self._listing(fd, bufsize, 0)
            if sorted(e[0] for e in again) != want:
                self.fail('readdir-restart', 'a second listing from cookie 0 gave %r, expected the full directory %r' % (
                    sorted(e[0] for e in again), want))

    # ---- final / per-file comparison
    def check_file(self, d):
        if d['kind'] != 'file':
            return
        rp = d['path']
        mp = os.path.join(self.mirror, d['rel'])
        try:
            rs, ms = os.stat(rp), os.stat(mp)
        except OSError:
            return
        if rs.st_size != ms.st_size:
            self.fail('content', 'size of %s is %d, POSIX mirror has %d (after %r)' % (d['rel'], rs.st_size, ms.st_size, self.history[-1]))

    def final_check(self):
        if self.agent.p.poll() is not None and self.agent.p.returncode not in (0, None):
            self.fail('agent-died', 'agent exited with %r: %s' % (self.agent.p.returncode, cexec.san_head(self.agent.sanitizer_report(), 800)))
        if self.tree_unknown:
            return
        for dp, dns, fns in os.walk(self.mirror):
            rel = os.path.relpath(dp, self.mirror)
            rdir = os.path.join(self.real, rel)
            try:
                rnames = sorted(os.listdir(rdir))
            except OSError as e:
                self.fail('tree', 'directory %s missing on the real side: %s' % (rel, e))
            if rnames != sorted(dns + fns):
                self.fail('tree', 'directory %s: real side has %r, POSIX mirror has %r' % (rel, rnames, sorted(dns + fns)))
            for n in fns:
                mp, rp = os.path.join(dp, n), os.path.join(rdir, n)
                if os.path.islink(mp) or os.path.islink(rp):
                    if not (os.path.islink(mp) and os.path.islink(rp)) or os.readlink(mp).replace(self.mirror, '') != os.readlink(rp).replace(self.real, ''):
                        self.fail('tree', 'symlink %s differs' % os.path.join(rel, n))
                    continue
                ms, rs = os.stat(mp), os.stat(rp)
                if not stat.S_ISREG(ms.st_mode) or not stat.S_ISREG(rs.st_mode):
                    if stat.S_IFMT(ms.st_mode) != stat.S_IFMT(rs.st_mode):
                        self.fail('tree', '%s: file type differs from the POSIX mirror' % os.path.join(rel, n))
                    continue
                if ms.st_size != rs.st_size:
                    self.fail('content', 'final size of %s: real %d, mirror %d' % (os.path.join(rel, n), rs.st_size, ms.st_size))
                if ms.st_size <= (1 << 22):
                    if open(mp, 'rb').read() != open(rp, 'rb').read():
                        self.fail('content', 'final contents of %s differ from the POSIX mirror' % os.path.join(rel, n))
                else:
                    # sparse giant: compare the data extents
                    with open(mp, 'rb') as fm, open(rp, 'rb') as fr:
                        pos = 0
                        while True:
                            try:
                                ds = os.lseek(fm.fileno(), pos, os.SEEK_DATA)
                            except OSError:
                                break
                            de = os.lseek(fm.fileno(), ds, os.SEEK_HOLE)
                            fm.seek(ds); fr.seek(ds)
                            if fm.read(min(de - ds, 1 << 20)) != fr.read(min(de - ds, 1 << 20)):
                                self.fail('content', 'data extent at %d of %s differs from the POSIX mirror' % (ds, os.path.join(rel, n)))
                            pos = de
        for fd in (1, 2):
            got = open(self.stdout_path if fd == 1 else self.stderr_path, 'rb').read()
            if fd == 2:
                if self.out_expect[2] and self.out_expect[2] not in got:
                    self.fail('stdio', 'bytes written through fd 2 did not reach standard error')
            elif got != self.out_expect[1]:
                self.fail('stdio', 'standard output holds %r, fd 1 was given %r' % (got[:60], self.out_expect[1][:60]))
        rep = self.agent.sanitizer_report()
        if rep:
            self.fail('sanitizer', 'sanitizer report: ' + cexec.san_head(rep, 800))


def replay_history(history, npreopen=1, extra=None):
    """re-execute a recorded history without Hypothesis; returns None or (sig, message)"""
    variant = ([st[1] for st in history if st and st[0] == 'agent_variant'] or ['default'])[0]
    ex = FsExecutor(npreopen=npreopen, variant=variant)
    try:
        try:
            for step in history:
                op, args = step[0], step[1:]
                if op == 'agent_variant':
                    continue
                if op in ('fd_write', 'fd_pwrite', 'limited_write'):
                    args = [args[0], [bytes.fromhex(h) for h in args[1]]] + list(args[2:])
                args = [bytes.fromhex(x['hex']) if isinstance(x, dict) and 'hex' in x else x for x in args]
                m = getattr(ex, op, None) or (extra or {}).get(op)
                if m is None:
                    continue
                if op in (extra or {}):
                    extra[op](ex, *args)
                else:
                    m(*args)
            ex.final_check()
        except Violation as v:
            return v.sig, str(v)
        except AgentDied as e:
            return 'agent-died', '%s\n%s' % (e, cexec.san_head(e.stderr, 1500))
        except KeyError:
            return None
        return None
    finally:
        ex.close()
