"""wasmkit (E1): AST, opcode tables, binary encoder with encoding knobs, decoder, validator.

Instruction = tuple (name, *immediates).  Structured instructions nest:
  ('block', bt, body) ('loop', bt, body) ('if', bt, then, els|None)     bt in (None,'i32','i64','f32','f64')
Constants carry *bit patterns* (unsigned ints) for all four types.
"""
import struct

I32, I64, F32, F64 = 'i32', 'i64', 'f32', 'f64'
VT_BYTE = {I32: 0x7f, I64: 0x7e, F32: 0x7d, F64: 0x7c}
BYTE_VT = {v: k for k, v in VT_BYTE.items()}
WIDTH = {I32: 32, I64: 64, F32: 32, F64: 64}

# ---------------------------------------------------------------------------------------------
# opcode tables
# ---------------------------------------------------------------------------------------------
NUMERIC = {}          # name -> (code, params tuple, result)
_c = 0x45
for _t in (I32, I64):
    NUMERIC[_t + '.eqz'] = (_c, (_t,), I32); _c += 1
    for _n in ('eq', 'ne', 'lt_s', 'lt_u', 'gt_s', 'gt_u', 'le_s', 'le_u', 'ge_s', 'ge_u'):
        NUMERIC['%s.%s' % (_t, _n)] = (_c, (_t, _t), I32); _c += 1
for _t in (F32, F64):
    for _n in ('eq', 'ne', 'lt', 'gt', 'le', 'ge'):
        NUMERIC['%s.%s' % (_t, _n)] = (_c, (_t, _t), I32); _c += 1
assert _c == 0x67
for _t in (I32, I64):
    for _n in ('clz', 'ctz', 'popcnt'):
        NUMERIC['%s.%s' % (_t, _n)] = (_c, (_t,), _t); _c += 1
    for _n in ('add', 'sub', 'mul', 'div_s', 'div_u', 'rem_s', 'rem_u', 'and', 'or', 'xor', 'shl', 'shr_s', 'shr_u',
               'rotl', 'rotr'):
        NUMERIC['%s.%s' % (_t, _n)] = (_c, (_t, _t), _t); _c += 1
assert _c == 0x8b
for _t in (F32, F64):
    for _n in ('abs', 'neg', 'ceil', 'floor', 'trunc', 'nearest', 'sqrt'):
        NUMERIC['%s.%s' % (_t, _n)] = (_c, (_t,), _t); _c += 1
    for _n in ('add', 'sub', 'mul', 'div', 'min', 'max', 'copysign'):
        NUMERIC['%s.%s' % (_t, _n)] = (_c, (_t, _t), _t); _c += 1
assert _c == 0xa7
for _n, _p, _r in (
        ('i32.wrap_i64', I64, I32), ('i32.trunc_f32_s', F32, I32), ('i32.trunc_f32_u', F32, I32),
        ('i32.trunc_f64_s', F64, I32), ('i32.trunc_f64_u', F64, I32), ('i64.extend_i32_s', I32, I64),
        ('i64.extend_i32_u', I32, I64), ('i64.trunc_f32_s', F32, I64), ('i64.trunc_f32_u', F32, I64),
        ('i64.trunc_f64_s', F64, I64), ('i64.trunc_f64_u', F64, I64), ('f32.convert_i32_s', I32, F32),
        ('f32.convert_i32_u', I32, F32), ('f32.convert_i64_s', I64, F32), ('f32.convert_i64_u', I64, F32),
        ('f32.demote_f64', F64, F32), ('f64.convert_i32_s', I32, F64), ('f64.convert_i32_u', I32, F64),
        ('f64.convert_i64_s', I64, F64), ('f64.convert_i64_u', I64, F64), ('f64.promote_f32', F32, F64),
        ('i32.reinterpret_f32', F32, I32), ('i64.reinterpret_f64', F64, I64), ('f32.reinterpret_i32', I32, F32),
        ('f64.reinterpret_i64', I64, F64), ('i32.extend8_s', I32, I32), ('i32.extend16_s', I32, I32),
        ('i64.extend8_s', I64, I64), ('i64.extend16_s', I64, I64), ('i64.extend32_s', I64, I64)):
    NUMERIC[_n] = (_c, (_p,), _r); _c += 1
assert _c == 0xc5
# saturating truncations: 0xFC 0..7
SAT = {}
for _i, (_n, _p, _r) in enumerate((
        ('i32.trunc_sat_f32_s', F32, I32), ('i32.trunc_sat_f32_u', F32, I32), ('i32.trunc_sat_f64_s', F64, I32),
        ('i32.trunc_sat_f64_u', F64, I32), ('i64.trunc_sat_f32_s', F32, I64), ('i64.trunc_sat_f32_u', F32, I64),
        ('i64.trunc_sat_f64_s', F64, I64), ('i64.trunc_sat_f64_u', F64, I64))):
    SAT[_n] = (_i, (_p,), _r)

# memory: name -> (code, value type, access bytes, signed)
LOADS = {}
for _i, (_n, _t, _b, _s) in enumerate((
        ('i32.load', I32, 4, False), ('i64.load', I64, 8, False), ('f32.load', F32, 4, False), ('f64.load', F64, 8, False),
        ('i32.load8_s', I32, 1, True), ('i32.load8_u', I32, 1, False), ('i32.load16_s', I32, 2, True),
        ('i32.load16_u', I32, 2, False), ('i64.load8_s', I64, 1, True), ('i64.load8_u', I64, 1, False),
        ('i64.load16_s', I64, 2, True), ('i64.load16_u', I64, 2, False), ('i64.load32_s', I64, 4, True),
        ('i64.load32_u', I64, 4, False))):
    LOADS[_n] = (0x28 + _i, _t, _b, _s)
STORES = {}
for _i, (_n, _t, _b) in enumerate((
        ('i32.store', I32, 4), ('i64.store', I64, 8), ('f32.store', F32, 4), ('f64.store', F64, 8), ('i32.store8', I32, 1),
        ('i32.store16', I32, 2), ('i64.store8', I64, 1), ('i64.store16', I64, 2), ('i64.store32', I64, 4))):
    STORES[_n] = (0x36 + _i, _t, _b)

# atomics (0xFE prefix): name -> (code, value type, access bytes)
ATOMIC_LOADS, ATOMIC_STORES, ATOMIC_RMW, ATOMIC_CMPXCHG = {}, {}, {}, {}
_shapes = (('i32', '', 4), ('i64', '', 8), ('i32', '8', 1), ('i32', '16', 2), ('i64', '8', 1), ('i64', '16', 2), ('i64', '32', 4))
_c = 0x10
for _t, _w, _b in _shapes:
    ATOMIC_LOADS['%s.atomic.load%s' % (_t, _w + '_u' if _w else '')] = (_c, _t, _b); _c += 1
for _t, _w, _b in _shapes:
    ATOMIC_STORES['%s.atomic.store%s' % (_t, _w)] = (_c, _t, _b); _c += 1
for _op in ('add', 'sub', 'and', 'or', 'xor', 'xchg'):
    for _t, _w, _b in _shapes:
        _n = '%s.atomic.rmw%s.%s%s' % (_t, _w, _op, '_u' if _w else '')
        ATOMIC_RMW[_n] = (_c, _t, _b, _op); _c += 1
for _t, _w, _b in _shapes:
    _n = '%s.atomic.rmw%s.cmpxchg%s' % (_t, _w, '_u' if _w else '')
    ATOMIC_CMPXCHG[_n] = (_c, _t, _b); _c += 1
assert _c == 0x4f
ATOMIC_MISC = {'memory.atomic.notify': 0x00, 'memory.atomic.wait32': 0x01, 'memory.atomic.wait64': 0x02}

NUMERIC_BY_CODE = {v[0]: k for k, v in NUMERIC.items()}
SAT_BY_CODE = {v[0]: k for k, v in SAT.items()}
LOADS_BY_CODE = {v[0]: k for k, v in LOADS.items()}
STORES_BY_CODE = {v[0]: k for k, v in STORES.items()}
ATOMIC_BY_CODE = {}
for _d in (ATOMIC_LOADS, ATOMIC_STORES, ATOMIC_RMW, ATOMIC_CMPXCHG):
    for _k, _v in _d.items():
        ATOMIC_BY_CODE[_v[0]] = _k
for _k, _v in ATOMIC_MISC.items():
    ATOMIC_BY_CODE[_v] = _k


def natural_align(nbytes):
    return {1: 0, 2: 1, 4: 2, 8: 3}[nbytes]


# ---------------------------------------------------------------------------------------------
# module
# ---------------------------------------------------------------------------------------------
class Func(object):
    __slots__ = ('type', 'locals', 'body')

    def __init__(self, type, locals, body):
        self.type, self.locals, self.body = type, list(locals), body


class Module(object):
    def __init__(self):
        self.types = []      # (params tuple, results tuple)
        self.imports = []    # (module bytes, name bytes, kind, desc)
        self.funcs = []      # Func
        self.table = None    # (min, max|None)
        self.memory = None   # (min, max|None, shared)
        self.globals = []    # (valtype, mutable, init instr)
        self.exports = []    # (name bytes, kind, index)
        self.start = None
        self.elems = []      # (offset instr, [func idx])
        self.datas = []      # (mode 'active'|'passive', offset instr|None, bytes)
        self.func_names = None   # dict idx -> bytes, or list of (idx, bytes) for exotic name sections
        self.name_subsections = None   # extra subsections of the name section: list of (id, payload), e.g. module name (0), local names (2)
        self.customs = []    # (position index, name bytes, payload bytes) position = before section id order slot
        self.datacount = None    # None: emit iff needed; True/False force

    # ---- index spaces
    def imported(self, kind):
        return [i for i in self.imports if i[2] == kind]

    def n_imported_funcs(self):
        return len(self.imported('func'))

    def func_type(self, fidx):
        imps = self.imported('func')
        if fidx < len(imps):
            return self.types[imps[fidx][3]]
        return self.types[self.funcs[fidx - len(imps)].type]

    def n_funcs(self):
        return self.n_imported_funcs() + len(self.funcs)

    def global_type(self, gidx):
        imps = self.imported('global')
        if gidx < len(imps):
            return imps[gidx][3]
        g = self.globals[gidx - len(imps)]
        return (g[0], g[1])

    def n_globals(self):
        return len(self.imported('global')) + len(self.globals)

    def mem_desc(self):
        imps = self.imported('memory')
        if imps:
            return imps[0][3]
        return self.memory

    def table_desc(self):
        imps = self.imported('table')
        if imps:
            return imps[0][3]
        return self.table

    def type_index(self, params, results):
        t = (tuple(params), tuple(results))
        if t not in self.types:
            self.types.append(t)
        return self.types.index(t)


# ---------------------------------------------------------------------------------------------
# LEB128
# ---------------------------------------------------------------------------------------------
def uleb(v):
    out = bytearray()
    while True:
        b = v & 0x7f
        v >>= 7
        if v:
            out.append(b | 0x80)
        else:
            out.append(b)
            return bytes(out)


def sleb(v):
    out = bytearray()
    while True:
        b = v & 0x7f
        v >>= 7
        if (v == 0 and not (b & 0x40)) or (v == -1 and (b & 0x40)):
            out.append(b)
            return bytes(out)
        out.append(b | 0x80)


def uleb_padded(v, n):
    """v as unsigned LEB in exactly n bytes (n >= minimal length)."""
    out = bytearray()
    for i in range(n):
        b = v & 0x7f
        v >>= 7
        out.append(b | (0x80 if i < n - 1 else 0))
    assert v == 0
    return bytes(out)


def sleb_padded(v, n):
    out = bytearray()
    for i in range(n):
        b = v & 0x7f
        v >>= 7
        out.append(b | (0x80 if i < n - 1 else 0))
    assert v in (0, -1) and bool(out[-1] & 0x40) == (v == -1), (v, n)
    return bytes(out)


def to_signed(v, bits):
    v &= (1 << bits) - 1
    return v - (1 << bits) if v >> (bits - 1) else v


class Knobs(object):
    """Encoding choices. chooser: object with .below(n) -> int in [0,n); None = canonical encoding."""

    def __init__(self, chooser=None, pad_prob_pct=0, customs=False, data_flag2=False, empty_sections=False,
                 datacount=False, local_groups=False):
        self.ch = chooser
        self.pad = pad_prob_pct
        self.customs = customs
        self.data_flag2 = data_flag2
        self.empty_sections = empty_sections
        self.datacount = datacount
        self.local_groups = local_groups      # locals vectors with split runs and zero-count entries (same locals, other grouping)
        self.stats = {'padded_body': 0, 'padded_section': 0, 'customs': 0, 'flag2': 0, 'empty_sections': 0,
                      'datacount': 0, 'local_groups': 0}
        self.in_body = False

    def want_pad(self):
        if self.ch is None or not self.pad:
            return False
        return self.ch.below(100) < self.pad

    def pick(self, n):
        return self.ch.below(n)

    def flip(self, pct=50):
        if self.ch is None:
            return False
        return self.ch.below(100) < pct


class Encoder(object):
    def __init__(self, knobs=None):
        self.k = knobs or Knobs()

    # --- primitive fields
    def u(self, v, bits=32):
        m = uleb(v)
        maxlen = (bits + 6) // 7
        if len(m) < maxlen and self.k.want_pad():
            n = len(m) + 1 + self.k.pick(maxlen - len(m))
            self.k.stats['padded_body' if self.k.in_body else 'padded_section'] += 1
            return uleb_padded(v, n)
        return m

    def s(self, v, bits):
        """v is the unsigned bit pattern of width `bits` (or a signed python int)."""
        v = to_signed(v, bits)
        m = sleb(v)
        maxlen = (bits + 6) // 7
        if len(m) < maxlen and self.k.want_pad():
            n = len(m) + 1 + self.k.pick(maxlen - len(m))
            self.k.stats['padded_body' if self.k.in_body else 'padded_section'] += 1
            return sleb_padded(v, n)
        return m

    def name(self, b):
        return self.u(len(b)) + bytes(b)

    def vec(self, items):
        return self.u(len(items)) + b''.join(items)

    def limits(self, lim):
        mn, mx = lim[0], lim[1]
        shared = len(lim) > 2 and lim[2]
        flag = (1 if mx is not None else 0) | (2 if shared else 0)
        out = bytes([flag]) + self.u(mn)
        if mx is not None:
            out += self.u(mx)
        return out

    def blocktype(self, bt):
        return b'\x40' if bt is None else bytes([VT_BYTE[bt]])

    # --- instructions
    def instr(self, ins, out):
        op = ins[0]
        u = self.u
        if op == 'block' or op == 'loop':
            out.append(bytes([0x02 if op == 'block' else 0x03]) + self.blocktype(ins[1]))
            for i in ins[2]:
                self.instr(i, out)
            out.append(b'\x0b')
        elif op == 'if':
            out.append(b'\x04' + self.blocktype(ins[1]))
            for i in ins[2]:
                self.instr(i, out)
            if ins[3] is not None:
                out.append(b'\x05')
                for i in ins[3]:
                    self.instr(i, out)
            out.append(b'\x0b')
        elif op in NUMERIC:
            out.append(bytes([NUMERIC[op][0]]))
        elif op == 'i32.const':
            out.append(b'\x41' + self.s(ins[1], 32))
        elif op == 'i64.const':
            out.append(b'\x42' + self.s(ins[1], 64))
        elif op == 'f32.const':
            out.append(b'\x43' + struct.pack('<I', ins[1]))
        elif op == 'f64.const':
            out.append(b'\x44' + struct.pack('<Q', ins[1]))
        elif op == 'local.get':
            out.append(b'\x20' + u(ins[1]))
        elif op == 'local.set':
            out.append(b'\x21' + u(ins[1]))
        elif op == 'local.tee':
            out.append(b'\x22' + u(ins[1]))
        elif op == 'global.get':
            out.append(b'\x23' + u(ins[1]))
        elif op == 'global.set':
            out.append(b'\x24' + u(ins[1]))
        elif op in LOADS:
            out.append(bytes([LOADS[op][0]]) + u(ins[1]) + u(ins[2]))
        elif op in STORES:
            out.append(bytes([STORES[op][0]]) + u(ins[1]) + u(ins[2]))
        elif op == 'unreachable':
            out.append(b'\x00')
        elif op == 'nop':
            out.append(b'\x01')
        elif op == 'br':
            out.append(b'\x0c' + u(ins[1]))
        elif op == 'br_if':
            out.append(b'\x0d' + u(ins[1]))
        elif op == 'br_table':
            out.append(b'\x0e' + self.vec([u(l) for l in ins[1]]) + u(ins[2]))
        elif op == 'return':
            out.append(b'\x0f')
        elif op == 'call':
            out.append(b'\x10' + u(ins[1]))
        elif op == 'call_indirect':
            out.append(b'\x11' + u(ins[1]) + b'\x00')
        elif op == 'drop':
            out.append(b'\x1a')
        elif op == 'select':
            out.append(b'\x1b')
        elif op == 'memory.size':
            out.append(b'\x3f\x00')
        elif op == 'memory.grow':
            out.append(b'\x40\x00')
        elif op in SAT:
            out.append(b'\xfc' + uleb(SAT[op][0]))
        elif op == 'memory.init':
            out.append(b'\xfc' + uleb(8) + u(ins[1]) + b'\x00')
        elif op == 'data.drop':
            out.append(b'\xfc' + uleb(9) + u(ins[1]))
        elif op == 'memory.copy':
            out.append(b'\xfc' + uleb(10) + b'\x00\x00')
        elif op == 'memory.fill':
            out.append(b'\xfc' + uleb(11) + b'\x00')
        elif op == 'atomic.fence':
            out.append(b'\xfe' + uleb(3) + b'\x00')
        elif op in ATOMIC_MISC:
            out.append(b'\xfe' + uleb(ATOMIC_MISC[op]) + u(ins[1]) + u(ins[2]))
        elif op in ATOMIC_LOADS or op in ATOMIC_STORES or op in ATOMIC_RMW or op in ATOMIC_CMPXCHG:
            code = (ATOMIC_LOADS.get(op) or ATOMIC_STORES.get(op) or ATOMIC_RMW.get(op) or ATOMIC_CMPXCHG.get(op))[0]
            out.append(b'\xfe' + uleb(code) + u(ins[1]) + u(ins[2]))
        else:
            raise ValueError('cannot encode %r' % (ins,))

    def expr(self, body):
        out = []
        for i in body:
            self.instr(i, out)
        out.append(b'\x0b')
        return b''.join(out)

    # --- sections
    def section(self, sid, payload):
        return bytes([sid]) + self.u(len(payload)) + payload

    def custom(self, name, payload):
        return self.section(0, self.name(name) + payload)

    def module(self, m):
        k = self.k
        secs = []   # (id, bytes)

        def add(sid, items):
            if items:
                secs.append((sid, self.section(sid, self.vec(items))))
            elif k.empty_sections and k.flip(30):
                k.stats['empty_sections'] += 1
                secs.append((sid, self.section(sid, self.vec([]))))

        add(1, [b'\x60' + self.vec([bytes([VT_BYTE[p]]) for p in t[0]]) + self.vec([bytes([VT_BYTE[r]]) for r in t[1]])
                for t in m.types])
        imps = []
        for mod, name, kind, desc in m.imports:
            b = self.name(mod) + self.name(name)
            if kind == 'func':
                b += b'\x00' + self.u(desc)
            elif kind == 'table':
                b += b'\x01\x70' + self.limits(desc)
            elif kind == 'memory':
                b += b'\x02' + self.limits(desc)
            else:
                b += b'\x03' + bytes([VT_BYTE[desc[0]], 1 if desc[1] else 0])
            imps.append(b)
        add(2, imps)
        add(3, [self.u(f.type) for f in m.funcs])
        add(4, [b'\x70' + self.limits(m.table)] if m.table is not None else [])
        add(5, [self.limits(m.memory)] if m.memory is not None else [])
        add(6, [bytes([VT_BYTE[g[0]], 1 if g[1] else 0]) + self.expr([g[2]]) for g in m.globals])
        kinds = {'func': 0, 'table': 1, 'memory': 2, 'global': 3}
        add(7, [self.name(n) + bytes([kinds[kd]]) + self.u(i) for n, kd, i in m.exports])
        if m.start is not None:
            secs.append((8, self.section(8, self.u(m.start))))
        add(9, [b'\x00' + self.expr([off]) + self.vec([self.u(f) for f in fl]) for off, fl in m.elems])
        uses_dataidx = any(_uses_dataidx(f.body) for f in m.funcs)
        want_dc = m.datacount if m.datacount is not None else (uses_dataidx or (k.datacount and k.flip(50)))
        if want_dc:
            if not uses_dataidx:
                k.stats['datacount'] += 1
            secs.append((12, self.section(12, self.u(len(m.datas)))))
        bodies = []
        k.in_body = True
        for f in m.funcs:
            groups = []
            for t in f.locals:
                if groups and groups[-1][1] == t:
                    groups[-1][0] += 1
                else:
                    groups.append([1, t])
            if k.local_groups and k.flip(40):
                # spec-equivalent regrouping: runs split in two, entries of count 0 (any type) in front, between and behind
                k.stats['local_groups'] += 1
                g2 = []
                if k.flip(50):
                    g2.append([0, (I32, I64, F32, F64)[k.pick(4)]])
                for n, t in groups:
                    if n >= 2 and k.flip(50):
                        a = 1 + k.pick(n - 1)
                        g2.append([a, t])
                        if k.flip(30):
                            g2.append([0, (I32, I64, F32, F64)[k.pick(4)]])
                        g2.append([n - a, t])
                    else:
                        g2.append([n, t])
                    if k.flip(25):
                        g2.append([0, (I32, I64, F32, F64)[k.pick(4)]])
                groups = g2
            code = self.vec([self.u(n) + bytes([VT_BYTE[t]]) for n, t in groups]) + self.expr(f.body)
            bodies.append(self.u(len(code)) + code)
        k.in_body = False
        add(10, bodies)
        datas = []
        for mode, off, data in m.datas:
            if mode == 'passive':
                datas.append(b'\x01' + self.u(len(data)) + bytes(data))
            elif k.data_flag2 and k.flip(50):
                k.stats['flag2'] += 1
                datas.append(b'\x02' + self.u(0) + self.expr([off]) + self.u(len(data)) + bytes(data))
            else:
                datas.append(b'\x00' + self.expr([off]) + self.u(len(data)) + bytes(data))
        add(11, datas)
        out = [b'\x00asm\x01\x00\x00\x00']
        explicit = {}
        for pos, name, payload in m.customs:
            explicit.setdefault(pos, []).append(self.custom(name, payload))
        for i, (sid, b) in enumerate(secs):
            for c in explicit.pop(i, []):
                out.append(c)
            if k.customs and k.flip(25):
                k.stats['customs'] += 1
                n = k.pick(12)
                out.append(self.custom(bytes(k.pick(256) for _ in range(k.pick(6))) if k.flip(30) else b'vf.c%d' % n,
                                       bytes(k.pick(256) for _ in range(n))))
            out.append(b)
        for pos in sorted(explicit):
            out.extend(explicit[pos])
        if k.customs and k.flip(25):
            k.stats['customs'] += 1
            out.append(self.custom(b'vf.tail', b'\x00\x01\x02'))
        if m.func_names is not None or getattr(m, 'name_subsections', None):
            subs = list(getattr(m, 'name_subsections', None) or [])
            if m.func_names is not None:
                items = sorted(m.func_names.items()) if isinstance(m.func_names, dict) else list(m.func_names)
                subs.append((1, self.vec([self.u(i) + self.name(n) for i, n in items])))
            subs.sort(key=lambda x: x[0])
            nsec = self.custom(b'name', b''.join(bytes([sid]) + self.u(len(pl)) + pl for sid, pl in subs))
            pos = getattr(m, 'name_section_pos', None)
            if pos is None:
                out.append(nsec)
            else:
                # a name section is a custom section: it may stand anywhere (toolchains put it last; a reader must cope with any place)
                out.insert(1 + pos % len(out), nsec)
        return b''.join(out)


def _uses_dataidx(body):
    for ins in body:
        op = ins[0]
        if op in ('memory.init', 'data.drop'):
            return True
        if op in ('block', 'loop'):
            if _uses_dataidx(ins[2]):
                return True
        elif op == 'if':
            if _uses_dataidx(ins[2]) or (ins[3] is not None and _uses_dataidx(ins[3])):
                return True
    return False


def encode(m, knobs=None):
    return Encoder(knobs).module(m)


# ---------------------------------------------------------------------------------------------
# decoder
# ---------------------------------------------------------------------------------------------
class Unsupported(Exception):
    pass


class DecodeError(Exception):
    pass


class _R(object):
    def __init__(self, b, pos=0, end=None):
        self.b, self.p, self.e = b, pos, len(b) if end is None else end

    def byte(self):
        if self.p >= self.e:
            raise DecodeError('eof')
        v = self.b[self.p]
        self.p += 1
        return v

    def u(self, bits=32):
        r = s = 0
        while True:
            b = self.byte()
            r |= (b & 0x7f) << s
            s += 7
            if not b & 0x80:
                break
            if s > bits + 7:
                raise DecodeError('leb too long')
        return r

    def s(self, bits):
        r = s = 0
        while True:
            b = self.byte()
            r |= (b & 0x7f) << s
            s += 7
            if not b & 0x80:
                if b & 0x40:
                    r -= 1 << s
                break
        return r & ((1 << bits) - 1)

    def take(self, n):
        if self.p + n > self.e:
            raise DecodeError('eof')
        v = self.b[self.p:self.p + n]
        self.p += n
        return bytes(v)

    def name(self):
        return self.take(self.u())

    def vt(self):
        b = self.byte()
        if b not in BYTE_VT:
            raise Unsupported('valtype 0x%x' % b)
        return BYTE_VT[b]

    def limits(self):
        f = self.byte()
        if f > 3:
            raise Unsupported('limits flag')
        mn = self.u()
        mx = self.u() if f & 1 else None
        return (mn, mx, bool(f & 2))


def _blocktype(r):
    b = r.b[r.p]
    if b == 0x40:
        r.p += 1
        return None
    if b in BYTE_VT:
        r.p += 1
        return BYTE_VT[b]
    raise Unsupported('multi-value block type')


def _decode_seq(r, terms):
    """decode instructions until one of the terminator opcodes; returns (list, terminator)"""
    out = []
    while True:
        c = r.byte()
        if c in terms:
            return out, c
        if c in (0x02, 0x03):
            bt = _blocktype(r)
            body, _ = _decode_seq(r, (0x0b,))
            out.append(('block' if c == 2 else 'loop', bt, body))
        elif c == 0x04:
            bt = _blocktype(r)
            th, t = _decode_seq(r, (0x05, 0x0b))
            el = None
            if t == 0x05:
                el, _ = _decode_seq(r, (0x0b,))
            out.append(('if', bt, th, el))
        elif c in NUMERIC_BY_CODE:
            out.append((NUMERIC_BY_CODE[c],))
        elif c == 0x41:
            out.append(('i32.const', r.s(32)))
        elif c == 0x42:
            out.append(('i64.const', r.s(64)))
        elif c == 0x43:
            out.append(('f32.const', struct.unpack('<I', r.take(4))[0]))
        elif c == 0x44:
            out.append(('f64.const', struct.unpack('<Q', r.take(8))[0]))
        elif 0x20 <= c <= 0x24:
            out.append((('local.get', 'local.set', 'local.tee', 'global.get', 'global.set')[c - 0x20], r.u()))
        elif c in LOADS_BY_CODE:
            out.append((LOADS_BY_CODE[c], r.u(), r.u()))
        elif c in STORES_BY_CODE:
            out.append((STORES_BY_CODE[c], r.u(), r.u()))
        elif c == 0x00:
            out.append(('unreachable',))
        elif c == 0x01:
            out.append(('nop',))
        elif c == 0x0c:
            out.append(('br', r.u()))
        elif c == 0x0d:
            out.append(('br_if', r.u()))
        elif c == 0x0e:
            n = r.u()
            out.append(('br_table', [r.u() for _ in range(n)], r.u()))
        elif c == 0x0f:
            out.append(('return',))
        elif c == 0x10:
            out.append(('call', r.u()))
        elif c == 0x11:
            t = r.u()
            if r.u() != 0:
                raise Unsupported('table index')
            out.append(('call_indirect', t))
        elif c == 0x1a:
            out.append(('drop',))
        elif c == 0x1b:
            out.append(('select',))
        elif c == 0x3f:
            r.byte()
            out.append(('memory.size',))
        elif c == 0x40:
            r.byte()
            out.append(('memory.grow',))
        elif c == 0xfc:
            s = r.u()
            if s in SAT_BY_CODE:
                out.append((SAT_BY_CODE[s],))
            elif s == 8:
                d = r.u()
                r.byte()
                out.append(('memory.init', d))
            elif s == 9:
                out.append(('data.drop', r.u()))
            elif s == 10:
                r.byte(); r.byte()
                out.append(('memory.copy',))
            elif s == 11:
                r.byte()
                out.append(('memory.fill',))
            else:
                raise Unsupported('misc op %d' % s)
        elif c == 0xfe:
            s = r.u()
            if s == 3:
                r.byte()
                out.append(('atomic.fence',))
            elif s in ATOMIC_BY_CODE:
                out.append((ATOMIC_BY_CODE[s], r.u(), r.u()))
            else:
                raise Unsupported('threads op %d' % s)
        else:
            raise Unsupported('opcode 0x%x' % c)


def _const_expr(r):
    body, _ = _decode_seq(r, (0x0b,))
    if len(body) != 1:
        raise Unsupported('const expr')
    return body[0]


def decode(b):
    if b[:8] != b'\x00asm\x01\x00\x00\x00':
        raise DecodeError('magic')
    m = Module()
    r = _R(b, 8)
    functypes = []
    nsec = 0
    while r.p < r.e:
        sid = r.byte()
        size = r.u()
        sr = _R(b, r.p, r.p + size)
        r.p += size
        if r.p > r.e:
            raise DecodeError('section size')
        if sid == 0:
            name = sr.name()
            if name == b'name':
                try:
                    while sr.p < sr.e:
                        sub = sr.byte()
                        ssz = sr.u()
                        if sub == 1:
                            m.func_names = {}
                            for _ in range(sr.u()):
                                i = sr.u()
                                m.func_names[i] = sr.name()
                        else:
                            if m.name_subsections is None:
                                m.name_subsections = []
                            m.name_subsections.append((sub, bytes(sr.take(ssz))))
                except DecodeError:
                    pass
            else:
                m.customs.append((nsec, name, sr.take(sr.e - sr.p)))
            continue
        nsec += 1
        if sid == 1:
            for _ in range(sr.u()):
                if sr.byte() != 0x60:
                    raise Unsupported('type form')
                ps = tuple(sr.vt() for _ in range(sr.u()))
                rs = tuple(sr.vt() for _ in range(sr.u()))
                m.types.append((ps, rs))
        elif sid == 2:
            for _ in range(sr.u()):
                mod, name = sr.name(), sr.name()
                kd = sr.byte()
                if kd == 0:
                    m.imports.append((mod, name, 'func', sr.u()))
                elif kd == 1:
                    if sr.byte() != 0x70:
                        raise Unsupported('reftype')
                    l = sr.limits()
                    m.imports.append((mod, name, 'table', (l[0], l[1])))
                elif kd == 2:
                    m.imports.append((mod, name, 'memory', sr.limits()))
                elif kd == 3:
                    m.imports.append((mod, name, 'global', (sr.vt(), bool(sr.byte()))))
                else:
                    raise Unsupported('import kind')
        elif sid == 3:
            functypes = [sr.u() for _ in range(sr.u())]
        elif sid == 4:
            n = sr.u()
            if n > 1:
                raise Unsupported('multi-table')
            for _ in range(n):
                if sr.byte() != 0x70:
                    raise Unsupported('reftype')
                l = sr.limits()
                m.table = (l[0], l[1])
        elif sid == 5:
            n = sr.u()
            if n > 1:
                raise Unsupported('multi-memory')
            for _ in range(n):
                m.memory = sr.limits()
        elif sid == 6:
            for _ in range(sr.u()):
                t = sr.vt()
                mut = bool(sr.byte())
                m.globals.append((t, mut, _const_expr(sr)))
        elif sid == 7:
            for _ in range(sr.u()):
                n = sr.name()
                kd = sr.byte()
                m.exports.append((n, ('func', 'table', 'memory', 'global')[kd], sr.u()))
        elif sid == 8:
            m.start = sr.u()
        elif sid == 9:
            for _ in range(sr.u()):
                flag = sr.u()
                if flag != 0:
                    raise Unsupported('elem flag %d' % flag)
                off = _const_expr(sr)
                m.elems.append((off, [sr.u() for _ in range(sr.u())]))
        elif sid == 12:
            sr.u()
            m.datacount = True
        elif sid == 10:
            n = sr.u()
            if n != len(functypes):
                raise DecodeError('func/code mismatch')
            for i in range(n):
                size = sr.u()
                fr = _R(b, sr.p, sr.p + size)
                sr.p += size
                locs = []
                for _ in range(fr.u()):
                    cnt = fr.u()
                    t = fr.vt()
                    if cnt > 100000:
                        raise Unsupported('huge locals')
                    locs.extend([t] * cnt)
                body, _ = _decode_seq(fr, (0x0b,))
                if fr.p != fr.e:
                    raise DecodeError('body size')
                m.funcs.append(Func(functypes[i], locs, body))
        elif sid == 11:
            for _ in range(sr.u()):
                flag = sr.u()
                if flag == 1:
                    m.datas.append(('passive', None, sr.take(sr.u())))
                elif flag in (0, 2):
                    if flag == 2 and sr.u() != 0:
                        raise Unsupported('memidx')
                    off = _const_expr(sr)
                    m.datas.append(('active', off, sr.take(sr.u())))
                else:
                    raise Unsupported('data flag')
        else:
            raise Unsupported('section %d' % sid)
        if sr.p != sr.e:
            raise DecodeError('section %d not consumed' % sid)
    if len(m.funcs) != len(functypes):
        raise DecodeError('func/code mismatch')
    for t in m.types:
        if len(t[1]) > 1:
            raise Unsupported('multi-value')
    return m


# ---------------------------------------------------------------------------------------------
# validator (spec appendix algorithm, single result)
# ---------------------------------------------------------------------------------------------
class Invalid(Exception):
    pass


class _Ctl(object):
    __slots__ = ('label', 'end', 'height', 'unreachable')

    def __init__(self, label, end, height):
        self.label, self.end, self.height, self.unreachable = label, end, height, False


class _V(object):
    def __init__(self, m, func):
        self.m = m
        ft = m.types[func.type]
        self.locals = list(ft[0]) + list(func.locals)
        self.ret = list(ft[1])
        self.ops = []
        self.ctl = []

    def push(self, t):
        self.ops.append(t)

    def pop(self, expect=None):
        c = self.ctl[-1]
        if len(self.ops) == c.height:
            if c.unreachable:
                return expect
            raise Invalid('stack underflow')
        t = self.ops.pop()
        if expect is not None and t is not None and t != expect:
            raise Invalid('type mismatch: %s vs %s' % (t, expect))
        return t if t is not None else expect

    def push_ctl(self, label, end):
        self.ctl.append(_Ctl(label, end, len(self.ops)))

    def pop_ctl(self):
        if not self.ctl:
            raise Invalid('ctl underflow')
        c = self.ctl[-1]
        for t in reversed(c.end):
            self.pop(t)
        if len(self.ops) != c.height:
            raise Invalid('stack height at end')
        self.ctl.pop()
        return c

    def unreachable(self):
        c = self.ctl[-1]
        del self.ops[c.height:]
        c.unreachable = True

    def label(self, n):
        if n >= len(self.ctl):
            raise Invalid('label %d' % n)
        return self.ctl[-1 - n].label

    def memarg(self, ins, nbytes, atomic=False):
        if self.m.mem_desc() is None:
            raise Invalid('no memory')
        if atomic:
            if ins[1] != natural_align(nbytes):
                raise Invalid('atomic alignment')
        elif (1 << ins[1]) > nbytes:
            raise Invalid('alignment')

    def seq(self, body):
        for ins in body:
            self.ins(ins)

    def ins(self, ins):
        op = ins[0]
        m = self.m
        if op in NUMERIC or op in SAT:
            _, ps, r = NUMERIC.get(op) or SAT[op]
            for p in reversed(ps):
                self.pop(p)
            self.push(r)
        elif op.endswith('.const') and op[:3] in WIDTH:
            self.push(op[:3])
        elif op == 'local.get':
            self.push(self._local(ins[1]))
        elif op == 'local.set':
            self.pop(self._local(ins[1]))
        elif op == 'local.tee':
            t = self._local(ins[1])
            self.pop(t)
            self.push(t)
        elif op == 'global.get':
            if ins[1] >= m.n_globals():
                raise Invalid('global')
            self.push(m.global_type(ins[1])[0])
        elif op == 'global.set':
            if ins[1] >= m.n_globals():
                raise Invalid('global')
            g = m.global_type(ins[1])
            if not g[1]:
                raise Invalid('immutable')
            self.pop(g[0])
        elif op in LOADS:
            _, t, nb, _s = LOADS[op]
            self.memarg(ins, nb)
            self.pop(I32)
            self.push(t)
        elif op in STORES:
            _, t, nb = STORES[op]
            self.memarg(ins, nb)
            self.pop(t)
            self.pop(I32)
        elif op in ('block', 'loop'):
            res = [] if ins[1] is None else [ins[1]]
            self.push_ctl(res if op == 'block' else [], res)
            self.seq(ins[2])
            for t in self.pop_ctl().end:
                self.push(t)
        elif op == 'if':
            res = [] if ins[1] is None else [ins[1]]
            self.pop(I32)
            self.push_ctl(res, res)
            self.seq(ins[2])
            c = self.pop_ctl()
            if ins[3] is not None:
                self.push_ctl(res, res)
                self.seq(ins[3])
                self.pop_ctl()
            elif res:
                raise Invalid('if with result needs else')
            for t in c.end:
                self.push(t)
        elif op == 'br':
            for t in reversed(self.label(ins[1])):
                self.pop(t)
            self.unreachable()
        elif op == 'br_if':
            self.pop(I32)
            lab = self.label(ins[1])
            for t in reversed(lab):
                self.pop(t)
            for t in lab:
                self.push(t)
        elif op == 'br_table':
            self.pop(I32)
            d = self.label(ins[2])
            for l in ins[1]:
                if self.label(l) != d:
                    raise Invalid('br_table arity/type')
            for t in reversed(d):
                self.pop(t)
            self.unreachable()
        elif op == 'return':
            for t in reversed(self.ret):
                self.pop(t)
            self.unreachable()
        elif op == 'unreachable':
            self.unreachable()
        elif op == 'nop':
            pass
        elif op == 'drop':
            self.pop()
        elif op == 'select':
            self.pop(I32)
            t1 = self.pop()
            t2 = self.pop(t1)
            self.push(t2 if t2 is not None else t1)
        elif op == 'call':
            if ins[1] >= m.n_funcs():
                raise Invalid('func index')
            ps, rs = m.func_type(ins[1])
            for p in reversed(ps):
                self.pop(p)
            for r in rs:
                self.push(r)
        elif op == 'call_indirect':
            if m.table_desc() is None or ins[1] >= len(m.types):
                raise Invalid('call_indirect')
            ps, rs = m.types[ins[1]]
            self.pop(I32)
            for p in reversed(ps):
                self.pop(p)
            for r in rs:
                self.push(r)
        elif op == 'memory.size':
            self._mem()
            self.push(I32)
        elif op == 'memory.grow':
            self._mem()
            self.pop(I32)
            self.push(I32)
        elif op in ('memory.copy', 'memory.fill'):
            self._mem()
            self.pop(I32); self.pop(I32); self.pop(I32)
        elif op == 'memory.init':
            self._mem()
            if ins[1] >= len(m.datas):
                raise Invalid('data index')
            self.pop(I32); self.pop(I32); self.pop(I32)
        elif op == 'data.drop':
            if ins[1] >= len(m.datas):
                raise Invalid('data index')
        elif op == 'atomic.fence':
            pass
        elif op in ATOMIC_LOADS:
            _, t, nb = ATOMIC_LOADS[op]
            self.memarg(ins, nb, True)
            self.pop(I32)
            self.push(t)
        elif op in ATOMIC_STORES:
            _, t, nb = ATOMIC_STORES[op]
            self.memarg(ins, nb, True)
            self.pop(t)
            self.pop(I32)
        elif op in ATOMIC_RMW:
            _, t, nb, _o = ATOMIC_RMW[op]
            self.memarg(ins, nb, True)
            self.pop(t)
            self.pop(I32)
            self.push(t)
        elif op in ATOMIC_CMPXCHG:
            _, t, nb = ATOMIC_CMPXCHG[op]
            self.memarg(ins, nb, True)
            self.pop(t); self.pop(t)
            self.pop(I32)
            self.push(t)
        elif op == 'memory.atomic.notify':
            self.memarg(ins, 4, True)
            self.pop(I32); self.pop(I32)
            self.push(I32)
        elif op == 'memory.atomic.wait32':
            self.memarg(ins, 4, True)
            self.pop(I64); self.pop(I32); self.pop(I32)
            self.push(I32)
        elif op == 'memory.atomic.wait64':
            self.memarg(ins, 8, True)
            self.pop(I64); self.pop(I64); self.pop(I32)
            self.push(I32)
        else:
            raise Invalid('unknown instruction %r' % (op,))

    def _local(self, i):
        if i >= len(self.locals):
            raise Invalid('local index %d' % i)
        return self.locals[i]

    def _mem(self):
        if self.m.mem_desc() is None:
            raise Invalid('no memory')


def _check_const(m, ins, t, n_imported_globals_only=True):
    if ins[0] == t + '.const':
        return
    if ins[0] == 'global.get':
        imps = m.imported('global')
        if ins[1] < len(imps) and imps[ins[1]][3] == (t, False):
            return
    raise Invalid('constant expression %r for %s' % (ins, t))


def validate(m):
    """raise Invalid unless m is a valid module of the supported subset"""
    for ps, rs in m.types:
        if len(rs) > 1:
            raise Invalid('multi-value')
    if len(m.imported('memory')) + (m.memory is not None) > 1:
        raise Invalid('multiple memories')
    if len(m.imported('table')) + (m.table is not None) > 1:
        raise Invalid('multiple tables')
    md = m.mem_desc()
    if md is not None:
        if md[0] > 65536 or (md[1] is not None and (md[1] > 65536 or md[1] < md[0])):
            raise Invalid('memory limits')
        if len(md) > 2 and md[2] and md[1] is None:
            raise Invalid('shared memory needs max')
    td = m.table_desc()
    if td is not None and td[1] is not None and td[1] < td[0]:
        raise Invalid('table limits')
    for mod, name, kind, desc in m.imports:
        if kind == 'func' and desc >= len(m.types):
            raise Invalid('import type')
    for f in m.funcs:
        if f.type >= len(m.types):
            raise Invalid('func type')
    for g in m.globals:
        _check_const(m, g[2], g[0])
    names = set()
    for n, kd, i in m.exports:
        if n in names:
            raise Invalid('duplicate export')
        names.add(n)
        lim = {'func': m.n_funcs(), 'global': m.n_globals(), 'memory': 1 if md is not None else 0,
               'table': 1 if td is not None else 0}[kd]
        if i >= lim:
            raise Invalid('export index')
    if m.start is not None:
        if m.start >= m.n_funcs() or m.func_type(m.start) != ((), ()):
            raise Invalid('start function')
    for off, fl in m.elems:
        if td is None:
            raise Invalid('elem without table')
        _check_const(m, off, I32)
        for f in fl:
            if f >= m.n_funcs():
                raise Invalid('elem func index')
    for mode, off, data in m.datas:
        if mode == 'active':
            if md is None:
                raise Invalid('data without memory')
            _check_const(m, off, I32)
    for f in m.funcs:
        v = _V(m, f)
        v.push_ctl(v.ret, v.ret)
        v.seq(f.body)
        v.pop_ctl()
        if v.ctl:
            raise Invalid('unbalanced')


# ---------------------------------------------------------------------------------------------
# printer
# ---------------------------------------------------------------------------------------------
def fmt_body(body, ind=2):
    out = []
    pad = ' ' * ind
    for ins in body:
        op = ins[0]
        if op in ('block', 'loop'):
            out.append('%s(%s%s' % (pad, op, ' (result %s)' % ins[1] if ins[1] else ''))
            out.append(fmt_body(ins[2], ind + 2))
            out.append(pad + ')')
        elif op == 'if':
            out.append('%s(if%s (then' % (pad, ' (result %s)' % ins[1] if ins[1] else ''))
            out.append(fmt_body(ins[2], ind + 2))
            if ins[3] is not None:
                out.append(pad + ') (else')
                out.append(fmt_body(ins[3], ind + 2))
            out.append(pad + '))')
        elif op.endswith('.const'):
            out.append('%s%s 0x%x' % (pad, op, ins[1]))
        else:
            out.append(pad + ' '.join(str(x) for x in ins))
    return '\n'.join(x for x in out if x)


def fmt_module(m):
    out = ['(module']
    for i, t in enumerate(m.types):
        out.append(' (type %d (func (param %s) (result %s)))' % (i, ' '.join(t[0]), ' '.join(t[1])))
    for imp in m.imports:
        out.append(' (import %r %r %s %r)' % imp)
    if m.table is not None:
        out.append(' (table %r)' % (m.table,))
    if m.memory is not None:
        out.append(' (memory %r)' % (m.memory,))
    for i, g in enumerate(m.globals):
        out.append(' (global %s%s %r)' % ('mut ' if g[1] else '', g[0], g[2]))
    for e in m.exports:
        out.append(' (export %r %s %d)' % e)
    if m.start is not None:
        out.append(' (start %d)' % m.start)
    for off, fl in m.elems:
        out.append(' (elem %r %r)' % (off, fl))
    for mode, off, d in m.datas:
        out.append(' (data %s %r %s)' % (mode, off, bytes(d[:64]).hex() + ('...' if len(d) > 64 else '')))
    ni = m.n_imported_funcs()
    for i, f in enumerate(m.funcs):
        out.append(' (func %d (type %d) (locals %s)' % (i + ni, f.type, ' '.join(f.locals)))
        out.append(fmt_body(f.body, 3))
        out.append(' )')
    out.append(')')
    return '\n'.join(out)
