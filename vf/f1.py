"""Family F1: end-to-end semantic checks (generated module + call script, interpreter vs. compiled w2c2 output)."""
import collections
import hashlib
import re
import time

from . import wasm, interp, cexec, e2e, gen, hazard, pools
from .choice import Chooser, shrink
from .interp import OPS, ARITY
from .wasm import I32, I64, F32, F64

CC = {
    'gcc-O0': ('gcc', ['-O0']),
    'gcc-O1': ('gcc', ['-O1']),
    'gcc-O2': ('gcc', ['-O2']),
    'gcc-O3': ('gcc', ['-O3']),
    'clang-O0': ('clang', ['-O0']),
    'clang-O1': ('clang', ['-O1']),
    'clang-O2': ('clang', ['-O2']),
    'clang-O3': ('clang', ['-O3']),
    'gcc-O0-gnu89': ('gcc', ['-O0', '-std=gnu89']),
    'gcc-O2-gnu89': ('gcc', ['-O2', '-std=gnu89']),
    'clang-O2-gnu89': ('clang', ['-O2', '-std=gnu89']),
    'clang-O0-gnu89': ('clang', ['-O0', '-std=gnu89']),
    # strict ISO C90, the level the project's Makefiles select (-std=c89): no GNU keywords, <math.h> without the C99 macros
    # (NAN, INFINITY, signbit ... only when the header supplies its own); only for modules that do not use f32/f64 min / max,
    # whose helper macros need signbit
    'gcc-O0-c89': ('gcc', ['-O0', '-std=c89']),
    'gcc-O2-c89': ('gcc', ['-O2', '-std=c89']),
    'clang-O2-c89': ('clang', ['-O2', '-std=c89']),
    # ABIs whose plain char is unsigned (ARM, PowerPC, s390): -funsigned-char gives the same typedef semantics on this host
    'gcc-O1-uchar': ('gcc', ['-O1', '-funsigned-char']),
    'clang-O2-uchar': ('clang', ['-O2', '-funsigned-char']),
    'gcc-O1-nobuiltin-san': ('gcc', ['-O1', '-g', '-D__has_builtin(x)=0', '-fsanitize=undefined,address,float-cast-overflow', '-fno-sanitize-recover=all']),
    'clang-O1-nobuiltin-san': ('clang', ['-O1', '-g', '-D__has_builtin(x)=0', '-fsanitize=undefined,address', '-fno-sanitize-recover=all']),
    # targets whose ISA defines the bit-count instructions for zero (x86 LZCNT/BMI, as -march=x86-64-v3 or -march=native select):
    # headers sometimes take shortcuts for them; only scheduled when this CPU can run such code (cpu_has_lzcnt_bmi)
    'gcc-O2-lzcnt': ('gcc', ['-O2', '-mlzcnt', '-mbmi']),
    'clang-O2-lzcnt': ('clang', ['-O2', '-mlzcnt', '-mbmi']),
    'gcc-O1-nobuiltin': ('gcc', ['-O1', '-D__has_builtin(x)=0']),
    'clang-O1-nobuiltin': ('clang', ['-O1', '-D__has_builtin(x)=0']),
    'gcc-O1-be': ('gcc', ['-O1', '-DWASM_ENDIAN=1']),
    'clang-O2-be': ('clang', ['-O2', '-DWASM_ENDIAN=1']),
    'gcc-O0-be': ('gcc', ['-O0', '-DWASM_ENDIAN=1']),
    'gcc-O2-be': ('gcc', ['-O2', '-DWASM_ENDIAN=1']),
    'gcc-O3-be': ('gcc', ['-O3', '-DWASM_ENDIAN=1']),
    'clang-O3-be': ('clang', ['-O3', '-DWASM_ENDIAN=1']),
    'clang-O0-be': ('clang', ['-O0', '-DWASM_ENDIAN=1']),
    'gcc-O1-le': ('gcc', ['-O1', '-DWASM_ENDIAN=0']),
    'clang-O2-le': ('clang', ['-O2', '-DWASM_ENDIAN=0']),
    'gcc-O1-san': ('gcc', ['-O1', '-g', '-fsanitize=undefined,address,float-cast-overflow', '-fno-sanitize-recover=all']),
    'clang-O1-san': ('clang', ['-O1', '-g', '-fsanitize=undefined,address', '-fno-sanitize-recover=all']),
    'gcc-O2-san': ('gcc', ['-O2', '-g', '-fsanitize=undefined,address,float-cast-overflow', '-fno-sanitize-recover=all']),
    'clang-O0-san': ('clang', ['-O0', '-g', '-fsanitize=undefined,address', '-fno-sanitize-recover=all']),
}


def cpu_has_lzcnt_bmi():
    try:
        flags = set()
        for ln in open('/proc/cpuinfo'):
            if ln.startswith('flags'):
                flags = set(ln.split(':', 1)[1].split())
                break
        return 'abm' in flags and 'bmi1' in flags
    except OSError:
        return False


def hx(x):
    return hashlib.sha256(repr(x).encode()).hexdigest()[:16]


def toolchain_cflags(cc, cflags, model):
    """Toolchain defect (not w2c2): clang 14 constant-folds (float) of some subnormal double constants to 0x00000001 instead of 0
    (APFloat conversion of denormals; `float f(void){double d=1.4920283300477088e-315; return (float)d;}` at -O1 and above).
    Cases whose model execution demotes a subnormal f64 are therefore compiled with clang -O0 instead (counted as excluded);
    gcc cells and the flat mode (operands arrive at run time, nothing to fold) keep covering the operation at all levels."""
    if cc == 'clang' and any('f32.demote_f64:subnormal' in hz for hz in model.call_hz):
        new = ['-O0' if re.match(r'-O[123s]$', f) else f for f in cflags]
        if new != list(cflags):
            gen.EXCLUDED['clang_fold_demote_subnormal'] += 1
            return new
    return cflags


# ---------------------------------------------------------------------------------------------
# flat mode: operator x operand table
# ---------------------------------------------------------------------------------------------
def flat_operands(op, seed, nrandom, full_pairs=True):
    """deterministic boundary table (pool x pool) plus nrandom seeded random tuples"""
    _, ps, r = gen.ALLNUM[op]
    ch = Chooser(seed)
    out = []
    if len(ps) == 1:
        out = [(v,) for v in pools.POOL[ps[0]]]
    else:
        pa, pb = pools.POOL[ps[0]], pools.POOL[ps[1]]
        if full_pairs:
            out = [(a, b) for a in pa for b in pb]
        else:
            # diagonal + seeded sample of the pair table
            out = [(a, a) for a in pa] + [(ch.pick(pa), ch.pick(pb)) for _ in range(4 * len(pa))]
    _, _, oname = op.partition('.')
    if oname.startswith('convert_i'):
        # rounding decisions of int->float conversions (tie / sticky bit at every position of the leading bit)
        out += [(v,) for v in pools.convert_patterns(32 if 'i32' in oname else 64, 24 if op.startswith('f32') else 53)]
    elif oname == 'demote_f64':
        out += [(v,) for v in pools.demote_patterns()]
    for _ in range(nrandom):
        out.append(tuple(pools.draw_value(ch, p) for p in ps))
    return out


def flat_expected(op, args):
    rt = gen.ALLNUM[op][2]
    try:
        v = OPS[op](*args)
    except interp.Trap as e:
        return 'T %d' % e.kind
    return 'R ' + e2e.fmt_val(v, rt)


def flat_task(wid, seed, params):
    """params: ops (list), cc (name in CC), nrandom, full_pairs, prop"""
    ops = params['ops']
    cc, cflags = CC[params['cc']]
    res = {'evaluations': 0, 'nontrivial': set(), 'classes': collections.Counter(), 'samples': [], 'violations': [],
           'infra': [], 'extra': {}}
    m = gen.flat_module(ops)
    b = e2e.Built(m, cc=cc, cflags=cflags, ninst=1)
    try:
        if b.error:
            res['violations'].append(build_violation(m, b, params['cc'], 'flat module of %d operators' % len(ops)))
            return res
        lines = ['I 0']
        expect = ['I ok']
        meta = []
        for e, op in enumerate(ops):
            for args in flat_operands(op, seed ^ e, params.get('nrandom', 200), params.get('full_pairs', True)):
                exp = flat_expected(op, args)
                if params.get('no_traps') and exp.startswith('T'):
                    continue        # C11 speaks about non-trapping inputs only
                lines.append('C 0 %d %s' % (e, ' '.join('%x' % a for a in args)))
                expect.append(exp)
                meta.append((op, args))
        rc, actual, err = b.run(lines, timeout=1200)
        res['evaluations'] = len(meta)
        if rc != 0:
            # the process died (sanitizer report, signal): run again unbuffered to find the evaluation it died in
            rc2, actual2, err2 = b.run(lines, timeout=1200, unbuffered=True)
            if rc2 != 0:
                rc, actual, err = rc2, actual2, err2
            k = max(len(actual) - 1, 0)
            first = ''
            for ln in err.decode(errors='replace').splitlines():
                if 'runtime error' in ln or 'Sanitizer' in ln:
                    first = normalize_diag(ln.strip())
                    break
            if rc != 0 and k < len(meta):
                op, args = meta[k]
                res['violations'].append({
                    'signature': 'flat-crash:%s:%s:%s' % (op, rc, first[:80]),
                    'summary': '%s(%s): driver exited with %r instead of printing %s [%s] %s' % (
                        op, ', '.join('0x%x' % a for a in args), rc, expect[k + 1], params['cc'],
                        first or err.decode(errors='replace')[-300:]),
                    'replay': {'kind': 'flat', 'op': op, 'args': ['%x' % a for a in args], 'cc': params['cc'],
                               'expected': expect[k + 1], 'actual': 'exit %r %s' % (rc, first)}})
                meta = meta[:k]
            elif rc != 0:
                res['violations'].append({
                    'signature': 'flat-crash:%s:%s' % (params['cc'], rc),
                    'summary': 'flat driver exited with %r: %s' % (rc, err.decode(errors='replace')[-500:]),
                    'replay': {'kind': 'flat', 'ops': ops, 'op': None, 'cc': params['cc'], 'rc': str(rc)}})
        nbad = 0
        for i, (op, args) in enumerate(meta):
            exp = expect[i + 1]
            act = actual[i + 1] if i + 1 < len(actual) else '<missing>'
            hz = hazard.classify(op, *args)
            if exp.startswith('T'):
                hz = hz + ('trap',)
            if hz:
                res['nontrivial'].add(hx((op, args)))
                for c in hz:
                    res['classes'][c] += 1
            if not e2e.line_matches(exp, act):
                nbad += 1
                if nbad <= 50:
                    res['violations'].append({
                        'signature': 'flat:%s:%s->%s' % (op, exp[:1] + (exp[2:] if exp[0] == 'T' else ''),
                                                         act[:1] + (act[2:] if act[:1] == 'T' else '')),
                        'summary': '%s(%s) expected %s got %s [%s]' % (op, ', '.join('0x%x' % a for a in args), exp, act,
                                                                       params['cc']),
                        'replay': {'kind': 'flat', 'op': op, 'args': ['%x' % a for a in args], 'cc': params['cc'],
                                   'expected': exp, 'actual': act}})
        k = max(len(meta) // 3, 1)
        for i in range(0, len(meta), k):
            op, args = meta[i]
            res['samples'].append('%s(%s) -> %s [%s]' % (op, ', '.join('0x%x' % a for a in args), expect[i + 1], params['cc']))
    finally:
        b.close()
    return res


def flat_replay(rp):
    """re-execute one flat evaluation; True if it still fails"""
    if rp.get('op') is None:
        m = gen.flat_module(rp['ops'])
        cc, cflags = CC[rp['cc']]
        b = e2e.Built(m, cc=cc, cflags=cflags, ninst=1)
        try:
            if b.error:
                return True
            rc, actual, err = b.run(['I 0'])
            return rc != 0
        finally:
            b.close()
    op = rp['op']
    args = [int(a, 16) for a in rp['args']]
    m = gen.flat_module([op])
    cc, cflags = CC[rp['cc']]
    b = e2e.Built(m, cc=cc, cflags=cflags, ninst=1)
    try:
        if b.error:
            return True
        rc, actual, err = b.run(['I 0', 'C 0 0 ' + ' '.join('%x' % a for a in args)])
        exp = flat_expected(op, args)
        return rc != 0 or len(actual) < 2 or not e2e.line_matches(exp, actual[1])
    finally:
        b.close()


def build_violation(m, b, ccname, what):
    kind, text = b.error
    first = ''
    for ln in text.splitlines():
        if 'error' in ln or 'Error' in ln or 'ERROR' in ln or 'Sanitizer' in ln:
            first = ln.strip()
            break
    return {'signature': '%s-error:%s' % (kind, normalize_diag(first)),
            'summary': '%s failed for %s [%s]: %s' % (kind, what, ccname, first or text[-300:]),
            'replay': {'kind': 'case', 'module_hex': b.wasm.hex(), 'module_text': wasm.fmt_module(m)[:20000], 'script': [],
                       'cc': ccname, 'w2c2_options': list(getattr(b, 'w2c2_options', ())), 'error': text[-3000:],
                       'expect_error': kind}}


import re as _re


def normalize_diag(s):
    s = _re.sub(r'^[^:]*:\d+:\d+: ', '', s)
    s = _re.sub(r'\b(0x)?[0-9a-fA-F]{6,}\b', 'N', s)
    s = _re.sub(r'\d+', 'N', s)
    return s[:120]


# ---------------------------------------------------------------------------------------------
# case mode: generated module + script
# ---------------------------------------------------------------------------------------------
def script_to_json(script):
    return [list(op) for op in script]


def script_from_json(js):
    out = []
    for op in js:
        op = list(op)
        if op[0] == 'call':
            op[3] = [int(a) for a in op[3]]
        out.append(tuple(op))
    return out


def run_case(m, script, ccname, w2c2_options=(), wasm_bytes=None, knobs=None, ninst=2, w2c2_variant='plain', byteorder=None):
    """returns (status, info): status in ok | mismatch | translate | compile | crash | truncated-empty"""
    if byteorder is None:
        byteorder = 'big' if ccname.endswith('-be') else 'little'
    model = e2e.ModelRun(m, script, ninst=ninst, byteorder=byteorder)
    cc, cflags = CC[ccname]
    cflags = toolchain_cflags(cc, cflags, model)
    b = e2e.Built(m, wasm_bytes=wasm_bytes, cc=cc, cflags=cflags, w2c2_options=w2c2_options, knobs=knobs, ninst=ninst,
                  w2c2_variant=w2c2_variant)
    b.w2c2_options = tuple(w2c2_options)
    try:
        if b.error:
            return b.error[0], {'model': model, 'built': b, 'violation': build_violation(m, b, ccname, 'generated module')}
        rc, actual, err = b.run(model.script_lines)
        if rc != 0 and rc != 'timeout':
            # an aborting process loses its buffered output: run again unbuffered to locate the failing step
            rc2, actual2, err2 = b.run(model.script_lines, unbuffered=True)
            if rc2 != 0:
                rc, actual, err = rc2, actual2, err2
        mm = e2e.first_mismatch(model.lines, actual)
        info = {'model': model, 'actual': actual, 'rc': rc, 'stderr': err.decode(errors='replace')[-3000:], 'wasm': b.wasm}
        if rc != 0 and mm is None:
            mm = len(actual)
        if rc != 0:
            info['mismatch'] = mm
            return 'crash', info
        if mm is not None:
            info['mismatch'] = mm
            return 'mismatch', info
        return 'ok', info
    finally:
        b.close()


def describe_mismatch(model, actual, mm):
    """(step op, expected line, actual line) for the first differing output line"""
    n = 0
    for op, lines in model.steps:
        if mm < n + len(lines):
            return op, model.lines[mm], actual[mm] if mm < len(actual) else '<missing>'
        n += len(lines)
    return None, '<end>', actual[mm] if mm < len(actual) else '<missing>'


def case_signature(status, info):
    if status in ('translate', 'compile'):
        return info['violation']['signature']
    model, actual, mm = info['model'], info['actual'], info['mismatch']
    op, exp, act = describe_mismatch(model, actual, mm)
    if status == 'crash':
        err = info.get('stderr', '')
        key = ''
        for ln in err.splitlines():
            if 'runtime error' in ln or 'AddressSanitizer' in ln or 'Sanitizer' in ln:
                key = normalize_diag(ln.strip())
                break
        return 'crash:%s:%s' % (info['rc'], key)
    return 'mismatch:%s:%s->%s' % (op[0] if op else '?', exp.split(' ')[0] + ('' if exp[:1] != 'T' else exp[1:]),
                                   act.split(' ')[0] + ('' if act[:1] != 'T' else act[1:]))


def case_violation(m, script, ccname, status, info, w2c2_options=(), note=''):
    if status in ('translate', 'compile'):
        v = info['violation']
        v['replay']['script'] = script_to_json(script)
        v['replay']['w2c2_options'] = list(w2c2_options)
        return v
    model, actual, mm = info['model'], info['actual'], info['mismatch']
    op, exp, act = describe_mismatch(model, actual, mm)
    return {'signature': case_signature(status, info),
            'summary': '%s at step %r: expected %r got %r [%s %s]%s' % (status, op, exp, act, ccname,
                                                                        ' '.join(w2c2_options), note),
            'replay': {'kind': 'case', 'module_hex': info['wasm'].hex(), 'module_text': wasm.fmt_module(m)[:20000],
                       'script': script_to_json(model_script_prefix(model, mm)), 'cc': ccname,
                       'w2c2_options': list(w2c2_options), 'expected': model.lines[:mm + 1][-20:],
                       'actual': actual[:mm + 1][-20:], 'stderr': info.get('stderr', '')[-1500:], 'status': status}}


def model_script_prefix(model, mm):
    """script ops up to and including the step that produced output line mm"""
    n = 0
    out = []
    for op, lines in model.steps:
        out.append(op)
        n += len(lines)
        if mm < n:
            break
    return out


def case_replay(rp):
    """re-run a saved case from its module bytes and script; True if it still fails"""
    wb = bytes.fromhex(rp['module_hex'])
    m = wasm.decode(wb)
    script = script_from_json(rp['script'])
    st, info = run_case(m, script, rp['cc'], tuple(rp.get('w2c2_options', ())), wasm_bytes=wb,
                        w2c2_variant=rp.get('w2c2_variant', 'plain'))
    return st != 'ok'


def case_task(wid, seed, params):
    """params: maker (callable name in MAKERS), ncases, ccs (list of CC names, round-robin), nontrivial (callable name),
    w2c2_options"""
    maker = MAKERS[params['maker']]
    res = {'evaluations': 0, 'nontrivial': set(), 'classes': collections.Counter(), 'samples': [], 'violations': [],
           'infra': [], 'extra': collections.Counter()}
    ccs = params['ccs']
    for ci in range(params['ncases']):
        cseed = seed * 1000003 + ci
        ch = Chooser(cseed)
        try:
            m, script, meta = maker(ch, params)
        except Exception as e:
            import traceback
            res['infra'].append('generator crashed: %s' % traceback.format_exc()[-800:])
            continue
        try:
            wasm.validate(m)
        except wasm.Invalid as e:
            res['extra']['generator_invalid_module'] += 1
            res['infra'].append('generator produced an invalid module (%s); discarded' % e)
            continue
        ccname = ccs[(wid + ci) % len(ccs)]
        opts = tuple(meta.get('w2c2_options', params.get('w2c2_options', ())))
        # every third case is written in a non-canonical but spec-equivalent encoding (regrouped locals with empty entries, a few
        # padded LEB128 fields, flag-2 data segments, custom sections): the behaviour under test must not depend on it
        kn = None
        if ci % 3 == 2 and params.get('encoding_knobs', True):
            kn = wasm.Knobs(Chooser(cseed ^ 0x5bd1e995), pad_prob_pct=3, customs=True, data_flag2=True, local_groups=True)
            res['extra']['non_canonical_encodings'] += 1
        try:
            st, info = run_case(m, script, ccname, opts, ninst=meta.get('ninst', 2), knobs=kn)
        except cexec.InfraError as e:
            res['infra'].append(str(e))
            continue
        model = info['model']
        res['extra']['calls'] += model.stats['calls']
        res['extra']['traps'] += model.stats['traps']
        res['extra']['generator_out_of_contract'] += model.stats['ooc']
        res['extra']['indeterminate_truncations'] += model.stats['indet']
        res['evaluations'] += max(model.stats['calls'], 1)
        for k, v in meta.get('classes', {}).items():
            res['classes'][k] += v
        nt = meta.get('nontrivial_fn')
        if nt is not None:
            for key, classes in nt(m, script, model, meta):
                res['nontrivial'].add(key)
                for c in classes:
                    res['classes'][c] += 1
        if ci < 2 and len(res['samples']) < 2:
            res['samples'].append({'module': wasm.fmt_module(m)[:1500], 'script': model.script_lines[:8],
                                   'expected': model.lines[:8], 'cc': ccname})
        if st != 'ok':
            # shrink via the choice sequence
            sig = case_signature(st, info)
            log = list(ch.log)

            def still(choices, _sig=sig, _cc=ccname, _kn=kn is not None):
                c2 = Chooser(replay=choices)
                m2, s2, meta2 = maker(c2, params)
                wasm.validate(m2)
                kn2 = wasm.Knobs(Chooser(cseed ^ 0x5bd1e995), pad_prob_pct=3, customs=True, data_flag2=True, local_groups=True) if _kn else None
                st2, info2 = run_case(m2, s2, _cc, tuple(meta2.get('w2c2_options', params.get('w2c2_options', ()))),
                                      ninst=meta2.get('ninst', 2), knobs=kn2)
                return st2 != 'ok' and case_signature(st2, info2) == _sig
            best = log
            try:
                if 'timeout' in sig:
                    raise RuntimeError('no shrinking for hang-guard hits (each evaluation costs the full guard time)')
                best, used = shrink(log, still, budget=params.get('shrink_budget', 30))
            except Exception:
                pass
            c2 = Chooser(replay=best)
            m2, s2, meta2 = maker(c2, params)
            opts2 = tuple(meta2.get('w2c2_options', params.get('w2c2_options', ())))
            kn2 = wasm.Knobs(Chooser(cseed ^ 0x5bd1e995), pad_prob_pct=3, customs=True, data_flag2=True, local_groups=True) if kn is not None else None
            st2, info2 = run_case(m2, s2, ccname, opts2, ninst=meta2.get('ninst', 2), knobs=kn2)
            if st2 == 'ok':
                m2, s2, st2, info2, opts2 = m, script, st, info, opts
            if meta2.get('independent'):
                iso = isolate(m2, s2, info2, ccname, opts2, sig)
                if iso is not None:
                    m2, s2, st2, info2 = iso
            try:
                if 'timeout' in sig:
                    raise RuntimeError('no reduction for hang-guard hits')
                red = structural_reduce(m2, s2, st2, info2, ccname, opts2, sig, meta2.get('ninst', 2),
                                        params.get('reduce_budget', 100))
                if red is not None:
                    m2, s2, st2, info2 = red
            except Exception:
                pass
            res['violations'].append(case_violation(m2, s2, ccname, st2, info2, opts2))
            if len(res['violations']) >= params.get('max_violations', 1):
                break
    res['extra'] = dict(res['extra'])
    res['excluded'] = gen.EXCLUDED['snan_immediate']
    gen.EXCLUDED['snan_immediate'] = 0
    res['extra']['toolchain_excluded_clang_fold_demote_subnormal'] = gen.EXCLUDED['clang_fold_demote_subnormal']
    gen.EXCLUDED['clang_fold_demote_subnormal'] = 0
    return res


def isolate(m, script, info, ccname, opts, sig):
    """for modules of independent exported functions: keep only the failing function and the failing call"""
    try:
        model, actual, mm = info['model'], info['actual'], info['mismatch']
        op, exp, act = describe_mismatch(model, actual, mm)
        if not op or op[0] != 'call':
            return None
        fex = [(n, i) for n, kd, i in m.exports if kd == 'func']
        fidx = fex[op[2]][1]
        nimp = m.n_imported_funcs()
        if nimp or fidx < nimp:
            return None
        m2 = wasm.Module()
        f = m.funcs[fidx]
        ft = m.types[f.type]
        m2.funcs.append(wasm.Func(m2.type_index(ft[0], ft[1]), f.locals, f.body))
        m2.exports.append((b'e0', 'func', 0))
        m2.memory, m2.table, m2.globals, m2.datas = m.memory, None, list(m.globals), list(m.datas)
        for n, kd, i in m.exports:
            if kd == 'memory':
                m2.exports.append((n, kd, i))
        wasm.validate(m2)
        s2 = [('inst', op[1]), ('call', op[1], 0, list(op[3]))]
        st2, info2 = run_case(m2, s2, ccname, opts, ninst=op[1] + 1)
        if st2 != 'ok' and case_signature(st2, info2) == sig:
            return m2, s2, st2, info2
    except Exception:
        return None
    return None


def structural_reduce(m, script, st, info, ccname, opts, sig, ninst, budget):
    from . import reduce as _reduce
    # 1. cut the script down to the set-up steps plus the failing call
    if st in ('mismatch', 'crash'):
        model, actual, mm = info['model'], info['actual'], info['mismatch']
        op, exp, act = describe_mismatch(model, actual, mm)
        if op is not None and op[0] == 'call':
            s2 = [o for o in model_script_prefix(model, mm) if o[0] != 'call'] + [op]
            st2, info2 = run_case(m, s2, ccname, opts, ninst=ninst)
            if st2 != 'ok' and case_signature(st2, info2) == sig:
                script, st, info = s2, st2, info2

    def still(cand):
        st3, info3 = run_case(cand, script, ccname, opts, ninst=ninst)
        return st3 != 'ok' and case_signature(st3, info3) == sig
    best, used = _reduce.reduce_module(m, still, budget=budget)
    st4, info4 = run_case(best, script, ccname, opts, ninst=ninst)
    if st4 != 'ok' and case_signature(st4, info4) == sig:
        return best, script, st4, info4
    return None


MAKERS = {}


def maker(name):
    def deco(fn):
        MAKERS[name] = fn
        return fn
    return deco


def hazards_nontrivial(m, script, model, meta):
    """non-trivial = a call whose execution hit at least one hazard class (or trapped); distinct by (body, args)"""
    out = []
    ci = 0
    fex = [(n, i) for n, kd, i in m.exports if kd == 'func']
    nimp = m.n_imported_funcs()
    for op, lines in model.steps:
        if op[0] != 'call':
            continue
        hz = model.call_hz[ci] if ci < len(model.call_hz) else frozenset()
        ci += 1
        classes = set(h.split(':', 1)[1] for h in hz)
        if lines and lines[-1].startswith('T'):
            classes.add('trap')
        if classes:
            fidx = fex[op[2]][1]
            body = m.funcs[fidx - nimp].body if fidx >= nimp else None
            out.append((hx((repr(body), tuple(op[3]))), classes))
    return out


def standard_run(ID, LEVEL, RULE, ASSUME, jobs, task, replay, tier, seed, extra_cov=None):
    """corpus replay tier, pool run, known findings, evidence, exit code"""
    from . import runner
    t0 = time.time()
    res = runner.Result()
    res.merge(runner.corpus_violations(ID, replay))
    for d in runner.run_pool(task, seed, jobs):
        res.merge(d)
    return runner.finish(ID, tier, seed, LEVEL, res, RULE, ASSUME, t0, replay,
                         known_probe_fn=runner.probe_with(replay), extra_cov=extra_cov)
