"""Calibration of wasmkit + refinterp against the official spec-suite expectations in /repo/tests/gen/*.json."""
import glob
import json
import os

from . import wasm, interp
from .wasm import I32, I64, F32, F64

GEN = '/repo/tests/gen'


def spectest_imports(trace):
    names = [(b'print', ((), ())), (b'print_i32', ((I32,), ())), (b'print_i64', ((I64,), ())),
             (b'print_f32', ((F32,), ())), (b'print_f64', ((F64,), ())), (b'print_i32_f32', ((I32, F32), ())),
             (b'print_f64_f64', ((F64, F64), ()))]
    imp = {}
    for i, (n, ft) in enumerate(names):
        imp[(b'spectest', n)] = interp.HostFunc(i, ft, trace, n)
    imp[(b'spectest', b'global_i32')] = interp.GlobalCell(I32, False, 666)
    imp[(b'spectest', b'global_i64')] = interp.GlobalCell(I64, False, 666)
    imp[(b'spectest', b'global_f32')] = interp.GlobalCell(F32, False, interp.bits_of32(666.6))
    imp[(b'spectest', b'global_f64')] = interp.GlobalCell(F64, False, interp.f64_bits(666.6))
    imp[(b'spectest', b'table')] = interp.Table(10, 20)
    imp[(b'spectest', b'memory')] = interp.Memory(1, 2)
    imp[(b'spectest', b'shared_memory')] = interp.Memory(1, 2, True)
    return imp


def parse_val(v):
    s = v.get('value')
    if s is None:
        return None
    if s.startswith('nan:'):
        return s
    return int(s)


def supported_import_set(m, imp):
    for mod, name, kind, desc in m.imports:
        if (mod, name) not in imp:
            return False
        o = imp[(mod, name)]
        if kind == 'func' and not (isinstance(o, interp.HostFunc) and o.ftype == m.types[desc]):
            return False
    return True


def run_file(path, stats, failures, only_modules=None):
    d = json.load(open(path))
    inst = None
    trace = []
    for cmd in d['commands']:
        t = cmd['type']
        if t == 'module':
            inst = None
            fn = os.path.join(GEN, cmd['filename'])
            try:
                m = wasm.decode(open(fn, 'rb').read())
            except wasm.Unsupported:
                stats['module_unsupported'] += 1
                continue
            try:
                wasm.validate(m)
            except wasm.Invalid as e:
                # the validator may be stricter than the spec (sound for generation); known case: br_table in dead code
                if cmd['filename'] == 'unreached-valid.1.wasm':
                    stats['validator_stricter'] += 1
                else:
                    failures.append('%s: valid module rejected by validator: %s' % (cmd['filename'], e))
                continue
            imp = spectest_imports(trace)
            if not supported_import_set(m, imp):
                stats['module_unsupported'] += 1
                continue
            try:
                inst = interp.Instance(m, imp)
                stats['module_ok'] += 1
            except (interp.OutOfContract, interp.Trap):
                stats['module_uninstantiable'] += 1
        elif t in ('assert_invalid',):
            fn = os.path.join(GEN, cmd['filename'])
            if not fn.endswith('.wasm') or not os.path.exists(fn):
                continue
            try:
                m = wasm.decode(open(fn, 'rb').read())
            except (wasm.Unsupported, wasm.DecodeError):
                stats['invalid_undecodable'] += 1
                continue
            try:
                wasm.validate(m)
                # data.drop / memory.init without datacount etc. are "invalid" for reasons outside the subset checks
                if any(k in cmd.get('text', '') for k in ('data count', 'unknown data segment', 'unknown table',
                                                          'unknown elem', 'unknown memory 1', 'multiple memories')):
                    stats['invalid_other_reason'] += 1
                else:
                    failures.append('%s: invalid module accepted by validator (%s)' % (cmd['filename'], cmd.get('text')))
            except wasm.Invalid:
                stats['invalid_rejected'] += 1
        elif t in ('assert_return', 'assert_trap', 'action', 'assert_exhaustion'):
            act = cmd.get('action')
            if inst is None or act is None or act.get('module'):
                stats['assert_skipped'] += 1
                continue
            if act['type'] != 'invoke':
                stats['assert_skipped'] += 1
                continue
            if t == 'assert_exhaustion':
                stats['assert_skipped'] += 1
                continue
            args = [parse_val(a) for a in act['args']]
            try:
                fidx = inst.export_index(act['field'].encode('utf-8', 'surrogateescape'))
            except KeyError:
                failures.append('%s line %d: export %r missing' % (path, cmd['line'], act['field']))
                continue
            inst.fuel = 5000000
            try:
                res = inst.invoke(fidx, args)
                outcome = ('ok', res)
            except interp.Trap as e:
                outcome = ('trap', e.kind)
            except interp.OutOfContract as e:
                outcome = ('ooc', str(e))
            except interp.Indeterminate as e:
                outcome = ('indet', str(e))
            if outcome[0] == 'ooc':
                stats['assert_out_of_contract'] += 1
                # state may be inconsistent w.r.t. spec (trap point) but spec traps do not mutate more than we did
                if t == 'assert_return' and outcome[1] not in ('call depth', 'fuel'):
                    failures.append('%s line %d: out of contract on assert_return: %s' % (path, cmd['line'], outcome[1]))
                continue
            if outcome[0] == 'indet':
                stats['assert_indeterminate'] += 1
                continue
            if t == 'assert_trap':
                text = cmd.get('text', '')
                want = {'integer divide by zero': interp.TRAP_DIV0, 'integer overflow': interp.TRAP_OVERFLOW,
                        'invalid conversion to integer': interp.TRAP_CONV, 'unreachable': interp.TRAP_UNREACHABLE}.get(text)
                if want is None:
                    failures.append('%s line %d: expected trap %r but got %r' % (path, cmd['line'], text, outcome))
                elif outcome != ('trap', want):
                    failures.append('%s line %d: expected trap %r got %r' % (path, cmd['line'], text, outcome))
                else:
                    stats['assert_trap_ok'] += 1
            elif t == 'assert_return':
                exp = cmd['expected']
                if outcome[0] != 'ok':
                    failures.append('%s line %d: expected return got %r' % (path, cmd['line'], outcome))
                    continue
                ok = len(exp) == len(outcome[1])
                if ok:
                    for e, r in zip(exp, outcome[1]):
                        ev = parse_val(e)
                        if isinstance(ev, str):
                            isn = interp.isnan32(r) if e['type'] == 'f32' else interp.isnan64(r)
                            if not isn:
                                ok = False
                            elif not isinstance(r, interp.NDNaN):
                                # deterministic NaN: check class
                                q = (r >> 22) & 1 if e['type'] == 'f32' else (r >> 51) & 1
                                if not q:
                                    ok = False
                                if ev == 'nan:canonical' and (r & (0x3fffff if e['type'] == 'f32' else 0x7ffffffffffff)):
                                    ok = False
                        elif isinstance(r, interp.NDNaN) or r != ev:
                            ok = False
                if ok:
                    stats['assert_return_ok'] += 1
                else:
                    failures.append('%s line %d: %s%r expected %r got %r' % (
                        path, cmd['line'], act['field'], args, [parse_val(e) for e in exp], outcome[1]))
            else:
                stats['action'] += 1
        else:
            stats['other_' + t] += 1


def calibrate(subset=None, verbose=False):
    from collections import Counter
    stats = Counter()
    failures = []
    files = sorted(glob.glob(os.path.join(GEN, '*.json')))
    if subset:
        files = [f for f in files if os.path.basename(f)[:-5] in subset]
    for f in files:
        before = len(failures)
        run_file(f, stats, failures)
        if verbose:
            print(os.path.basename(f), len(failures) - before)
    return stats, failures


if __name__ == '__main__':
    import sys
    st, fl = calibrate(sys.argv[1:] or None, verbose=True)
    print(dict(st))
    for f in fl[:60]:
        print(f)
    print(len(fl), 'failures')
