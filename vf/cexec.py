"""cexec (E3): build w2c2 variants from /repo's working tree, translate modules, generate + compile + run the C driver."""
import atexit
import fcntl
import hashlib
import os
import re
import shutil
import subprocess
import sys
import tempfile

from . import wasm
from .wasm import I32, I64, F32, F64

REPO = os.environ.get('VERIF_REPO', '/repo')
VERIF = os.path.dirname(os.path.dirname(os.path.abspath(__file__)))
CACHE = os.path.join(VERIF, '.cache')

def _project_feature_defs():
    """the feature macros the project's own build defines on a POSIX host (w2c2/CMakeLists.txt: HAS_X=1 for every feature its
    configure checks find; libdwarf is not installed here) - read from the tree under test, so that a change which renames or
    adds a feature macro together with its build files is built the way the project builds it"""
    fallback = ['-DHAS_PTHREAD=1', '-DHAS_UNISTD=1', '-DHAS_GETOPT=1', '-DHAS_LIBGEN=1', '-DHAS_STRDUP=1', '-DHAS_GLOB=1']
    try:
        import re as _re
        txt = open(os.path.join(REPO, 'w2c2', 'CMakeLists.txt')).read()
        names = []
        for mt in _re.finditer(r'target_compile_definitions\(\$\{TARGET\}\s+PUBLIC\s+(HAS_[A-Z0-9_]+)=1\)', txt):
            if 'DWARF' not in mt.group(1) and mt.group(1) not in names:
                names.append(mt.group(1))
        if 'HAS_PTHREAD' not in names or len(names) < 4:
            return fallback
        return ['-D%s=1' % n for n in names]
    except OSError:
        return fallback


W2C2_DEFS = _project_feature_defs()


def _without(feature):
    return [d for d in W2C2_DEFS if d != '-D%s=1' % feature]

# The project's own build files compile everything as C90 (CMAKE_C_STANDARD 90 -> -std=gnu90; the Makefile uses -std=c89), so the
# variants do the same: code that depends on the language level (macros such as FLT_DECIMAL_DIG, inline, ...) takes the branch
# a user's build takes.  The sanitizer variants keep the compiler's default (gnu17), which covers the other branch.
STD = '-std=gnu90'
VARIANTS = {
    # name: (compiler, cflags, defs override or None, ldflags)
    'plain': ('gcc', ['-O1', '-g0', '-w', STD], None, ['-lpthread', '-lm']),
    'asan': ('clang', ['-O1', '-g', '-w', '-fsanitize=address,undefined', '-fno-sanitize-recover=all',
                       '-fno-omit-frame-pointer'], None, ['-lpthread', '-lm']),
    'msan': ('clang', ['-O1', '-g', '-w', '-fsanitize=memory', '-fno-omit-frame-pointer'], None, ['-lpthread', '-lm']),
    'nopthread': ('gcc', ['-O1', '-g0', '-w', STD],
                  _without('HAS_PTHREAD'), ['-lm']),
    'nogetopt': ('gcc', ['-O1', '-g0', '-w', STD],
                 _without('HAS_GETOPT'),
                 ['-lpthread', '-lm']),
    'nolibgen': ('gcc', ['-O1', '-g0', '-w', STD],
                 _without('HAS_LIBGEN'),
                 ['-lpthread', '-lm']),
    'nostrdup': ('gcc', ['-O1', '-g0', '-w', STD],
                 _without('HAS_STRDUP'),
                 ['-lpthread', '-lm']),
    'bigendian': ('gcc', ['-O1', '-g0', '-w', STD, '-DWASM_ENDIAN=1'], None, ['-lpthread', '-lm']),
    'vsched': ('gcc', ['-O1', '-g0', '-w', STD], None, ['-lpthread', '-lm']),
    # the translator under ThreadSanitizer: data races between the producer and the worker threads (shared buffers, statics)
    'tsan': ('clang', ['-O1', '-g', '-w', '-fsanitize=thread'], None, ['-lpthread', '-lm']),
}

ASAN_ENV = {'ASAN_OPTIONS': 'detect_leaks=0:exitcode=99:abort_on_error=0:allocator_may_return_null=1:'
                            'max_malloc_fill_size=1073741824:malloc_fill_byte=165',
            # dirty heap for plain builds, so that missing zero-initialisation is visible
            'MALLOC_PERTURB_': '165', 'MALLOC_MMAP_THRESHOLD_': '33554432',
            'UBSAN_OPTIONS': 'print_stacktrace=1:halt_on_error=1:exitcode=98',
            'MSAN_OPTIONS': 'exitcode=97', 'TSAN_OPTIONS': 'exitcode=96:report_thread_leaks=0'}


def san_head(err, limit=1200):
    """the informative part of a sanitizer report: the ERROR / WARNING / runtime-error line and the first frames, not the shadow dump"""
    if isinstance(err, bytes):
        err = err.decode(errors='replace')
    lines = err.splitlines()
    for i, l in enumerate(lines):
        if 'ERROR: AddressSanitizer' in l or 'runtime error' in l or 'WARNING: ThreadSanitizer' in l or 'MemorySanitizer' in l or 'LeakSanitizer' in l:
            keep = [l.strip()]
            for m in lines[i + 1:i + 40]:
                ms = m.strip()
                if ms.startswith('#') or ms.startswith('WRITE') or ms.startswith('READ') or 'is located' in ms or ms.startswith('SUMMARY') or ms.startswith('Previous') or ms.startswith('freed by') or ms.startswith('previously allocated'):
                    keep.append(ms)
                if len(keep) >= 14:
                    break
            return '\n'.join(keep)[:limit]
    return err[-limit:]


class InfraError(Exception):
    """a failure of the checking infrastructure (never a VIOLATION)"""


def w2c2_sources():
    d = os.path.join(REPO, 'w2c2')
    cs = sorted(f for f in os.listdir(d) if f.endswith('.c') and not f.endswith('_test.c') and f != 'test.c')
    hs = sorted(f for f in os.listdir(d) if f.endswith('.h'))
    return d, cs, hs


_hash_memo = {}


def tree_hash(subdirs=('w2c2', 'futex', 'wasi')):
    key = tuple(subdirs)
    if key in _hash_memo:
        return _hash_memo[key]
    h = hashlib.sha256()
    for sd in subdirs:
        d = os.path.join(REPO, sd)
        for f in sorted(os.listdir(d)):
            p = os.path.join(d, f)
            if os.path.isfile(p) and (f.endswith('.c') or f.endswith('.h')):
                h.update(f.encode() + b'\0')
                h.update(open(p, 'rb').read())
                h.update(b'\0')
    _hash_memo[key] = h.hexdigest()[:20]
    return _hash_memo[key]


def cache_dir():
    d = os.path.join(CACHE, tree_hash())
    os.makedirs(d, exist_ok=True)
    return d


def prune_cache(keep=2):
    """keep the cache small: remove all but the `keep` most recently used hash directories"""
    try:
        ds = [os.path.join(CACHE, x) for x in os.listdir(CACHE)]
    except OSError:
        return
    ds = [d for d in ds if os.path.isdir(d) and os.path.basename(d) != 'locale']
    ds.sort(key=lambda d: os.path.getmtime(d), reverse=True)
    cur = cache_dir()
    for d in ds[keep:]:
        if d != cur:
            shutil.rmtree(d, ignore_errors=True)


class _Lock(object):
    def __init__(self, path):
        self.path = path

    def __enter__(self):
        self.f = open(self.path, 'w')
        fcntl.flock(self.f, fcntl.LOCK_EX)

    def __exit__(self, *a):
        fcntl.flock(self.f, fcntl.LOCK_UN)
        self.f.close()


def run(cmd, **kw):
    return subprocess.run(cmd, stdout=subprocess.PIPE, stderr=subprocess.PIPE, **kw)


VSCHED_WRAP = ['pthread_mutex_init', 'pthread_mutex_destroy', 'pthread_mutex_lock', 'pthread_mutex_unlock', 'pthread_cond_init',
               'pthread_cond_destroy', 'pthread_cond_wait', 'pthread_cond_timedwait', 'pthread_cond_signal',
               'pthread_cond_broadcast', 'pthread_create', 'pthread_join']


def covdir():
    d = os.environ.get('VERIF_COVDIR')
    if d:
        os.makedirs(d, exist_ok=True)
    return d


def w2c2_binary(variant='plain', extra_link=None, extra_name=''):
    """build (or reuse) the w2c2 executable of the given variant from /repo's current working tree"""
    if variant == 'vsched' and extra_link is None:
        # the translator with its worker pool under the deterministic scheduler (no source change: linker interposition)
        vs = os.path.join(VERIF, 'c', 'vsched.c')
        tag = hashlib.sha256(open(vs, 'rb').read()).hexdigest()[:8]
        return w2c2_binary('vsched', extra_link=['-I', os.path.join(VERIF, 'c'), vs, '-Wl,' + ','.join('--wrap=' + w for w in VSCHED_WRAP)],
                           extra_name='-' + tag)
    cd = cache_dir()
    cov = covdir()
    if cov:
        # measurement mode (tools/coverage.sh): every translator variant is a gcc --coverage build whose objects (and therefore
        # the .gcda counters) stay in VERIF_COVDIR; never used by a registered check
        cd = cov
        extra_name += '-cov'
    extra_name += '-' + hashlib.sha256(repr((VARIANTS[variant], W2C2_DEFS)).encode()).hexdigest()[:6]
    out = os.path.join(cd, 'w2c2-' + variant + extra_name)
    if os.path.exists(out):
        os.utime(cd)
        return out
    with _Lock(os.path.join(cd, '.lock-' + variant + extra_name)):
        if os.path.exists(out):
            return out
        cc, cflags, defs, ld = VARIANTS[variant]
        d, cs, _ = w2c2_sources()
        if cov:
            cc, cflags, ld = 'gcc', ['-O0', '-g0', '-w', STD, '--coverage'] + [f for f in cflags if f.startswith('-D')], ld + ['--coverage']
            tmp = os.path.join(cd, 'obj-' + variant + extra_name)
            os.makedirs(tmp, exist_ok=True)
        else:
            tmp = tempfile.mkdtemp(prefix='build-', dir=cd)
        try:
            procs = []
            for c in cs:
                o = os.path.join(tmp, c[:-2] + '.o')
                procs.append((c, o, subprocess.Popen([cc] + cflags + (defs if defs is not None else W2C2_DEFS) +
                                                     ['-c', os.path.join(d, c), '-o', o],
                                                     stdout=subprocess.PIPE, stderr=subprocess.PIPE)))
            objs = []
            for c, o, p in procs:
                so, se = p.communicate()
                if p.returncode != 0:
                    raise InfraError('building w2c2 (%s) failed on %s:\n%s' % (variant, c, se.decode(errors='replace')[-3000:]))
                objs.append(o)
            r = run([cc] + [f for f in cflags if f.startswith('-fsanitize') or f.startswith('-fno-sanitize')] + objs +
                    (extra_link or []) + ld + ['-o', out + '.tmp'])
            if r.returncode != 0:
                raise InfraError('linking w2c2 (%s) failed:\n%s' % (variant, r.stderr.decode(errors='replace')[-3000:]))
            os.rename(out + '.tmp', out)
        finally:
            if not cov:
                shutil.rmtree(tmp, ignore_errors=True)
    return out


# ---------------------------------------------------------------------------------------------
# scratch space
# ---------------------------------------------------------------------------------------------
_scratch_root = None


def scratch_root():
    global _scratch_root
    if _scratch_root is None or not os.path.isdir(_scratch_root):
        base = '/dev/shm' if os.path.isdir('/dev/shm') and os.access('/dev/shm', os.W_OK) else tempfile.gettempdir()
        _scratch_root = tempfile.mkdtemp(prefix='vf-%d-' % os.getpid(), dir=base)
        atexit.register(shutil.rmtree, _scratch_root, True)
    return _scratch_root


def new_dir(prefix='c'):
    return tempfile.mkdtemp(prefix=prefix, dir=scratch_root())


def rm(d):
    shutil.rmtree(d, ignore_errors=True)


# ---------------------------------------------------------------------------------------------
# translate
# ---------------------------------------------------------------------------------------------
class TranslateResult(object):
    def __init__(self, rc, out, err, files, workdir):
        self.rc, self.out, self.err, self.files, self.dir = rc, out, err, files, workdir


_locale = {}


def comma_locale():
    """LOCPATH of a minimal glibc locale 'xx_XX' whose decimal point is a comma (as in de_DE, fr_FR, ru_RU, ...), built once with
    localedef from a hand-written ASCII charmap and locale source (no locale data is installed in the sandbox); None if it cannot
    be built.  The user's locale is part of the environment a translator runs in; what it writes must not depend on it."""
    if 'dir' in _locale:
        return _locale['dir']
    d = os.path.join(CACHE, 'locale')
    ok = os.path.join(d, 'xx_XX', 'LC_NUMERIC')
    if not os.path.exists(ok):
        os.makedirs(d, exist_ok=True)
        with _Lock(os.path.join(d, '.lock')):
            if not os.path.exists(ok):
                cm = ['<code_set_name> ANSI_X3.4-1968', '<comment_char> %', '<escape_char> /', '<mb_cur_min> 1', '<mb_cur_max> 1', 'CHARMAP']
                cm += ['<U%04X> /x%02x CH%02X' % (c, c, c) for c in range(128)] + ['END CHARMAP', '']
                open(os.path.join(d, 'ascii.cm'), 'w').write('\n'.join(cm))
                cats = ['LC_IDENTIFICATION', 'LC_CTYPE', 'LC_COLLATE', 'LC_TIME', 'LC_NUMERIC', 'LC_MONETARY', 'LC_MESSAGES', 'LC_PAPER',
                        'LC_NAME', 'LC_ADDRESS', 'LC_TELEPHONE', 'LC_MEASUREMENT']
                src = ['comment_char %', 'escape_char /', '', 'LC_IDENTIFICATION', 'title "decimal comma test locale"'] + \
                    ['%s ""' % k for k in ('source', 'address', 'contact', 'email', 'tel', 'fax', 'language', 'territory')] + \
                    ['revision "1.0"', 'date "2026-01-01"'] + ['category "i18n:2012";%s' % c for c in cats] + \
                    ['END LC_IDENTIFICATION', '', 'LC_NUMERIC', 'decimal_point ","', 'thousands_sep "."', 'grouping 3;3', 'END LC_NUMERIC', '']
                open(os.path.join(d, 'comma.src'), 'w').write('\n'.join(src))
                try:
                    run(['localedef', '--no-archive', '-c', '-i', os.path.join(d, 'comma.src'), '-f', os.path.join(d, 'ascii.cm'),
                         os.path.join(d, 'xx_XX')])
                except OSError:
                    pass
    _locale['dir'] = d if os.path.exists(ok) else None
    return _locale['dir']


def translate(wasm_bytes, workdir, name='m', options=(), variant='plain', timeout=120, env=None):
    """run w2c2 on the module; returns TranslateResult (rc < 0 : signal)"""
    exe = w2c2_binary(variant)
    wpath = os.path.join(workdir, name + '.wasm')
    with open(wpath, 'wb') as f:
        f.write(wasm_bytes)
    e = dict(os.environ)
    e.update(ASAN_ENV)
    # a quarter of all translations (chosen by the module bytes, so that a case replays identically) run under a decimal-comma
    # locale: the generated C must not depend on the environment of the translator
    if hashlib.sha256(wasm_bytes).digest()[0] % 4 == 0:
        loc = comma_locale()
        if loc:
            e.update({'LOCPATH': loc, 'LC_ALL': 'xx_XX', 'LANG': 'xx_XX'})
    if env:
        e.update(env)
    try:
        r = run([exe] + list(options) + [name + '.wasm', name + '.c'], cwd=workdir, timeout=timeout, env=e)
    except subprocess.TimeoutExpired:
        return TranslateResult('timeout', b'', b'', [], workdir)
    files = sorted(os.listdir(workdir))
    return TranslateResult(r.returncode, r.stdout, r.stderr, files, workdir)


# ---------------------------------------------------------------------------------------------
# driver generation
# ---------------------------------------------------------------------------------------------
CT = {I32: 'U32', I64: 'U64', F32: 'F32', F64: 'F64'}
_SAFE = re.compile(rb'^[A-WYZa-z0-9]([A-WYZa-z0-9]|_(?!_))*$')


def mangle(name, start=False):
    """w2c2's documented identifier escaping for names made of bytes < 0x80 (returns str); start=True: the name begins an
    identifier (import module names), so a leading digit is escaped too"""
    out = []
    prev = None
    for i, c in enumerate(name):
        ch = chr(c)
        if start and i == 0 and ch.isdigit():
            out.append('X%02X' % c)
        elif ch == '_':
            out.append('__' if prev == '_' else '_')
        elif ch != 'X' and ch.isalnum() and c < 0x80:
            out.append(ch)
        else:
            assert c < 0x80
            out.append('X%02X' % c)
        prev = ch
    return ''.join(out)


def module_c_name(filename):
    base = os.path.basename(filename)
    base = base.rsplit('.', 1)[0] if '.' in base else base
    return ''.join(ch for ch in base if ch.isalnum())


DRIVER_PRELUDE = r'''
#include <stdio.h>
#include <stdlib.h>
#include <string.h>
#include <setjmp.h>
#include <sys/resource.h>
#include "%(header)s"

static jmp_buf vf_jb;
static volatile int vf_trapcode;
void trap(Trap t) { vf_trapcode = (int)t; longjmp(vf_jb, 1); }

static U32 vf_crc_table[256];
static void vf_crc_init(void) { U32 i, j, c; for (i = 0; i < 256; i++) { c = i; for (j = 0; j < 8; j++) c = (c & 1) ? (0xEDB88320U ^ (c >> 1)) : (c >> 1); vf_crc_table[i] = c; } }
static U32 vf_crc(const U8* p, size_t n) { U32 c = 0xFFFFFFFFU; size_t i; for (i = 0; i < n; i++) c = vf_crc_table[(c ^ p[i]) & 0xFF] ^ (c >> 8); return c ^ 0xFFFFFFFFU; }

static U32 vf_b32(F32 x) { U32 r; memcpy(&r, &x, 4); return r; }
static U64 vf_b64(F64 x) { U64 r; memcpy(&r, &x, 8); return r; }
static F32 vf_f32(U32 x) { F32 r; memcpy(&r, &x, 4); return r; }
static F64 vf_f64(U64 x) { F64 r; memcpy(&r, &x, 8); return r; }

#define VF_NINST %(ninst)d
#define VF_NOBJ 16
static %(inst_t)s vf_inst[VF_NINST];
static int vf_live[VF_NINST];
static wasmMemory* vf_mems[VF_NOBJ];
static wasmTable vf_tabs[VF_NOBJ];
static U64 vf_globs[VF_NOBJ];
static int vf_bind[VF_NINST][%(nimp)d + 1];
static int vf_cur;
static %(inst_t)s* vf_children[64];
static int vf_nchildren;
static int vf_creating_child;

static int vf_tag(void* p) {
    int k;
    for (k = 0; k < VF_NINST; k++) if (p == (void*)&vf_inst[k]) return k;
    for (k = 0; k < vf_nchildren; k++) if (p == (void*)vf_children[k]) return 100 + k;
    /* a host call made by the start function of a child that is still being created (its pointer is not known yet) */
    if (vf_creating_child) return 100 + vf_nchildren;
    return -1;
}

static U32 vf_hostres(U32 index, const U64* a, int n) {
    U32 h = index * 7919U + 12345U; int i;
    for (i = 0; i < n; i++) { h += (U32)(a[i] & 0xFFFFFFFFU) * (U32)(i + 3); h += (U32)(a[i] >> 32) * (U32)(i + 11); }
    return h;
}
'''


def header_import_names(header_text, nimports):
    """C names of imported functions, in import order, as declared in the generated header"""
    names = re.findall(r'^\s*\w+ (\w+)\(void\*[,)]', header_text, re.M)
    return names[:nimports] if len(names) >= nimports else None


def header_export_names(header_text, modname):
    return re.findall(r'^\s*\w+ (\w+)\(%sInstance\* ?i[,)]' % re.escape(modname), header_text, re.M)


def gen_driver(m, modname, header_text, ninst=2, header_name=None, prefix_funcs=False):
    """C source of the driver for module m (wasm.Module) translated under C module name `modname`"""
    fimps = m.imported('func')
    inames = header_import_names(header_text, len(fimps))
    if inames is None:
        # fewer declarations than imported functions: define the host functions under the documented names (<module>__<name>,
        # escaped) so that what the generated code then does with them decides, not the shape of the header
        if all(max(imp[0] + imp[1] + b'\0') < 0x80 for imp in fimps):
            want = ['%s__%s' % (mangle(imp[0], True), mangle(imp[1])) for imp in fimps]
            have = re.findall(r'^\s*\w+ (\w+)\(void\*[,)]', header_text, re.M)
            if len(set(want)) == len(want) and all(n in want for n in have):
                inames = want
    if inames is None:
        raise InfraError('cannot find import declarations in generated header')
    out = [DRIVER_PRELUDE % {'header': header_name or (modname + '.h'), 'ninst': ninst, 'inst_t': modname + 'Instance',
                             'nimp': len(m.imports)}]
    # host functions
    for idx, (imp, cname) in enumerate(zip(fimps, inames)):
        ps, rs = m.types[imp[3]]
        params = ''.join(',%s a%d' % (CT[p], i) for i, p in enumerate(ps))
        out.append('%s %s(void* ip%s) {' % (CT[rs[0]] if rs else 'void', cname, params))
        out.append('  U64 a[%d]; U32 h;' % (len(ps) + 1))
        for i, p in enumerate(ps):
            conv = {I32: '(U64)a%d', I64: 'a%d', F32: '(U64)vf_b32(a%d)', F64: 'vf_b64(a%d)'}[p] % i
            out.append('  a[%d] = %s;' % (i, conv))
        out.append('  printf("H %d %%d", vf_tag(ip));' % idx)
        for i, p in enumerate(ps):
            out.append('  printf(" %%0%dllx", (unsigned long long)a[%d]);' % (8 if p in (I32, F32) else 16, i))
        out.append('  printf("\\n");')
        out.append('  h = vf_hostres(%dU, a, %d); (void)h;' % (idx, len(ps)))
        if rs:
            r = rs[0]
            if r == I32:
                out.append('  return h;')
            elif r == I64:
                out.append('  return ((U64)h << 32) | (U64)(h ^ 0x5a5a5a5aU);')
            elif r == F32:
                out.append('  return (F32)(h & 0xffffU);')
            else:
                out.append('  return (F64)h;')
        out.append('}')
    # resolver
    out.append('static void* vf_resolve(const char* module, const char* name) {')
    k = 0
    for gi, (mod, name, kind, desc) in enumerate(m.imports):
        if kind == 'func':
            continue
        cmod = c_string(mod)
        cname = c_string(name)
        obj = {'memory': '(void*)vf_mems[vf_bind[vf_cur][%d]]', 'table': '(void*)&vf_tabs[vf_bind[vf_cur][%d]]',
               'global': '(void*)&vf_globs[vf_bind[vf_cur][%d]]'}[kind] % gi
        out.append('  if (strlen(module) == %d && memcmp(module, %s, %d) == 0 && strlen(name) == %d && memcmp(name, %s, %d) == 0) return %s;'
                   % (len(mod), cmod, len(mod), len(name), cname, len(name), obj))
    out.append('  printf("E unresolved %s %s\\n", module, name); return NULL;')
    out.append('}')
    # export call dispatch
    fexports = [(n, i) for n, kd, i in m.exports if kd == 'func']
    hnames = header_export_names(header_text, modname)
    out.append('static void vf_call(int k, int e, char* args) {')
    out.append('  %sInstance* ip = k >= 100 ? vf_children[k - 100] : &vf_inst[k]; U64 a[64]; int n = 0; char* tok;' % modname)
    out.append('  for (tok = strtok(args, " \\n"); tok && n < 64; tok = strtok(NULL, " \\n")) a[n++] = strtoull(tok, NULL, 16);')
    out.append('  vf_trapcode = -1;')
    out.append('  if (setjmp(vf_jb)) { printf("T %d\\n", vf_trapcode); return; }')
    out.append('  switch (e) {')
    for e, (name, fidx) in enumerate(fexports):
        ps, rs = m.func_type(fidx)
        if _SAFE.match(name):
            sym = '%s_%s' % (modname, name.decode())     # the documented '<module>_<name>' symbol
        else:
            sym = None                                   # exotic name: looked up by its original string in FuncExports
        args = ''.join(',' + {I32: '(U32)a[%d]', I64: 'a[%d]', F32: 'vf_f32((U32)a[%d])', F64: 'vf_f64(a[%d])'}[p] % i
                       for i, p in enumerate(ps))
        if sym is None:
            # look the function up by its original name in the FuncExports table
            proto = '%s (*)(%sInstance*%s)' % (CT[rs[0]] if rs else 'void', modname, ''.join(',' + CT[p] for p in ps))
            call = '((%s)vf_lookup(ip, %s, %d))(ip%s)' % (proto, c_string(name), len(name), args)
        else:
            call = '%s(ip%s)' % (sym, args)
        if not rs:
            out.append('  case %d: %s; printf("R void\\n"); break;' % (e, call))
        else:
            r = rs[0]
            fmt = {I32: ('%08x', '(unsigned)%s'), I64: ('%016llx', '(unsigned long long)%s'),
                   F32: ('%08x', '(unsigned)vf_b32(%s)'), F64: ('%016llx', '(unsigned long long)vf_b64(%s)')}[r]
            out.append('  case %d: { %s r = %s; printf("R %s\\n", %s); break; }' % (e, CT[r], call, fmt[0], fmt[1] % 'r'))
    out.append('  default: printf("E bad export\\n");')
    out.append('  }')
    out.append('}')
    out.insert(1, '''static wasmFunc vf_lookup(void* ip, const char* name, int len) {
  wasmFuncExport* e = ((wasmModuleInstance*)ip)->funcExports;
  for (; e->name != NULL; e++) if ((int)strlen(e->name) == len && memcmp(e->name, name, (size_t)len) == 0) return e->func;
  printf("E export not found\\n"); exit(3);
}''')
    # memory accessor
    memexp = [n for n, kd, i in m.exports if kd == 'memory']
    mimp = [gi for gi, imp in enumerate(m.imports) if imp[2] == 'memory']
    if memexp and _SAFE.match(memexp[0]):
        out.append('static wasmMemory* vf_mem(int k) { return %s_%s(k >= 100 ? vf_children[k-100] : &vf_inst[k]); }'
                   % (modname, memexp[0].decode()))
    elif mimp:
        out.append('static wasmMemory* vf_mem(int k) { return vf_mems[vf_bind[k >= 100 ? 0 : k][%d]]; }' % mimp[0])
    elif m.memory is not None:
        out.append('static wasmMemory* vf_mem(int k) { return (k >= 100 ? vf_children[k-100] : &vf_inst[k])->m0; }')
    else:
        out.append('static wasmMemory* vf_mem(int k) { (void)k; return NULL; }')
    # defined globals
    nig = len(m.imported('global'))
    out.append('static void vf_global(int k, int g) {')
    out.append('  %sInstance* ip = k >= 100 ? vf_children[k-100] : &vf_inst[k]; (void)ip;' % modname)
    out.append('  switch (g) {')
    for gi in range(m.n_globals()):
        vt = m.global_type(gi)[0]
        if gi < nig:
            imp = m.imported('global')[gi]
            try:
                expr = '(*ip->%s__%s)' % (mangle(imp[0], True), mangle(imp[1]))
            except AssertionError:
                continue
        else:
            expr = 'ip->g%d' % gi
        fmt = {I32: ('%08x', '(unsigned)%s'), I64: ('%016llx', '(unsigned long long)%s'),
               F32: ('%08x', '(unsigned)vf_b32(%s)'), F64: ('%016llx', '(unsigned long long)vf_b64(%s)')}[vt]
        out.append('  case %d: printf("g %s\\n", %s); break;' % (gi, fmt[0], fmt[1] % expr))
    out.append('  default: printf("E bad global\\n");')
    out.append('  }')
    out.append('}')
    # table slot identity
    timp = [imp for imp in m.imports if imp[2] == 'table']
    if timp or m.table is not None:
        if timp:
            try:
                texpr = '(*ip->%s__%s)' % (mangle(timp[0][0], True), mangle(timp[0][1]))
            except AssertionError:
                texpr = None
        else:
            texpr = 'ip->t0'
    else:
        texpr = None
    out.append('static void vf_slot(int k, U32 s) {')
    out.append('  %sInstance* ip = k >= 100 ? vf_children[k-100] : &vf_inst[k]; (void)ip; (void)s;' % modname)
    if texpr:
        out.append('  { wasmFunc f = %s.data[s];' % texpr)
        out.append('  if (f == NULL) { printf("t null\\n"); return; }')
        for i, cname in enumerate(inames):
            # names of imported functions are taken from the header (already prefixed under -m)
            out.append('  if (f == (wasmFunc)&%s) { printf("t %d\\n"); return; }' % (cname, i))
        for i in range(len(m.funcs)):
            out.append('  if (f == (wasmFunc)&%sf%d) { printf("t %d\\n"); return; }' % (
                (modname + '_') if prefix_funcs else '', i + len(fimps), i + len(fimps)))
        out.append('  printf("t ?\\n"); }')
    else:
        out.append('  printf("E no table\\n");')
    out.append('}')
    out.append(DRIVER_MAIN % {'mod': modname, 'inst_t': modname + 'Instance',
                              'shared_alloc': 'shared ? WASM_MEMORY_ALLOCATE_SHARED((U32)mn, (U32)mx) : ' if
                              (m.mem_desc() is not None and len(m.mem_desc()) > 2 and m.mem_desc()[2]) else ''})
    return '\n'.join(out)


DRIVER_MAIN = r'''
int main(void) {
    static char line[1 << 16];
    vf_crc_init();
    if (getenv("VF_UNBUF")) setvbuf(stdout, NULL, _IONBF, 0); else setvbuf(stdout, NULL, _IOFBF, 1 << 16);
    while (fgets(line, sizeof line, stdin)) {
        char c = line[0];
        if (c == 'X') break;
        if (c == 'N') {
            char kind[8]; int k; long long mn, mx; int shared = 0;
            sscanf(line + 2, "%%7s %%d %%lld %%lld %%d", kind, &k, &mn, &mx, &shared);
            if (kind[0] == 'm') { if (mx < 0) mx = 65535; vf_mems[k] = %(shared_alloc)swasmMemoryAllocate((U32)mn, (U32)mx, false); }
            else if (kind[0] == 't') { if (mx < 0) mx = 0xFFFFFFFFLL; wasmTableAllocate(&vf_tabs[k], (U32)mn, (U32)mx); }
            else { vf_globs[k] = 0; { unsigned long long v = strtoull(line + 2 + strlen(kind) + 1 + 2, NULL, 16); (void)v; } }
            printf("N ok\n");
        } else if (c == 'S') {
            int k; unsigned long long v; int w;
            sscanf(line + 2, "%%d %%d %%llx", &k, &w, &v);
            if (w == 4) { U32 x = (U32)v; memcpy(&vf_globs[k], &x, 4); } else { U64 x = (U64)v; memcpy(&vf_globs[k], &x, 8); }
            printf("S ok\n");
        } else if (c == 'G') {
            int k; U64 x;
            sscanf(line + 2, "%%d", &k);
            memcpy(&x, &vf_globs[k], 8);
            printf("G %%016llx\n", (unsigned long long)x);
        } else if (c == 'B') {
            int k, imp, obj;
            sscanf(line + 2, "%%d %%d %%d", &k, &imp, &obj);
            vf_bind[k][imp] = obj;
            printf("B ok\n");
        } else if (c == 'I') {
            int k = atoi(line + 2);
            vf_cur = k;
            vf_trapcode = -1;
            if (setjmp(vf_jb)) { printf("T %%d\n", vf_trapcode); }
            else { %(mod)sInstantiate(&vf_inst[k], vf_resolve); vf_live[k] = 1; printf("I ok\n"); }
        } else if (c == 'K') {
            /* new child instance of instance k (thread-style sharing) */
            int k = atoi(line + 2);
            vf_cur = k;
            vf_trapcode = -1;
            if (setjmp(vf_jb)) { vf_creating_child = 0; printf("T %%d\n", vf_trapcode); }
            else {
                vf_creating_child = 1;
                vf_children[vf_nchildren] = (%(inst_t)s*)vf_inst[k].common.newChild((wasmModuleInstance*)&vf_inst[k]);
                vf_creating_child = 0;
                printf("K %%d\n", 100 + vf_nchildren);
                vf_nchildren++;
            }
        } else if (c == 'f') {
            /* release a child instance: the embedder frees what the child owns and the instance itself */
            int k = atoi(line + 2);
            %(mod)sFreeInstance(vf_children[k - 100]);
            free(vf_children[k - 100]);
            vf_children[k - 100] = NULL;
            printf("f ok\n");
        } else if (c == 'C') {
            int k, e, off = 0;
            sscanf(line + 2, "%%d %%d%%n", &k, &e, &off);
            vf_call(k, e, line + 2 + off);
        } else if (c == 'M') {
            int k = atoi(line + 2);
            wasmMemory* mem = vf_mem(k);
            printf("M %%u %%08x\n", mem->pages, vf_crc(mem->data, (size_t)mem->pages * 65536u));
        } else if (c == 'D') {
            int k; unsigned long off, len, i;
            wasmMemory* mem;
            sscanf(line + 2, "%%d %%lu %%lu", &k, &off, &len);
            mem = vf_mem(k);
            printf("D ");
            for (i = 0; i < len; i++) printf("%%02x", mem->data[off + i]);
            printf("\n");
        } else if (c == 'g') {
            int k, g;
            sscanf(line + 2, "%%d %%d", &k, &g);
            vf_global(k, g);
        } else if (c == 't') {
            int k; unsigned s;
            sscanf(line + 2, "%%d %%u", &k, &s);
            vf_slot(k, s);
        } else if (c == 'L') {
            /* address-space limit: what the process has mapped now plus <pages> wasm pages (a host with little memory) */
            unsigned long pages = strtoul(line + 2, NULL, 10), cur = 0; FILE* sf = fopen("/proc/self/statm", "r");
            struct rlimit rl;
            if (sf) { if (fscanf(sf, "%%lu", &cur) != 1) cur = 0; fclose(sf); }
            rl.rlim_cur = rl.rlim_max = (rlim_t)cur * 4096u + (rlim_t)pages * 65536u;
            setrlimit(RLIMIT_AS, &rl);
            printf("L ok\n");
        } else if (c == 'F') {
            int k = atoi(line + 2);
            %(mod)sFreeInstance(&vf_inst[k]);
            vf_live[k] = 0;
            printf("F ok\n");
        } else if (c == '#') {
            printf("%%s", line);
        }
    }
    fflush(stdout);
    return 0;
}
'''


def c_string(b):
    return '"' + ''.join('\\%03o' % c for c in b) + '"'


# ---------------------------------------------------------------------------------------------
# compile + run
# ---------------------------------------------------------------------------------------------
FUTEX_SRCS = ['futex.c', 'list.c', 'map.c']


def needs_threads(m):
    md = m.mem_desc()
    return md is not None and len(md) > 2 and bool(md[2])


def compile_driver(workdir, c_files, cc='gcc', cflags=('-O0',), threads=False, exe='drv', extra=(), timeout=600):
    cflags = list(cflags)
    if '-std=c89' in cflags and threads:
        # the pthread flavour of the runtime header needs POSIX declarations (clock_gettime) that strict ISO mode hides: modules
        # with shared memories are built in the GNU dialect of the same language level
        cflags[cflags.index('-std=c89')] = '-std=gnu89'
    if '-std=c89' in cflags and 'driver.c' in c_files:
        # strict ISO C90 applies to the GENERATED code; the framework's driver (strtoull, long long formats) is compiled on its
        # own in the default dialect and linked against it
        relaxed = [f for f in cflags if f != '-std=c89']
        try:
            r0 = run([cc] + relaxed + ['-w', '-I', os.path.join(REPO, 'w2c2'), '-c', 'driver.c', '-o', 'driver.vo'], cwd=workdir, timeout=timeout)
        except subprocess.TimeoutExpired:
            raise InfraError('C compiler timed out on the driver')
        if r0.returncode != 0:
            return r0
        c_files = [f for f in c_files if f != 'driver.c'] + ['driver.vo']
    cmd = [cc] + cflags + ['-w', '-I', os.path.join(REPO, 'w2c2')]
    if threads:
        cmd += ['-DWASM_THREADS_PTHREADS', '-I', os.path.join(REPO, 'futex')]
    cmd += list(c_files)
    if threads:
        cmd += [os.path.join(REPO, 'futex', f) for f in FUTEX_SRCS]
    cmd += list(extra) + ['-o', exe, '-lm'] + (['-lpthread'] if threads else [])
    try:
        r = run(cmd, cwd=workdir, timeout=timeout)
    except subprocess.TimeoutExpired:
        raise InfraError('C compiler timed out: %s' % ' '.join(cmd))
    return r


def run_driver(workdir, script_lines, exe='drv', timeout=120, env=None):
    e = dict(os.environ)
    e.update(ASAN_ENV)
    if env:
        e.update(env)
    data = ('\n'.join(script_lines) + '\nX\n').encode()
    try:
        r = subprocess.run([os.path.join(workdir, exe)], input=data, stdout=subprocess.PIPE, stderr=subprocess.PIPE,
                           cwd=workdir, timeout=timeout, env=e)
    except subprocess.TimeoutExpired:
        return 'timeout', [], b''
    return r.returncode, r.stdout.decode(errors='replace').splitlines(), r.stderr


def build_unit(src_name, out_name, cmd_prefix, extra_args=(), libs=()):
    """compile a framework C/C++ unit (from /verif/c) against /repo's current tree into the per-tree cache"""
    cd = cache_dir()
    src = os.path.join(VERIF, 'c', src_name)
    h = hashlib.sha256(open(src, 'rb').read() + repr((cmd_prefix, extra_args, libs)).encode()).hexdigest()[:10]
    cov = covdir()
    cwd = None
    if cov:
        # measurement mode: gcov counters of the unit (wasi.c, futex/*.c) land in VERIF_COVDIR/unit-<name>
        cd = cov
        cwd = os.path.join(cov, 'unit-%s-%s' % (out_name, h))
        os.makedirs(cwd, exist_ok=True)
        cmd_prefix = list(cmd_prefix) + ['--coverage']
    out = os.path.join(cd, '%s-%s' % (out_name, h))
    if os.path.exists(out):
        return out
    with _Lock(os.path.join(cd, '.lock-' + out_name)):
        if os.path.exists(out):
            return out
        r = run(list(cmd_prefix) + ['-I', os.path.join(REPO, 'w2c2'), '-I', os.path.join(REPO, 'futex'),
                                    '-I', os.path.join(REPO, 'wasi'), src] + list(extra_args) + ['-o', out + '.tmp'] + list(libs), cwd=cwd)
        if r.returncode != 0:
            raise InfraError('building %s failed:\n%s' % (src_name, r.stderr.decode(errors='replace')[-3000:]))
        os.rename(out + '.tmp', out)
    return out
