"""Hypothesis stateful drivers for the WASI family: seeded runs in worker processes, history capture, replay files."""
from . import cexec
import collections
import traceback

import hypothesis
from hypothesis import HealthCheck, settings, seed as hyp_seed
from hypothesis.stateful import run_state_machine_as_test

from . import f1
from .wasi import Violation, AgentDied

LAST = {'history': None, 'flags': (), 'npreopen': 1}
STATS = {'histories': 0, 'steps': 0, 'nontrivial': set(), 'classes': collections.Counter(), 'samples': []}


def note_history(ex, nontrivial_flags):
    """called from machine teardown"""
    LAST['history'] = list(ex.history)
    LAST['flags'] = sorted(ex.flags)
    STATS['histories'] += 1
    STATS['steps'] += len(ex.history)
    for f in ex.flags:
        STATS['classes'][f] += 1
    if set(ex.flags) & set(nontrivial_flags):
        STATS['nontrivial'].add(f1.hx(repr(ex.history)))
    if len(STATS['samples']) < 2 and len(ex.history) >= 4:
        STATS['samples'].append({'history': [str(h)[:160] for h in ex.history[:10]], 'flags': sorted(ex.flags)})


def run_machine(machine_cls, seed, max_examples, steps):
    """returns result dict (evaluations = histories executed)"""
    STATS['histories'] = 0
    STATS['steps'] = 0
    STATS['nontrivial'] = set()
    STATS['classes'] = collections.Counter()
    STATS['samples'] = []
    LAST['history'] = None
    res = {'evaluations': 0, 'nontrivial': set(), 'classes': collections.Counter(), 'samples': [], 'violations': [],
           'infra': [], 'extra': {}}
    st = settings(max_examples=max_examples, stateful_step_count=steps, database=None, deadline=None,
                  suppress_health_check=list(HealthCheck), report_multiple_bugs=False, print_blob=False, derandomize=False)
    hyp_seed(seed % (1 << 62))(machine_cls)
    try:
        run_state_machine_as_test(machine_cls, settings=st)
    except (Violation, AgentDied) as e:
        sig = e.sig if isinstance(e, Violation) else 'agent-died:' + f1.normalize_diag(
            ([l for l in e.stderr.splitlines() if 'ERROR' in l or 'runtime error' in l] or [''])[0])
        msg = str(e) if isinstance(e, Violation) else '%s\n%s' % (e, cexec.san_head(e.stderr, 1200))
        res['violations'].append({'signature': sig, 'summary': msg[:900],
                                  'replay': {'kind': 'wasi-history', 'machine': machine_cls.__name__,
                                             'history': LAST['history'], 'npreopen': LAST.get('npreopen', 1), 'message': msg[:3000]}})
    except hypothesis.errors.HypothesisException as e:
        res['infra'].append('hypothesis: %s' % e)
    except Exception:
        res['infra'].append('state machine crashed (harness bug?):\n' + traceback.format_exc()[-1500:])
    res['evaluations'] = STATS['histories']
    res['nontrivial'] = set(STATS['nontrivial'])
    res['classes'] = collections.Counter(STATS['classes'])
    res['samples'] = list(STATS['samples'])
    res['extra'] = {'wasi_calls': STATS['steps']}
    return res
