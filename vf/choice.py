"""Choice sequences: every random decision of a generator is one recorded integer, so a failing case is a list of
ints that can be replayed and shrunk (delete / zero / reduce) exactly like Hypothesis' internal representation."""
import random


class Chooser(object):
    def __init__(self, seed=None, replay=None):
        self.rng = random.Random(seed) if replay is None else None
        self.replay = replay
        self.pos = 0
        self.log = []

    def below(self, n):
        if n <= 1:
            return 0
        if self.replay is not None:
            v = self.replay[self.pos] % n if self.pos < len(self.replay) else 0
            self.pos += 1
        else:
            v = self.rng.randrange(n)
        self.log.append(v)
        return v

    def bits(self, nbits):
        return self.below(1 << nbits)

    def flip(self, pct=50):
        # choice 0 must be the "simple" outcome (False) for shrinking
        return self.below(100) >= 100 - pct

    def pick(self, seq):
        return seq[self.below(len(seq))]

    def weighted(self, items):
        """items: [(weight, value)]; the first item is the simplest"""
        tot = sum(w for w, _ in items)
        r = self.below(tot)
        for w, v in items:
            if r < w:
                return v
            r -= w
        return items[-1][1]

    def rng_int(self, lo, hi):
        return lo + self.below(hi - lo + 1)


def shrink(choices, still_fails, budget=150):
    """greedy reduction of a choice list; still_fails(list)->bool; returns the smallest failing list found"""
    best = list(choices)
    used = [0]

    def attempt(c):
        if used[0] >= budget:
            return False
        used[0] += 1
        try:
            return bool(still_fails(c))
        except Exception:
            return False

    # trailing zeros are implicit
    improved = True
    while improved and used[0] < budget:
        improved = False
        n = len(best)
        for size in (max(n // 2, 1), max(n // 4, 1), 16, 8, 4, 2, 1):
            i = 0
            while i < len(best) and used[0] < budget:
                if i + size > len(best):
                    break
                c = best[:i] + best[i + size:]
                if attempt(c):
                    best = c
                    improved = True
                else:
                    i += size
        for i in range(len(best)):
            if used[0] >= budget:
                break
            if best[i] == 0:
                continue
            c = list(best)
            c[i] = 0
            if attempt(c):
                best = c
                improved = True
                continue
            c[i] = best[i] // 2
            if c[i] != best[i] and attempt(c):
                best = c
                improved = True
    while best and best[-1] == 0:
        best.pop()
    return best, used[0]
