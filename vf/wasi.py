"""WASI family (F3): agent process client, errno table, guest-memory helpers shared by C12-C15."""
import errno
import os
import select
import struct
import subprocess

from . import cexec

WASI_DEFS = ['-DHAS_UNISTD=1', '-DHAS_SYSUIO=1', '-DHAS_SYSTIME=1', '-DHAS_SYSRESOURCE=1', '-DHAS_STRNDUP=1', '-DHAS_FCNTL=1',
             '-DHAS_LSTAT=1', '-DHAS_GETENTROPY=1', '-DHAS_TIMESPEC=1', '-DWASM_THREADS_PTHREADS']
AGENT_CMD = ['clang', '-std=gnu90', '-O1', '-g', '-w', '-fsanitize=address,undefined', '-fno-sanitize-recover=all', '-fno-omit-frame-pointer']

# WASI errno numbers (wasi_snapshot_preview1 witx) by POSIX name
E = {'SUCCESS': 0, '2BIG': 1, 'ACCES': 2, 'AGAIN': 6, 'BADF': 8, 'BUSY': 10, 'CHILD': 12, 'DOM': 18, 'EXIST': 20, 'FAULT': 21,
     'FBIG': 22, 'ILSEQ': 25, 'INTR': 27, 'INVAL': 28, 'IO': 29, 'ISDIR': 31, 'LOOP': 32, 'MFILE': 33, 'MLINK': 34,
     'NAMETOOLONG': 37, 'NFILE': 41, 'NODEV': 43, 'NOENT': 44, 'NOEXEC': 45, 'NOMEM': 48, 'NOSPC': 51, 'NOSYS': 52, 'NOTDIR': 54,
     'NOTEMPTY': 55, 'NOTSUP': 58, 'NOTTY': 59, 'NXIO': 60, 'OVERFLOW': 61, 'PERM': 63, 'PIPE': 64, 'RANGE': 68, 'ROFS': 69,
     'SPIPE': 70, 'SRCH': 71, 'TXTBSY': 74, 'XDEV': 75}
HOST_TO_WASI = {getattr(errno, 'E' + k): v for k, v in E.items() if hasattr(errno, 'E' + k)}
WASI_NAME = {v: k for k, v in E.items()}


def wasi_errno_of(oserror):
    return HOST_TO_WASI.get(oserror.errno, E['INVAL'])


def ename(n):
    return WASI_NAME.get(n, str(n))


HANG_S = 60


class AgentDied(Exception):
    def __init__(self, msg, stderr=''):
        Exception.__init__(self, msg)
        self.stderr = stderr


# 'fallback': the portability branches of wasi.c that a host without <sys/uio.h> / strndup takes (its own readv / writev loops over
# read / write, its own strndup) - same observable behaviour required
FALLBACK_DEFS = [d for d in WASI_DEFS if not d.startswith('-DHAS_SYSUIO') and not d.startswith('-DHAS_STRNDUP')] + \
    ['-DHAS_SYSUIO=0', '-DHAS_STRNDUP=0']


# 'be': the same agent with the runtime's big-endian paths forced (-DWASM_ENDIAN=1, C19): every structured value wasi.c moves between
# host and guest memory goes through the swapping accessors, so on this little-endian host the guest memory holds the big-endian image of
# every 16/32/64-bit field (the mirror argument of C19) while byte buffers (file data, names) are untouched.  The executor packs and
# unpacks guest structures with Agent.E as byte order; FORCE_VARIANT makes every agent of the process such an agent (set by C19's jobs).
FORCE_VARIANT = None


def agent_binary(variant='default'):
    if variant == 'be':
        return cexec.build_unit('wasiagent.c', 'wasiagent-be', AGENT_CMD + WASI_DEFS + ['-DWASM_ENDIAN=1'],
                                extra_args=[os.path.join(cexec.REPO, 'wasi', 'wasi.c'), os.path.join(cexec.REPO, 'futex', 'futex.c'),
                                            os.path.join(cexec.REPO, 'futex', 'list.c'), os.path.join(cexec.REPO, 'futex', 'map.c')],
                                libs=['-lpthread', '-lm'])
    if variant == 'fallback':
        return cexec.build_unit('wasiagent.c', 'wasiagent-fallback', AGENT_CMD + FALLBACK_DEFS,
                                extra_args=[os.path.join(cexec.REPO, 'wasi', 'wasi.c'), os.path.join(cexec.REPO, 'futex', 'futex.c'),
                                            os.path.join(cexec.REPO, 'futex', 'list.c'), os.path.join(cexec.REPO, 'futex', 'map.c')],
                                libs=['-lpthread', '-lm'])
    return cexec.build_unit('wasiagent.c', 'wasiagent', AGENT_CMD + WASI_DEFS,
                            extra_args=[os.path.join(cexec.REPO, 'wasi', 'wasi.c'), os.path.join(cexec.REPO, 'futex', 'futex.c'),
                                        os.path.join(cexec.REPO, 'futex', 'list.c'), os.path.join(cexec.REPO, 'futex', 'map.c')],
                            libs=['-lpthread', '-lm'])


class Agent(object):
    """one wasiagent process; stdin/stdout/stderr of the process are the given files (the 'standard streams' under test)"""

    def __init__(self, workdir, stdin_path=None, stdout_path=None, stderr_path=None, pages=64, cwd=None, variant='default'):
        variant = FORCE_VARIANT or variant
        exe = agent_binary(variant)
        self.variant = variant
        self.E = '>' if variant == 'be' else '<'      # byte order of structured fields in guest memory
        self.workdir = workdir
        c_r, p_w = os.pipe()       # parent -> child
        p_r, c_w = os.pipe()       # child -> parent
        self.stderr_path = stderr_path or os.path.join(workdir, 'agent.stderr')
        si = open(stdin_path, 'rb') if stdin_path else open(os.devnull, 'rb')
        so = open(stdout_path, 'ab') if stdout_path else open(os.devnull, 'wb')
        se = open(self.stderr_path, 'ab')
        env = dict(os.environ)
        env.update(cexec.ASAN_ENV)
        self.p = subprocess.Popen([exe, str(c_r), str(c_w), str(pages)], stdin=si, stdout=so, stderr=se, pass_fds=(c_r, c_w),
                                  env=env, cwd=cwd or workdir)
        for f in (si, so, se):
            f.close()
        os.close(c_r)
        os.close(c_w)
        self.w = os.fdopen(p_w, 'wb', buffering=0)
        self.r = os.fdopen(p_r, 'rb')
        self.pages = pages
        self.edge_mode = 0       # 0 = off; k > 0: deterministic choice of the relocated object per call (see _call_edge)
        self.edge_calls = 0
        self.edge_moved = 0

    def _send(self, line):
        try:
            self.w.write(line.encode() + b'\n')
            # hang guard: a call that does not come back within HANG_S seconds (typical: well under a millisecond) is a call that
            # blocks where the POSIX operation returns; the agent is killed and the step reported
            # (one answer line per command, so nothing is left in the reader's buffer when a command is sent)
            if not select.select([self.r], [], [], HANG_S)[0]:
                self.p.kill()
                self.p.wait()
                raise AgentDied('agent did not answer within %d s (blocked) during %r' % (HANG_S, line[:120]), 'hang')
            resp = self.r.readline()
        except (BrokenPipeError, OSError):
            resp = b''
        if not resp:
            self.p.wait()
            try:
                err = open(self.stderr_path, errors='replace').read()[-4000:]
            except OSError:
                err = ''
            raise AgentDied('agent exited with status %r during %r' % (self.p.returncode, line[:120]), err)
        return resp.decode().strip()

    def init(self, args, envs, trim=0):
        """trim > 0: wasiInit gets argc = len(args) - trim while the array goes on with the remaining strings"""
        def vec(v):
            return '%d %s' % (len(v), ' '.join((x.hex() or '-') for x in v)) if v else '0'
        return self._send('init %s %s %d' % (vec(args), vec(envs), trim))

    def preopen(self, path):
        r = self._send('preopen ' + path).split()
        return int(r[1]) == 1, int(r[2])

    def poke(self, addr, data):
        if data:
            self._send('poke %d %s' % (addr, bytes(data).hex()))

    def fill(self, addr, length, value=0xCD):
        self._send('fill %d %d %d' % (addr, length, value))

    def peek(self, addr, length):
        r = self._send('peek %d %d' % (addr, length))
        return bytes.fromhex(r[4:])

    def peek_u32(self, addr):
        return struct.unpack(self.E + 'I', self.peek(addr, 4))[0]

    def peek_u64(self, addr):
        return struct.unpack(self.E + 'Q', self.peek(addr, 8))[0]

    def now(self, clock):
        return int(self._send('now %d' % clock).split()[1])

    def par(self, scripts):
        """scripts: one list of (fn, unstable, args) per thread; the agent runs them in threads started together and returns the
        return codes per thread"""
        parts = ['par %d' % len(scripts)]
        for sc in scripts:
            parts.append('T %d' % len(sc))
            for fn, unstable, args in sc:
                parts.append('%s %d %d %s' % (fn, 1 if unstable else 0, len(args), ' '.join(str(int(a)) for a in args)))
        r = self._send(' '.join(parts))
        if not r.startswith('par'):
            raise AgentDied('agent protocol error: %r' % r[:200])
        return [[int(x) for x in t.split()] for t in r[3:].split('/')]

    def repeat(self, n, cell, fn, unstable, *args, **kw):
        """the same call n times inside the agent; returns dict(ok, fail, firstfailret, firstfailat, dups, first, last) - first / last /
        dups describe the u32 result cell `cell` after the successful calls (must grow strictly); close=True: every descriptor
        handed out is closed again at once"""
        r = self._send('repeat %d %d %d %s %d %s' % (n, cell, 1 if kw.get('close') else 0, fn, 1 if unstable else 0, ' '.join(str(int(a)) for a in args))).split()
        if not r or r[0] != 'rep':
            raise AgentDied('agent protocol error: %r' % r[:6])
        return dict(zip(('ok', 'fail', 'firstfailret', 'firstfailat', 'dups', 'first', 'last'), [int(x) for x in r[1:8]]))

    def res(self, clock):
        """clock_getres of the host clock behind WASI clock id `clock`, read in the agent process (ns)"""
        return int(self._send('res %d' % clock).split()[1])

    def burn(self, ms):
        """another thread of the agent process consumes `ms` milliseconds of CPU time and ends"""
        self._send('burn %d' % ms)

    def fsize(self, nbytes):
        """soft RLIMIT_FSIZE of the agent process (None = back to the hard limit); SIGXFSZ is ignored"""
        r = self._send('fsize %d' % (-1 if nbytes is None else nbytes))
        if r != 'ok 0':
            raise AgentDied('agent could not set RLIMIT_FSIZE: %r' % r)

    def call(self, fn, unstable, *args):
        if self.edge_mode and fn in EDGE_SPEC:
            return self._call_edge(fn, unstable, list(args))
        return self._call(fn, unstable, *args)

    def _call(self, fn, unstable, *args):
        r = self._send('call %s %d %s' % (fn, 1 if unstable else 0, ' '.join(str(int(a)) for a in args)))
        if not r.startswith('ret '):
            raise AgentDied('agent protocol error: %r' % r)
        return int(r[4:])

    # ---- edge placement: one guest object of the call is moved so that it ENDS EXACTLY AT THE END OF GUEST MEMORY
    # (contents copied there before and copied back afterwards), which is as much in bounds as any other placement; an
    # off-by-one in a bounds check, or a write past the object, becomes visible (errno FAULT / ASan report in the agent)
    def _call_edge(self, fn, unstable, args):
        memsize = self.pages * 65536
        cands = []
        for spec in EDGE_SPEC[fn]:
            kind = spec[0]
            if kind == 'obj':
                _, ai, ln, direction = spec
                ln = ln(args, unstable) if callable(ln) else ln
                if 0 < ln <= 65536 and args[ai] + ln <= memsize - 0x20000:
                    cands.append(('obj', ai, ln, direction))
            elif kind == 'iov':
                _, ai, ci, direction = spec
                n = args[ci]
                if 0 < n <= 64:
                    raw = self.peek(args[ai], 8 * n)
                    ents = [struct.unpack(self.E + 'II', raw[8 * i:8 * i + 8]) for i in range(n)]
                    for i in range(n - 1, -1, -1):
                        if 0 < ents[i][1] <= 65536 and ents[i][0] + ents[i][1] <= memsize - 0x20000:
                            cands.append(('iovbuf', ai, i, ents[i], direction))
                            break
        self.edge_calls += 1
        k = (self.edge_mode + self.edge_calls) % (len(cands) + 1)
        if k >= len(cands):
            return self._call(fn, unstable, *args)
        c = cands[k]
        self.edge_moved += 1
        # alternate between the two ends of guest memory: the object ends at the last byte, or starts at address 0 (a valid
        # guest address that C code may mistake for a null pointer)
        bottom = ((self.edge_mode + self.edge_calls) // (len(cands) + 1)) % 2 == 1
        if c[0] == 'obj':
            _, ai, ln, direction = c
            low, top = args[ai], memsize - ln
            if bottom and ln <= 0x800:
                top = 0
            if 'i' in direction:
                self.poke(top, self.peek(low, ln))
            else:
                self.fill(top, ln)
            args2 = list(args)
            args2[ai] = top
            r = self._call(fn, unstable, *args2)
            if 'o' in direction:
                self.poke(low, self.peek(top, ln))
            return r
        _, ai, i, (bptr, blen), direction = c
        top = memsize - blen
        if bottom and blen <= 0x800:
            top = 0
        if 'i' in direction:
            self.poke(top, self.peek(bptr, blen))
        else:
            self.fill(top, blen)
        self.poke(args[ai] + 8 * i, struct.pack(self.E + 'I', top))
        try:
            r = self._call(fn, unstable, *args)
        finally:
            self.poke(args[ai] + 8 * i, struct.pack(self.E + 'I', bptr))
        if 'o' in direction:
            self.poke(bptr, self.peek(top, blen))
        return r

    def call_noreturn(self, fn, unstable, *args):
        """for proc_exit: returns the exit status of the agent"""
        try:
            self.w.write(('call %s %d %s\n' % (fn, 1 if unstable else 0, ' '.join(str(int(a)) for a in args))).encode())
        except (BrokenPipeError, OSError):
            pass
        try:
            self.p.wait(timeout=30)
        except subprocess.TimeoutExpired:
            self.p.kill()
            return 'timeout'
        return self.p.returncode

    def close(self):
        try:
            self.w.write(b'exit\n')
        except (BrokenPipeError, OSError, ValueError):
            pass
        try:
            self.p.wait(timeout=10)
        except subprocess.TimeoutExpired:
            self.p.kill()
            self.p.wait()
        for f in (self.w, self.r):
            try:
                f.close()
            except OSError:
                pass
        return self.p.returncode

    def sanitizer_report(self):
        try:
            t = open(self.stderr_path, errors='replace').read()
        except OSError:
            return ''
        if 'Sanitizer' in t or 'runtime error' in t:
            return t[-4000:]
        return ''


def _statlen(args, unstable):
    return 56 if unstable else 64


# per function: relocatable guest objects. ('obj', pointer argument index, length or f(args, unstable), 'i' input / 'o' output)
# and ('iov', iovec-array argument index, count argument index, direction of the data buffers)
EDGE_SPEC = {
    'fd_write': [('obj', 1, lambda a, u: 8 * a[2], 'i'), ('obj', 3, 4, 'o'), ('iov', 1, 2, 'i')],
    'fd_pwrite': [('obj', 1, lambda a, u: 8 * a[2], 'i'), ('obj', 4, 4, 'o'), ('iov', 1, 2, 'i')],
    'fd_read': [('obj', 1, lambda a, u: 8 * a[2], 'i'), ('obj', 3, 4, 'o'), ('iov', 1, 2, 'o')],
    'fd_pread': [('obj', 1, lambda a, u: 8 * a[2], 'i'), ('obj', 4, 4, 'o'), ('iov', 1, 2, 'o')],
    'fd_seek': [('obj', 3, 8, 'o')],
    'fd_tell': [('obj', 1, 8, 'o')],
    'path_open': [('obj', 2, lambda a, u: a[3], 'i'), ('obj', 8, 4, 'o')],
    'fd_filestat_get': [('obj', 1, _statlen, 'o')],
    'path_filestat_get': [('obj', 2, lambda a, u: a[3], 'i'), ('obj', 4, _statlen, 'o')],
    'fd_fdstat_get': [('obj', 1, 24, 'o')],
    'fd_prestat_get': [('obj', 1, 8, 'o')],
    'fd_prestat_dir_name': [('obj', 1, lambda a, u: a[2], 'o')],
    'fd_readdir': [('obj', 1, lambda a, u: a[2], 'o'), ('obj', 4, 4, 'o')],
    'path_create_directory': [('obj', 1, lambda a, u: a[2], 'i')],
    'path_remove_directory': [('obj', 1, lambda a, u: a[2], 'i')],
    'path_unlink_file': [('obj', 1, lambda a, u: a[2], 'i')],
    'path_rename': [('obj', 1, lambda a, u: a[2], 'i'), ('obj', 4, lambda a, u: a[5], 'i')],
    'path_symlink': [('obj', 0, lambda a, u: a[1], 'i'), ('obj', 3, lambda a, u: a[4], 'i')],
    'path_readlink': [('obj', 1, lambda a, u: a[2], 'i'), ('obj', 3, lambda a, u: a[4], 'o'), ('obj', 5, 4, 'o')],
}


class Violation(Exception):
    def __init__(self, sig, msg):
        Exception.__init__(self, msg)
        self.sig = sig


# guest memory layout used by the state machines
IOV = 0x1000          # iovec arrays
RES = 0x3000          # result cells
PATHBUF = 0x8000      # guest path bytes (followed by junk, not NUL-terminated)
PATHBUF2 = 0xC000
DATA = 0x20000        # data buffers
STATBUF = 0x4000
DIRBUF = 0x60000
BIGIOV = 0x100000     # iovec arrays of more than 1000 entries (up to 64 KiB)
CANARY = 0xCD


def put_iovs(agent, bufs, base=DATA, gap=16):
    """lay out buffers (list of lengths or byte strings) + the iovec array; returns (iovs ptr, count, [(ptr, len)])"""
    ptr = base
    out = []
    arr = b''
    for b in bufs:
        ln = b if isinstance(b, int) else len(b)
        out.append((ptr, ln))
        arr += struct.pack(agent.E + 'II', ptr, ln)
        if not isinstance(b, int):
            agent.poke(ptr, b)
        ptr += ln + gap
    # arrays of more than 1000 entries do not fit between IOV and RES: they live in a region of their own
    where = IOV if len(bufs) <= 1000 else BIGIOV
    agent.poke(where, arr)
    return where, len(bufs), out
