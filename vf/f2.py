"""Family F2: translator invariants (C08, C09, C10, C20): module sources, option sets, translator runs, output parsing."""
import glob
import json
import os
import re
import subprocess

from . import wasm, gen, cexec, f1
from .wasm import I32, I64, F32, F64, Module, Func
from .props import c02, c03, c04, c05, c06, c07  # noqa: F401  (register makers)

GEN = '/repo/tests/gen'
_spec_cache = None


def spec_modules():
    """[(name, bytes)] of the valid spec-suite modules (the 'module' commands of tests/gen/*.json) inside the supported subset"""
    global _spec_cache
    if _spec_cache is None:
        out = []
        for jf in sorted(glob.glob(os.path.join(GEN, '*.json'))):
            try:
                d = json.load(open(jf))
            except ValueError:
                continue
            for cmd in d['commands']:
                if cmd['type'] == 'module' and cmd['filename'].endswith('.wasm'):
                    p = os.path.join(GEN, cmd['filename'])
                    try:
                        b = open(p, 'rb').read()
                        m = wasm.decode(b)
                        if cmd['filename'] == 'unreached-valid.1.wasm':
                            pass
                        out.append((cmd['filename'], b))
                    except (wasm.Unsupported, wasm.DecodeError, OSError):
                        continue
        _spec_cache = out
    return _spec_cache


GENERAL_MAKERS = ['c02_expr', 'c03_ctrl', 'c04_calls', 'c05_history', 'c06_inst', 'c07_consts']

NAME_BYTES = [b'a-b', b'x.y', b'1abc', b'X', b'a__b', b'with space', b'\xc3\xa9t\xc3\xa9', b'%d%s%n', b'a/b', b'$', b'_', b'__',
              b'tab\there', b'{}', b'semi;colon', b'\xf0\x9f\x98\x80', b"quote'", b'a?b:c', b'#x', b'X41', b'int', b'main',
              b'say "hi"', b'back\\slash', b'new\nline', b'\xff\xfe', b'\x80', b'\xe2\x82\xac', b'std::vec<int>::push(int)',
              b'operator new[](unsigned long)', b'', b'.', b'..', b'*/', b'%', b'\x01\x02', b'\x7f']


def exotic_name(ch, long_ok=True):
    k = ch.below(10)
    if k < 6:
        n = ch.pick(NAME_BYTES)
        if ch.below(3) == 0:
            n = n + ch.pick(NAME_BYTES)
        return n
    if k < 8:
        return bytes(ch.below(255) + 1 for _ in range(1 + ch.below(12)))
    if long_ok and k == 8:
        return ch.pick((b'L', b'\xc3\xa9', b'ab_', b'-')) * ch.pick((100, 1000, 4096, 10000))
    if long_ok and ch.below(2):
        return boundary_name(ch)
    return b'n%d' % ch.below(1000)


def boundary_name(ch):
    """a name whose length lies within a few bytes of a size a fixed buffer is likely to have (16 ... 4096), made of plain letters
    with one to three bytes that a tool would escape, expand or cut (control characters, quotes, backslash, '%', bytes >= 0x80)
    placed mostly among the last bytes before such a size"""
    size = ch.pick((16, 32, 64, 64, 128, 256, 256, 512, 1024, 4096))
    ln = max(1, size - 8 + ch.below(17))
    n = bytearray(ch.pick((b'A', b'a', b'_', b'z')) * ln)
    for _ in range(1 + ch.below(3)):
        sp = ch.pick((0x1b, 0x01, 0x0a, 0x0d, 0x09, 0x7f, 0x22, 0x5c, 0x25, 0x27, 0x80, 0xff, 0xc3, 0x20, 0x3f))
        pos = (size - 8 + ch.below(10)) if ch.below(4) else ch.below(ln)
        if 0 <= pos < ln:
            n[pos] = sp
    return bytes(n)


def names_module(ch):
    """imports / exports / function names that are long, non-ASCII, punctuation-laden; imports are called from bodies"""
    m = Module()
    T = m.type_index
    used_imp, used_exp = set(), set()
    nimp = 1 + ch.below(4)
    for i in range(nimp):
        for _ in range(10):
            key = (exotic_name(ch) if ch.below(2) else b'env', exotic_name(ch))
            if key not in used_imp and b'\0' not in key[0] + key[1]:
                break
        else:
            key = (b'env', b'i%d' % i)
        used_imp.add(key)
        m.imports.append((key[0], key[1], 'func', T((I32,), (I32,))))
    if ch.below(3) == 0:
        m.imports.append((exotic_name(ch, False), exotic_name(ch, False) + b'm', 'memory', (1, None, False)))
    if ch.below(3) == 0:
        m.imports.append((exotic_name(ch, False), exotic_name(ch, False) + b'g', 'global', (I32, False)))
    nf = 1 + ch.below(6)
    for i in range(nf):
        body = [('local.get', 0)]
        for _ in range(ch.below(3)):
            body += [('call', ch.below(nimp))]
        m.funcs.append(Func(T((I32,), (I32,)), [], body))
        for _ in range(10):
            n = exotic_name(ch)
            if n not in used_exp and b'\0' not in n:
                break
        else:
            n = b'e%d' % i
        used_exp.add(n)
        if ch.below(4):                      # some functions stay internal
            m.exports.append((n, 'func', nimp + i))
    mode = ch.below(4)
    if mode == 1:
        m.func_names = {nimp + i: exotic_name(ch) for i in range(nf)}
    elif mode == 2:
        m.func_names = {nimp + i: exotic_name(ch) for i in range(nf) if ch.below(2)}      # partial
    elif mode == 3:
        same = exotic_name(ch)
        m.func_names = {i: same for i in range(nimp + nf)}                              # duplicates, imports named too
    add_name_subsections(ch, m, nimp + nf)
    # custom sections (which a translator skips, and may mention in a diagnostic) under exotic names, anywhere in the module
    for _ in range(ch.below(3)):
        cn = exotic_name(ch)
        if cn != b'name':
            m.customs.append((ch.below(12), cn, bytes(ch.below(256) for _ in range(ch.below(8)))))
    # exports of kinds the translator has no use for (globals, tables: it may warn about them), exotic names again
    if ch.below(3) == 0:
        m.globals.append((I32, bool(ch.below(2)), ('i32.const', ch.below(100))))
        gn = exotic_name(ch) + b'G'
        if gn not in used_exp and b'\0' not in gn:
            used_exp.add(gn)
            m.exports.insert(ch.below(len(m.exports) + 1), (gn, 'global', sum(1 for im in m.imports if im[2] == 'global')))
    if ch.below(4) == 0 and m.table is None:
        m.table = (1 + ch.below(4), None)
        tn = exotic_name(ch) + b'T'
        if tn not in used_exp and b'\0' not in tn:
            used_exp.add(tn)
            m.exports.insert(ch.below(len(m.exports) + 1), (tn, 'table', 0))
    if ch.below(5) == 0:
        # a custom section that is CALLED "name" but whose content is not a well-formed name section (or refers to functions that do
        # not exist): errors in the content of a custom section do not invalidate a module
        m.func_names, m.name_subsections = None, None
        junk = ch.pick((b'', b'\x01', b'\x01\x05\x01\x09\x01a', b'\x01\x04\x01\x00\x05ab', b'\xff\xff\xff', b'\x01\x7f', b'\x00\x80',
                        b'\x01\x06\x02\x00\x01a\x00\x01b', b'\x01\x03\x01\x63\x00', b'\x02\xff\xff\xff\xff\x0f', b'\x01\x02\xff\x01',
                        bytes(ch.below(256) for _ in range(ch.below(20)))))
        m.customs.append((ch.below(12), b'name', junk))
    if m.func_names is not None and ch.below(3) == 0:
        # the name section somewhere in front of / between the other sections; most often right behind the import section (the
        # reader then knows the imported functions but none of the defined ones)
        m.name_section_pos = ch.pick((2, 2, 2, ch.below(12)))
    return m


def add_name_subsections(ch, m, nfuncs):
    """the other subsections toolchains write into the name section: module name (0), local names (2), and the extended ones
    (labels 3, types 4, tables 5, memories 6, globals 7) - all of them are to be skipped by a reader that wants function names"""
    if ch.below(2):
        return
    enc = wasm.Encoder()
    subs = []
    if ch.below(2):
        subs.append((0, enc.name(exotic_name(ch) if ch.below(2) else b'module')))
    if ch.below(2):
        funcs = []
        for fi in sorted(set(ch.below(max(nfuncs, 1)) for _ in range(1 + ch.below(3)))):
            locs = enc.vec([enc.u(li) + enc.name(b'l%d' % li if ch.below(2) else exotic_name(ch)) for li in range(ch.below(4))])
            funcs.append(enc.u(fi) + locs)
        subs.append((2, enc.vec(funcs)))
    if ch.below(3) == 0:
        sid = ch.pick((3, 4, 5, 6, 7, 9))
        subs.append((sid, enc.vec([enc.u(0) + enc.name(b'x')]) if ch.below(2) else b''))
    m.name_subsections = subs or None


def sweep_module(ch):
    """count sweeps: one function (or name) per value of a count over a window of consecutive values - br_table label counts (with
    a non-zero default label), numbers of locals, of parameters, nesting depths, name lengths.  Fixed-size internal buffers, inline
    arrays and growth steps of the translator sit at particular counts; a random count practically never equals them."""
    m = Module()
    T = m.type_index
    t0 = T((I32,), (I32,))
    kind = ch.below(6)
    lo = ch.pick((0, 0, 0, 64, 128, 192, 224, 480, 992, 1000, 2016, 4064, 8160))
    n = 130 if lo == 0 else 72
    if kind == 5:
        # position sweep: names of every kind (custom sections, imports, exports of functions / globals / tables, name-section
        # entries) in which ONE byte that a tool escapes or expands travels through the window in front of a buffer-like size
        size = ch.pick((16, 32, 64, 64, 128, 256, 512, 1024))
        sp = ch.pick((0x1b, 0x01, 0x0a, 0x7f, 0x22, 0x5c, 0x25, 0xff, 0xc3))
        fill = ch.pick((0x41, 0x61, 0x5f))
        tail = ch.pick((b'', b't', b'tail', b'[2Jtail'))
        m.globals.append((I32, False, ('i32.const', 1)))
        m.table = (1, None)
        m.func_names = {}
        for j, pos in enumerate(range(max(0, size - 12), size + 4)):
            nm = bytes([fill]) * pos + bytes([sp]) + tail
            m.customs.append((ch.below(12), nm + b'c', b'\x00'))
            m.imports.append((b'env' if j % 2 else nm + b'm', nm + b'i', 'func', t0))
        ni = len(m.imports)
        for j, pos in enumerate(range(max(0, size - 12), size + 4)):
            nm = bytes([fill]) * pos + bytes([sp]) + tail
            m.funcs.append(Func(t0, [], [('local.get', 0), ('call', j)]))
            m.exports.append((nm + b'e', 'func', ni + j))
            m.exports.append((nm + b'g', 'global', 0))
            m.exports.append((nm + b't', 'table', 0))
            m.func_names[ni + j] = nm if j % 3 else bytes([fill]) * (size - 6) + bytes([sp]) + tail     # some duplicates
        return m
    if kind == 0:
        for c in range(lo, lo + n):
            labels = [(i + c) % 3 for i in range(c)]
            body = [('block', None, [('block', None, [('block', None, [('local.get', 0), ('br_table', labels, 1 + (c % 2))])])])]
            m.funcs.append(Func(t0, [], body + [('local.get', 0)]))
    elif kind == 1:
        for c in range(lo, lo + n):
            locs = [(I32, I64, F32, F64)[(i + c) % 4] for i in range(c)]
            m.funcs.append(Func(t0, locs, [('local.get', 0)] + ([('local.get', c), ('i32.add',)] if c and locs[c - 1] == I32 else [])))
    elif kind == 2:
        lo = min(lo, 480)
        for c in range(lo, lo + n):
            ps = tuple((I32, I64, F32, F64)[(i * 7 + c) % 4] for i in range(c))
            m.funcs.append(Func(T(ps, (I32,)), [], [('i32.const', c)]))
    elif kind == 3:
        lo = min(lo, 2016)
        for c in range(lo, lo + n, 1 if lo < 300 else 3):
            body = [('local.get', 0)]
            for d in range(c):
                body = [('block', I32, body)] if d % 2 else [('loop', I32, body)]
            m.funcs.append(Func(t0, [], body))
    else:
        imp = []
        for c in range(lo, lo + n):
            nm = bytes((0x61 + (i + c) % 26) if (i + c) % 11 else 0x2d for i in range(c))
            m.imports.append((b'env', nm + b'i', 'func', t0))
            imp.append(c)
        for j, c in enumerate(range(lo, lo + n)):
            nm = bytes((0x41 + (i + c) % 26) if (i + c) % 7 else 0xc3 for i in range(c))
            m.funcs.append(Func(t0, [], [('local.get', 0), ('call', j)]))
            m.exports.append((nm + b'e', 'func', len(imp) + j))
        m.func_names = {len(imp) + j: bytes(0x61 + (i % 26) for i in range(c)) for j, c in enumerate(range(lo, lo + n))}
        return m
    m.exports.append((b'first', 'func', 0))
    m.exports.append((b'last', 'func', len(m.funcs) - 1))
    return m


def stress_module(ch):
    m = Module()
    T = m.type_index
    k = ch.below(7)
    t0 = T((I32,), (I32,))
    if k == 0:
        n = ch.pick((1000, 3000, 6000))
        for i in range(n):
            m.funcs.append(Func(t0, [], [('local.get', 0), ('i32.const', i), ('i32.add',)]))
        m.exports.append((b'last', 'func', n - 1))
    elif k == 1:
        n = ch.pick((1000, 5000, 20000))
        locs = [ch.pick((I32, I64, F32, F64)) for _ in range(n)]
        body = [('local.get', 0)]
        for i in range(0, n, max(n // 50, 1)):
            if locs[i] == I32:
                body += [('local.get', i + 1), ('i32.add',)]
        m.funcs.append(Func(t0, locs, body))
        m.exports.append((b'f', 'func', 0))
    elif k == 2:
        depth = ch.pick((100, 500, 1500))
        body = [('local.get', 0)]
        for d in range(depth):
            kind = d % 3
            if kind == 0:
                body = [('block', I32, body + [('local.get', 0), ('br_if', 0)])]
            elif kind == 1:
                body = [('loop', I32, body)]
            else:
                body = [('local.get', 0), ('if', I32, body, [('i32.const', d)])]
        m.funcs.append(Func(t0, [], body))
        m.exports.append((b'deep', 'func', 0))
    elif k == 3:
        n = ch.pick((1000, 5000))
        body = [('block', None, [('block', None, [('local.get', 0), ('br_table', [i % 2 for i in range(n)], 1)])])]
        m.funcs.append(Func(t0, [], body + [('local.get', 0)]))
        m.exports.append((b'bt', 'func', 0))
    elif k == 4:
        # operand stacks of thousands to tens of thousands of entries (growth steps of the translator's per-file scratch stacks),
        # with further functions around it so that the scratch state is reused afterwards
        n = ch.pick((500, 2000, 2000, 20000, 70000))
        body = []
        for i in range(n):
            body.append(('i32.const', i & 0x3f))
        body += [('i32.add',)] * (n - 1)
        for j in range(ch.below(4)):
            m.funcs.append(Func(t0, [], [('local.get', 0), ('i32.const', j), ('i32.xor',)]))
        m.funcs.append(Func(T((), (I32,)), [], body))
        m.exports.append((b'stack', 'func', len(m.funcs) - 1))
        for j in range(1 + ch.below(6)):
            m.funcs.append(Func(t0, [I64], [('local.get', 0), ('i32.const', 100 + j), ('i32.mul',)]))
    elif k == 5:
        m.memory = (1, None)
        n = ch.pick((200, 1000))
        for i in range(n):
            m.datas.append(('active', ('i32.const', (i * 13) % 60000), bytes([i & 0xff]) * (i % 17)))
        m.datas.append(('active', ('i32.const', 0), bytes(range(256)) * ch.pick((1, 40, 200))))
        m.funcs.append(Func(t0, [], [('local.get', 0), ('i32.load', 2, 0)]))
        m.exports.append((b'ld', 'func', 0))
    else:
        n = ch.pick((300, 1500))
        nt = 40
        for i in range(nt):
            T(tuple([I32] * (i % 9)) + ((I64,) if i % 2 else ()), (I32,) if i % 3 else ())
        m.table = (n, None)
        for i in range(n):
            m.funcs.append(Func(t0, [], [('local.get', 0)]))
        m.elems.append((('i32.const', 0), list(range(n))))
        for i in range(0, n, 7):
            m.exports.append((b'x%d' % i, 'func', i))
    return m


def any_module(ch, allow_stress=True):
    """(module or None, bytes, tag)"""
    k = ch.below(12)
    if k >= 10:
        if not allow_stress:
            k = 7
        else:
            m = sweep_module(ch)
            return m, wasm.encode(m), 'stress'
    if k < 5:
        mk = ch.pick(GENERAL_MAKERS)
        m, script, meta = f1.MAKERS[mk](ch, {'nfuncs': 10, 'nargs': 2, 'nsteps': 20, 'nconst': 60})
        if ch.below(3) == 0 and m.func_names is None:
            ni = m.n_imported_funcs()
            m.func_names = {ni + i: b'fn_%d' % i for i in range(len(m.funcs)) if ch.below(4)}
            add_name_subsections(ch, m, ni + len(m.funcs))
            if ch.below(3) == 0:
                m.name_section_pos = ch.pick((2, 2, ch.below(12)))
        if ch.below(3) == 0:
            # a valid module is valid in every spec-equivalent encoding: padded LEB128 fields, flag-2 data segments, custom sections,
            # regrouped locals, empty sections, DataCount
            kn = wasm.Knobs(ch, pad_prob_pct=ch.pick((3, 20, 60)), customs=True, data_flag2=True, empty_sections=True, datacount=True,
                            local_groups=True)
            return m, wasm.encode(m, kn), mk + ':enc'
        return m, wasm.encode(m), mk
    if k < 7:
        name, b = ch.pick(spec_modules())
        return None, b, 'spec:' + name
    if k < 9 or not allow_stress:
        m = names_module(ch)
        if ch.below(4) == 0:
            return m, wasm.encode(m, wasm.Knobs(ch, pad_prob_pct=10, customs=True, empty_sections=True, local_groups=True)), 'names'
        return m, wasm.encode(m), 'names'
    m = stress_module(ch)
    return m, wasm.encode(m), 'stress'


def option_set(ch, nfuncs, pthread=True, allow_r=False):
    opts = []
    if ch.below(3) == 0:
        opts.append('-p')
    if ch.below(2) == 0:
        opts += ['-f', str(ch.pick((0, 1, 2, 3, max(nfuncs - 1, 0), nfuncs, nfuncs + 1, 7, 100)))]
    if pthread and ch.below(2) == 0:
        opts += ['-t', str(ch.pick((1, 2, 3, 8, 64)))]
    if ch.below(4) == 0:
        opts.append('-m')
    if ch.below(3) == 0:
        opts.append('-g')
    if ch.below(4) == 0:
        # sectcreate1 / sectcreate2 (Mach-O linkers) produce C that this host cannot link, but the translator run itself is in scope
        opts += ['-d', ch.pick(('arrays', 'gnu-ld', 'gnu-ld', 'sectcreate1', 'sectcreate2'))]
    if ch.below(5) == 0:
        opts.append('-c')
    return opts


SAN_RE = re.compile(r'(AddressSanitizer|UndefinedBehaviorSanitizer|MemorySanitizer|runtime error|LeakSanitizer|ThreadSanitizer)')


def classify_run(tr):
    """None if the run is clean, else (kind, key) describing the failure of a run that must be memory-safe"""
    err = tr.err.decode(errors='replace') if isinstance(tr.err, bytes) else str(tr.err)
    if tr.rc == 'timeout':
        return 'timeout', 'timeout'
    if isinstance(tr.rc, int) and tr.rc < 0:
        return 'signal', 'signal %d' % -tr.rc
    mt = SAN_RE.search(err)
    if mt or tr.rc in (97, 98, 99):
        key = ''
        for ln in err.splitlines():
            if 'ERROR:' in ln or 'runtime error' in ln or 'WARNING: MemorySanitizer' in ln:
                key = ln
                break
        frame = ''
        for ln in err.splitlines():
            mm = re.search(r'#\d+ 0x[0-9a-f]+ in (\w+) .*/w2c2/(\w+\.[ch])', ln)
            if mm:
                frame = mm.group(1)
                break
        key = re.sub(r'0x[0-9a-f]+', 'N', key)
        key = re.sub(r'==\d+==', '', key)
        key = re.sub(r'^.*?/w2c2/', '', key)
        key = re.sub(r'\d+', 'N', key)
        return 'sanitizer', (key.strip()[:100] + ' in ' + frame)
    return None
