"""refinterp (E2): reference WebAssembly interpreter used as the oracle.

Values on the stack are python ints: i32/i64 as unsigned bit patterns, f32/f64 as IEEE bit patterns.
A NaN whose payload/sign the specification leaves open is an NDNaN instance (still an int, canonical bits).
"""
import math
import struct
import sys
import zlib

import numpy as np

from .wasm import (I32, I64, F32, F64, NUMERIC, SAT, LOADS, STORES, ATOMIC_LOADS, ATOMIC_STORES, ATOMIC_RMW,
                   ATOMIC_CMPXCHG)

np.seterr(all='ignore')
sys.setrecursionlimit(20000)

M32 = 0xffffffff
M64 = 0xffffffffffffffff
PAGE = 65536

TRAP_UNREACHABLE, TRAP_DIV0, TRAP_OVERFLOW, TRAP_CONV = 0, 1, 2, 3     # numbering of w2c2's Trap enum
TRAP_NAMES = {0: 'unreachable', 1: 'div-by-zero', 2: 'int-overflow', 3: 'invalid-conversion'}


class Trap(Exception):
    def __init__(self, kind):
        Exception.__init__(self, TRAP_NAMES[kind])
        self.kind = kind


class Indeterminate(Exception):
    """the specification does not fix the outcome (NaN bits observed, grow in the may-fail zone)"""


class OutOfContract(Exception):
    """execution left the domain the properties quantify over (out-of-bounds access, bad table slot, fuel)"""


class NDNaN(int):
    __slots__ = ()


NDNAN32 = NDNaN(0x7fc00000)
NDNAN64 = NDNaN(0x7ff8000000000000)

_pf, _pI, _pd, _pQ = struct.Struct('<f'), struct.Struct('<I'), struct.Struct('<d'), struct.Struct('<Q')


def f32_val(bits):
    return _pf.unpack(_pI.pack(bits))[0]


def f64_val(bits):
    return _pd.unpack(_pQ.pack(bits))[0]


def f64_bits(x):
    return _pQ.unpack(_pd.pack(x))[0]


def isnan32(b):
    return (b & 0x7fffffff) > 0x7f800000


def isnan64(b):
    return (b & 0x7fffffffffffffff) > 0x7ff0000000000000


def sgn(v, bits):
    return v - (1 << bits) if v >> (bits - 1) else v


def int_to_float_bits(n, mant, expbits):
    """exact round-to-nearest-even conversion of python int n to an IEEE format with `mant` explicit mantissa bits"""
    if n == 0:
        return 0
    sign = 0
    if n < 0:
        sign, n = 1, -n
    bl = n.bit_length()
    p = mant + 1
    if bl > p:
        sh = bl - p
        q, r = n >> sh, n & ((1 << sh) - 1)
        half = 1 << (sh - 1)
        if r > half or (r == half and (q & 1)):
            q += 1
            if q >> p:
                q >>= 1
                sh += 1
        e = sh + p - 1
    else:
        q = n << (p - bl)
        e = bl - 1
    bias = (1 << (expbits - 1)) - 1
    assert e + bias < (1 << expbits) - 1
    return (sign << (mant + expbits)) | ((e + bias) << mant) | (q & ((1 << mant) - 1))


def int_to_f32(n):
    return int_to_float_bits(n, 23, 8)


def int_to_f64(n):
    return int_to_float_bits(n, 52, 11)


def np32(bits):
    return np.float32(f32_val(bits))


def np64(bits):
    return np.float64(f64_val(bits))


def bits_of32(x):
    return int(np.float32(x).view(np.uint32))


def bits_of64(x):
    return int(np.float64(x).view(np.uint64))


# ------------------------------------------------------------------------------------------------
# numeric operators as python functions over bit patterns
# ------------------------------------------------------------------------------------------------
OPS = {}


def _int_ops(t, bits):
    M = (1 << bits) - 1
    SB = 1 << (bits - 1)

    def s(v):
        return v - (1 << bits) if v & SB else v

    def div_s(a, b):
        if b == 0:
            raise Trap(TRAP_DIV0)
        sa, sb = s(a), s(b)
        if sa == -SB and sb == -1:
            raise Trap(TRAP_OVERFLOW)
        q = abs(sa) // abs(sb)
        return (q if (sa < 0) == (sb < 0) else -q) & M

    def div_u(a, b):
        if b == 0:
            raise Trap(TRAP_DIV0)
        return a // b

    def rem_s(a, b):
        if b == 0:
            raise Trap(TRAP_DIV0)
        sa, sb = s(a), s(b)
        r = abs(sa) % abs(sb)
        return (r if sa >= 0 else -r) & M

    def rem_u(a, b):
        if b == 0:
            raise Trap(TRAP_DIV0)
        return a % b

    def clz(a):
        return bits - a.bit_length()

    def ctz(a):
        return bits if a == 0 else (a & -a).bit_length() - 1

    def rotl(a, b):
        k = b % bits
        return ((a << k) | (a >> (bits - k))) & M if k else a

    def rotr(a, b):
        k = b % bits
        return ((a >> k) | (a << (bits - k))) & M if k else a

    d = {
        'eqz': lambda a: int(a == 0), 'eq': lambda a, b: int(a == b), 'ne': lambda a, b: int(a != b),
        'lt_s': lambda a, b: int(s(a) < s(b)), 'lt_u': lambda a, b: int(a < b),
        'gt_s': lambda a, b: int(s(a) > s(b)), 'gt_u': lambda a, b: int(a > b),
        'le_s': lambda a, b: int(s(a) <= s(b)), 'le_u': lambda a, b: int(a <= b),
        'ge_s': lambda a, b: int(s(a) >= s(b)), 'ge_u': lambda a, b: int(a >= b),
        'clz': clz, 'ctz': ctz, 'popcnt': lambda a: bin(a).count('1'),
        'add': lambda a, b: (a + b) & M, 'sub': lambda a, b: (a - b) & M, 'mul': lambda a, b: (a * b) & M,
        'div_s': div_s, 'div_u': div_u, 'rem_s': rem_s, 'rem_u': rem_u,
        'and': lambda a, b: a & b, 'or': lambda a, b: a | b, 'xor': lambda a, b: a ^ b,
        'shl': lambda a, b: (a << (b % bits)) & M, 'shr_s': lambda a, b: (s(a) >> (b % bits)) & M,
        'shr_u': lambda a, b: a >> (b % bits), 'rotl': rotl, 'rotr': rotr,
    }
    for k, v in d.items():
        OPS['%s.%s' % (t, k)] = v


_int_ops(I32, 32)
_int_ops(I64, 64)


def _float_ops(t, bits, mant, npf, npu, isnan, ndnan, val):
    SIGN = 1 << (bits - 1)
    ABS = SIGN - 1

    def tobits(x):
        return int(npf(x).view(npu))

    def arith(fn):
        def f(a, b):
            if isnan(a) or isnan(b):
                return ndnan
            r = tobits(fn(npf(val(a)), npf(val(b))))
            return ndnan if isnan(r) else r
        return f

    def unary(fn):
        def f(a):
            if isnan(a):
                return ndnan
            r = tobits(fn(npf(val(a))))
            return ndnan if isnan(r) else r
        return f

    def fmin(a, b):
        if isnan(a) or isnan(b):
            return ndnan
        if (a & ABS) == 0 and (b & ABS) == 0:
            return a | b
        return a if val(a) < val(b) else b

    def fmax(a, b):
        if isnan(a) or isnan(b):
            return ndnan
        if (a & ABS) == 0 and (b & ABS) == 0:
            return a & b
        return a if val(a) > val(b) else b

    def fabs(a):
        return ndnan if isinstance(a, NDNaN) else a & ABS

    def fneg(a):
        return ndnan if isinstance(a, NDNaN) else a ^ SIGN

    def copysign(a, b):
        if isinstance(b, NDNaN):
            if isnan(a):
                return ndnan
            raise Indeterminate('copysign from nondeterministic NaN')
        if isinstance(a, NDNaN):
            return ndnan
        return (a & ABS) | (b & SIGN)

    def cmp(fn, nanresult):
        def f(a, b):
            if isnan(a) or isnan(b):
                return nanresult
            return int(fn(val(a), val(b)))
        return f

    d = {
        'add': arith(lambda x, y: x + y), 'sub': arith(lambda x, y: x - y), 'mul': arith(lambda x, y: x * y),
        'div': arith(lambda x, y: x / y), 'min': fmin, 'max': fmax, 'copysign': copysign,
        'abs': fabs, 'neg': fneg, 'ceil': unary(np.ceil), 'floor': unary(np.floor), 'trunc': unary(np.trunc),
        'nearest': unary(np.rint), 'sqrt': unary(np.sqrt),
        'eq': cmp(lambda x, y: x == y, 0), 'ne': cmp(lambda x, y: x != y, 1), 'lt': cmp(lambda x, y: x < y, 0),
        'gt': cmp(lambda x, y: x > y, 0), 'le': cmp(lambda x, y: x <= y, 0), 'ge': cmp(lambda x, y: x >= y, 0),
    }
    for k, v in d.items():
        OPS['%s.%s' % (t, k)] = v


_float_ops(F32, 32, 23, np.float32, np.uint32, isnan32, NDNAN32, f32_val)
_float_ops(F64, 64, 52, np.float64, np.uint64, isnan64, NDNAN64, f64_val)


def _trunc(name, isnan, val, obits, signed, sat):
    lo = -(1 << (obits - 1)) if signed else 0
    hi = (1 << (obits - 1)) - 1 if signed else (1 << obits) - 1
    M = (1 << obits) - 1

    def f(a):
        if isnan(a):
            if sat:
                return 0
            raise Trap(TRAP_CONV)
        x = val(a)
        if math.isinf(x):
            if sat:
                return (hi if x > 0 else lo) & M
            raise Trap(TRAP_OVERFLOW)
        n = math.trunc(x)          # exact
        if n < lo or n > hi:
            if sat:
                return (hi if n > 0 else lo) & M
            raise Trap(TRAP_OVERFLOW)
        return n & M
    OPS[name] = f


for _o, _ob in ((I32, 32), (I64, 64)):
    for _i, _isn, _v in ((F32, isnan32, f32_val), (F64, isnan64, f64_val)):
        for _s in ('s', 'u'):
            _trunc('%s.trunc_%s_%s' % (_o, _i, _s), _isn, _v, _ob, _s == 's', False)
            _trunc('%s.trunc_sat_%s_%s' % (_o, _i, _s), _isn, _v, _ob, _s == 's', True)


def _demote(a):
    if isnan64(a):
        return NDNAN32
    return bits_of32(np.float32(np64(a)))


def _promote(a):
    if isnan32(a):
        return NDNAN64
    return f64_bits(f32_val(a))


def _reinterpret(a):
    if isinstance(a, NDNaN):
        raise Indeterminate('reinterpret of nondeterministic NaN')
    return a


def _ext(frm, to):
    SB = 1 << (frm - 1)
    FM = (1 << frm) - 1
    TM = (1 << to) - 1

    def f(a):
        a &= FM
        return (a - (1 << frm)) & TM if a & SB else a
    return f


OPS.update({
    'i32.wrap_i64': lambda a: a & M32,
    'i64.extend_i32_s': _ext(32, 64), 'i64.extend_i32_u': lambda a: a,
    'f32.convert_i32_s': lambda a: int_to_f32(sgn(a, 32)), 'f32.convert_i32_u': int_to_f32,
    'f32.convert_i64_s': lambda a: int_to_f32(sgn(a, 64)), 'f32.convert_i64_u': int_to_f32,
    'f64.convert_i32_s': lambda a: int_to_f64(sgn(a, 32)), 'f64.convert_i32_u': int_to_f64,
    'f64.convert_i64_s': lambda a: int_to_f64(sgn(a, 64)), 'f64.convert_i64_u': int_to_f64,
    'f32.demote_f64': _demote, 'f64.promote_f32': _promote,
    'i32.reinterpret_f32': _reinterpret, 'i64.reinterpret_f64': _reinterpret,
    'f32.reinterpret_i32': _reinterpret, 'f64.reinterpret_i64': _reinterpret,
    'i32.extend8_s': _ext(8, 32), 'i32.extend16_s': _ext(16, 32),
    'i64.extend8_s': _ext(8, 64), 'i64.extend16_s': _ext(16, 64), 'i64.extend32_s': _ext(32, 64),
})
for _n in list(NUMERIC) + list(SAT):
    assert _n in OPS, _n
ARITY = {n: len((NUMERIC.get(n) or SAT.get(n))[1]) for n in OPS}


# ------------------------------------------------------------------------------------------------
# store objects
# ------------------------------------------------------------------------------------------------
class SparseBytes(object):
    """zero-initialised byte array of any length that stores only the 64 KiB chunks ever written (slice get / set with step 1,
    len, extend): the model side of multi-gigabyte linear memories"""
    CH = 1 << 16

    def __init__(self, n):
        self.n = n
        self.chunks = {}

    def __len__(self):
        return self.n

    def _range(self, key):
        if isinstance(key, slice):
            a, b, st = key.indices(self.n)
            assert st == 1
            return a, max(b, a)
        if key < 0:
            key += self.n
        if not 0 <= key < self.n:
            raise IndexError(key)
        return key, key + 1

    def __getitem__(self, key):
        a, b = self._range(key)
        out = bytearray(b - a)
        p = a
        while p < b:
            c, o = divmod(p, self.CH)
            k = min(self.CH - o, b - p)
            ch = self.chunks.get(c)
            if ch is not None:
                out[p - a:p - a + k] = ch[o:o + k]
            p += k
        return out if isinstance(key, slice) else out[0]

    def __setitem__(self, key, val):
        a, b = self._range(key)
        if not isinstance(key, slice):
            val = bytes([val])
        val = bytes(val)
        assert len(val) == b - a
        p = a
        while p < b:
            c, o = divmod(p, self.CH)
            k = min(self.CH - o, b - p)
            ch = self.chunks.get(c)
            if ch is None:
                ch = self.chunks[c] = bytearray(self.CH)
            ch[o:o + k] = val[p - a:p - a + k]
            p += k

    def extend(self, more):
        assert not any(more[:1]) and len(more) % self.CH == 0
        self.n += len(more)

    def crc(self):
        z = 0
        zero = bytes(self.CH)
        for c in range((self.n + self.CH - 1) // self.CH):
            z = zlib.crc32(bytes(self.chunks.get(c, zero))[:min(self.CH, self.n - c * self.CH)], z)
        return z


class Memory(object):
    def __init__(self, minp, maxp=None, shared=False):
        self.data = bytearray(minp * PAGE) if minp < 8192 else SparseBytes(minp * PAGE)
        self.pages = minp
        self.max = maxp
        self.shared = shared

    def crc(self):
        if isinstance(self.data, SparseBytes):
            return self.data.crc() & M32
        return zlib.crc32(bytes(self.data)) & M32


class Table(object):
    def __init__(self, minn, maxn=None):
        self.elems = [None] * minn      # (instance, func index) | HostFunc | None
        self.max = maxn


class GlobalCell(object):
    def __init__(self, vt, mut, value):
        self.vt, self.mut, self.value = vt, mut, value


def host_result(index, args, rtype):
    """deterministic result of tracing host functions; mirrored by the C driver"""
    h = (index * 7919 + 12345) & M32
    for i, a in enumerate(args):
        h = (h + (a & M32) * (i + 3)) & M32
        h = (h + ((a >> 32) & M32) * (i + 11)) & M32
    if rtype == I32:
        return h
    if rtype == I64:
        return (h << 32 | (h ^ 0x5a5a5a5a)) & M64
    if rtype == F32:
        return int_to_f32(h & 0xffff)
    return int_to_f64(h)


class HostFunc(object):
    def __init__(self, index, ftype, trace, name=None):
        self.index, self.ftype, self.trace, self.name = index, ftype, trace, name

    def call(self, inst, args):
        for a in args:
            if isinstance(a, NDNaN):
                raise Indeterminate('nondeterministic NaN passed to host')
        self.trace.append(('H', self.index, inst.tag, tuple(args)))
        if inst.ev is not None:
            inst.ev['host_call'] += 1
            if len(args) >= 3 and len(set(self.ftype[0])) >= 2:
                inst.ev['host_call_mixed_args>=3'] += 1
            if inst.nimp_total > 1 and self.index > 0:
                inst.ev['host_call_not_first_import'] += 1
        rs = self.ftype[1]
        return host_result(self.index, args, rs[0]) if rs else None


CLASSIFY = None      # set by vf.hazard (avoids an import cycle)


class _Br(Exception):
    def __init__(self, depth):
        self.depth = depth
        self.orig = depth


class _Ret(Exception):
    pass


MAY_FAIL_PAGES = 16384      # grows above 1 GiB may legitimately fail


class Instance(object):
    """imports: dict (module bytes, name bytes) -> HostFunc | Memory | Table | GlobalCell | (Instance, funcidx)"""

    def __init__(self, module, imports=None, tag=0, fuel=2000000, hazards=None, events=None, byteorder='little'):
        self.m = m = module
        self.tag = tag
        self.fuel = fuel
        self.depth = 0
        self.funcs = []          # HostFunc | Func
        self.globals = []
        self.mem = None
        self.table = None
        self.dropped = set()
        self.hz = hazards
        self.bo = byteorder      # byte order of multi-byte accesses as the runtime under test implements it (C19)
        self.ev = events      # optional Counter of executed-path events (C03 classification)
        imports = imports or {}
        for mod, name, kind, desc in m.imports:
            obj = imports[(mod, name)]
            if kind == 'func':
                self.funcs.append(obj)
            elif kind == 'global':
                self.globals.append(obj)
            elif kind == 'memory':
                self.mem = obj
            else:
                self.table = obj
        self.nimp = len(self.funcs)
        self.nimp_total = len(m.imports)
        self.funcs.extend(m.funcs)
        if m.memory is not None:
            mn, mx = m.memory[0], m.memory[1]
            self.mem = Memory(mn, mx, len(m.memory) > 2 and m.memory[2])
        if m.table is not None:
            self.table = Table(m.table[0], m.table[1])
        for vt, mut, init in m.globals:
            self.globals.append(GlobalCell(vt, mut, self.const(init)))
        # element then data segments, in order (bulk-memory semantics: bounds failure = out of contract here)
        for off, fl in m.elems:
            o = self.const(off)
            if o + len(fl) > len(self.table.elems):
                raise OutOfContract('elem segment out of bounds')
            for i, f in enumerate(fl):
                self.table.elems[o + i] = (self, f)
        for mode, off, data in m.datas:
            if mode != 'active':
                continue
            o = self.const(off)
            if o + len(data) > len(self.mem.data):
                raise OutOfContract('data segment out of bounds')
            self.mem.data[o:o + len(data)] = data
        if m.start is not None:
            self.invoke(m.start, [])

    def const(self, ins):
        if ins[0] == 'global.get':
            return self.globals[ins[1]].value
        return ins[1]

    # ---- calls
    def export_index(self, name, kind='func'):
        for n, kd, i in self.m.exports:
            if n == name and kd == kind:
                return i
        raise KeyError(name)

    def invoke(self, fidx, args):
        """returns list of results; raises Trap / Indeterminate / OutOfContract"""
        r = self.call(fidx, list(args))
        return r

    def call(self, fidx, args):
        f = self.funcs[fidx]
        if isinstance(f, HostFunc):
            r = f.call(self, args)
            return [] if r is None else [r]
        if isinstance(f, tuple):      # function imported from another instance
            return f[0].call(f[1], args)
        self.depth += 1
        if self.depth > 150:
            raise OutOfContract('call depth')
        if self.ev is not None:
            if self.depth >= 3:
                self.ev['call_depth>=3'] += 1
            if len(args) >= 3 and len(set(self.m.types[f.type][0])) >= 2:
                self.ev['call_mixed_args>=3'] += 1
        ft = self.m.types[f.type]
        frame = _Frame(args + [0] * len(f.locals), len(args))
        try:
            try:
                self.block(frame, f.body, len(ft[1]), False)
            except _Ret:
                pass
        finally:
            self.depth -= 1
        n = len(ft[1])
        return frame.stack[len(frame.stack) - n:] if n else []

    def block(self, fr, body, arity, is_loop):
        st = fr.stack
        h = len(st)
        fr.depth += 1
        try:
            return self._block(fr, body, arity, is_loop, st, h)
        finally:
            fr.depth -= 1

    def _block(self, fr, body, arity, is_loop, st, h):
        while True:
            try:
                self.seq(fr, body)
                return
            except _Br as b:
                if b.depth:
                    b.depth -= 1
                    raise
                ev = self.ev
                if is_loop:
                    if ev is not None:
                        ev['loop_backedge'] += 1
                    del st[h:]
                    continue
                if ev is not None:
                    if len(st) - h - arity > 0:
                        ev['br_extra_operands'] += 1
                        if arity:
                            ev['br_value_extra_operands'] += 1
                    if b.orig >= 1:
                        ev['br_across_labels'] += 1
                        if arity:
                            ev['br_value_across_labels'] += 1
                if arity:
                    v = st[-1]
                    del st[h:]
                    st.append(v)
                else:
                    del st[h:]
                return

    def ea(self, base, ins, nbytes, atomic=False):
        a = base + ins[2]
        if a + nbytes > len(self.mem.data):
            raise OutOfContract('out of bounds memory access')
        if atomic and a % nbytes:
            raise OutOfContract('unaligned atomic')
        return a

    def seq(self, fr, body):
        st = fr.stack
        loc = fr.locals
        for ins in body:
            self.fuel -= 1
            if self.fuel < 0:
                raise OutOfContract('fuel')
            op = ins[0]
            fn = OPS.get(op)
            if fn is not None:
                if ARITY[op] == 2:
                    b = st.pop()
                    if self.hz is not None:
                        for c in CLASSIFY(op, st[-1], b):
                            self.hz[op + ':' + c] += 1
                    st[-1] = fn(st[-1], b)
                else:
                    if self.hz is not None:
                        for c in CLASSIFY(op, st[-1]):
                            self.hz[op + ':' + c] += 1
                    st[-1] = fn(st[-1])
            elif op == 'local.get':
                if self.ev is not None and ins[1] >= fr.nparams and ins[1] not in fr.written:
                    self.ev['local_read_before_write'] += 1
                st.append(loc[ins[1]])
            elif op == 'local.set':
                loc[ins[1]] = st.pop()
                if self.ev is not None:
                    fr.written.add(ins[1])
            elif op == 'local.tee':
                loc[ins[1]] = st[-1]
                if self.ev is not None:
                    fr.written.add(ins[1])
            elif op.endswith('.const'):
                st.append(ins[1])
            elif op == 'block':
                self.block(fr, ins[2], 1 if ins[1] else 0, False)
            elif op == 'loop':
                self.block(fr, ins[2], 1 if ins[1] else 0, True)
            elif op == 'if':
                c = st.pop()
                if c:
                    self.block(fr, ins[2], 1 if ins[1] else 0, False)
                elif ins[3] is not None:
                    self.block(fr, ins[3], 1 if ins[1] else 0, False)
                elif self.ev is not None:
                    self.ev['if_noelse_not_taken'] += 1
            elif op == 'br':
                raise _Br(ins[1])
            elif op == 'br_if':
                if st.pop():
                    raise _Br(ins[1])
            elif op == 'br_table':
                i = st.pop()
                if self.ev is not None:
                    self.ev['br_table_default_oob' if i >= len(ins[1]) else 'br_table_entry'] += 1
                raise _Br(ins[1][i] if i < len(ins[1]) else ins[2])
            elif op == 'return':
                if self.ev is not None:
                    self.ev['return_depth%d' % min(fr.depth, 3)] += 1
                raise _Ret()
            elif op == 'unreachable':
                raise Trap(TRAP_UNREACHABLE)
            elif op == 'nop':
                pass
            elif op == 'drop':
                st.pop()
            elif op == 'select':
                c = st.pop()
                b = st.pop()
                if not c:
                    st[-1] = b
            elif op == 'call':
                ft = self.m.func_type(ins[1])
                n = len(ft[0])
                args = st[len(st) - n:] if n else []
                if n:
                    del st[len(st) - n:]
                st.extend(self.call(ins[1], args))
            elif op == 'call_indirect':
                i = st.pop()
                tb = self.table.elems
                if i >= len(tb) or tb[i] is None:
                    raise OutOfContract('uninitialised table slot')
                ft = self.m.types[ins[1]]
                tgt = tb[i]
                if isinstance(tgt, HostFunc):
                    tft = tgt.ftype
                else:
                    tft = tgt[0].m.func_type(tgt[1])
                if tft != ft:
                    raise OutOfContract('indirect call signature mismatch')
                if self.ev is not None:
                    self.ev['call_indirect'] += 1
                    if i > 0:
                        self.ev['call_indirect_slot>0'] += 1
                    if isinstance(tgt, HostFunc) or tgt[1] < tgt[0].nimp:
                        self.ev['call_indirect_to_import'] += 1
                n = len(ft[0])
                args = st[len(st) - n:] if n else []
                if n:
                    del st[len(st) - n:]
                if isinstance(tgt, HostFunc):
                    r = tgt.call(self, args)
                    if r is not None:
                        st.append(r)
                else:
                    st.extend(tgt[0].call(tgt[1], args))
            elif op == 'global.get':
                st.append(self.globals[ins[1]].value)
            elif op == 'global.set':
                self.globals[ins[1]].value = st.pop()
            elif op in LOADS:
                _, t, nb, signed = LOADS[op]
                a = self.ea(st.pop(), ins, nb)
                v = int.from_bytes(self.mem.data[a:a + nb], self.bo)
                if signed and v >> (nb * 8 - 1):
                    v = (v - (1 << (nb * 8))) & (M32 if t == I32 else M64)
                st.append(v)
            elif op in STORES:
                _, t, nb = STORES[op]
                v = st.pop()
                if isinstance(v, NDNaN):
                    raise Indeterminate('store of nondeterministic NaN')
                a = self.ea(st.pop(), ins, nb)
                self.mem.data[a:a + nb] = (v & ((1 << (nb * 8)) - 1)).to_bytes(nb, self.bo)
            elif op == 'memory.size':
                st.append(self.mem.pages)
            elif op == 'memory.grow':
                st[-1] = self.grow(st[-1])
            elif op == 'memory.copy':
                n = st.pop(); s = st.pop(); d = st.pop()
                L = len(self.mem.data)
                if s + n > L or d + n > L:
                    raise OutOfContract('memory.copy out of bounds')
                self.mem.data[d:d + n] = bytes(self.mem.data[s:s + n])
            elif op == 'memory.fill':
                n = st.pop(); v = st.pop(); d = st.pop()
                if d + n > len(self.mem.data):
                    raise OutOfContract('memory.fill out of bounds')
                self.mem.data[d:d + n] = bytes([v & 0xff]) * n
            elif op == 'memory.init':
                n = st.pop(); s = st.pop(); d = st.pop()
                seg = b'' if ins[1] in self.dropped else self.m.datas[ins[1]][2]
                if s + n > len(seg) or d + n > len(self.mem.data):
                    raise OutOfContract('memory.init out of bounds')
                self.mem.data[d:d + n] = seg[s:s + n]
            elif op == 'data.drop':
                self.dropped.add(ins[1])
            elif op == 'atomic.fence':
                pass
            elif op in ATOMIC_LOADS:
                _, t, nb = ATOMIC_LOADS[op]
                a = self.ea(st.pop(), ins, nb, True)
                st.append(int.from_bytes(self.mem.data[a:a + nb], self.bo))
            elif op in ATOMIC_STORES:
                _, t, nb = ATOMIC_STORES[op]
                v = st.pop()
                a = self.ea(st.pop(), ins, nb, True)
                self.mem.data[a:a + nb] = (v & ((1 << (nb * 8)) - 1)).to_bytes(nb, self.bo)
            elif op in ATOMIC_RMW:
                _, t, nb, o = ATOMIC_RMW[op]
                v = st.pop() & ((1 << (nb * 8)) - 1)
                a = self.ea(st.pop(), ins, nb, True)
                old = int.from_bytes(self.mem.data[a:a + nb], self.bo)
                new = {'add': old + v, 'sub': old - v, 'and': old & v, 'or': old | v, 'xor': old ^ v, 'xchg': v}[o]
                self.mem.data[a:a + nb] = (new & ((1 << (nb * 8)) - 1)).to_bytes(nb, self.bo)
                st.append(old)
            elif op in ATOMIC_CMPXCHG:
                _, t, nb = ATOMIC_CMPXCHG[op]
                mask = (1 << (nb * 8)) - 1
                repl = st.pop() & mask
                exp = st.pop() & mask
                a = self.ea(st.pop(), ins, nb, True)
                old = int.from_bytes(self.mem.data[a:a + nb], self.bo)
                if old == exp:
                    self.mem.data[a:a + nb] = repl.to_bytes(nb, self.bo)
                st.append(old)
            elif op == 'memory.atomic.notify':
                st.pop()
                self.ea(st.pop(), ins, 4, True)
                st.append(0)
            elif op in ('memory.atomic.wait32', 'memory.atomic.wait64'):
                nb = 4 if op.endswith('32') else 8
                timeout = sgn(st.pop(), 64)
                exp = st.pop() & ((1 << (nb * 8)) - 1)
                a = self.ea(st.pop(), ins, nb, True)
                if not self.mem.shared:
                    raise OutOfContract('wait on unshared memory')
                cur = int.from_bytes(self.mem.data[a:a + nb], self.bo)
                if cur != exp:
                    st.append(1)
                elif timeout < 0:
                    raise OutOfContract('single-threaded infinite wait')
                else:
                    st.append(2)
            else:
                raise AssertionError('interp: unknown instruction %r' % (ins,))

    def grow(self, delta):
        mem = self.mem
        old = mem.pages
        new = old + delta
        lim = mem.max if mem.max is not None else 65536
        if new > lim or new > 65536:
            return M32
        hl = getattr(self, 'host_limit_pages', None)
        if hl is not None and not mem.shared and new >= 2 * hl:
            # the host process runs under an address-space limit of hl pages: an allocation of twice that cannot succeed - the grow
            # fails and changes nothing (scripts using the limit keep successful grows far below it)
            return M32
        if new > MAY_FAIL_PAGES:
            if getattr(self, 'may_fail_alt', False):
                self.alt_old = old          # both outcomes are acceptable; the model goes on with "failed"
                return M32
            raise Indeterminate('memory.grow beyond 1 GiB may fail')
        if mem.shared and mem.max is not None:
            pass
        mem.data.extend(bytes((new - old) * PAGE))
        mem.pages = new
        return old


class _Frame(object):
    __slots__ = ('locals', 'stack', 'nparams', 'written', 'depth')

    def __init__(self, locals, nparams=0):
        self.locals = locals
        self.stack = []
        self.nparams = nparams
        self.written = set()
        self.depth = 0
