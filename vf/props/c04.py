"""C04 — direct, indirect, recursive and imported calls reach the right function."""
from .. import f1, gen, e2e
from ..wasm import I32, I64, F32, F64

ID = 'C04'
LEVEL = 'exploration'
RULE = ('generated modules in calls mode: 0-4 imported host functions (0-8 mixed-type parameters, 0-1 result) plus env.trace, '
        '4-16 defined functions with 0-8 parameters of interleaved types calling earlier functions and imports directly and '
        'through call_indirect, bounded recursion templates (factorial, fibonacci, even/odd mutual recursion; accumulator recursion with declared locals and the recursive call in tail and non-tail positions: each call is a fresh activation), a defined or '
        'imported table filled by 1-4 element segments at constant or imported-global offsets, overlapping (later wins). Oracle = '
        'interpreter result + ordered trace (callee, argument bit patterns, instance tag == calling instance) printed by the '
        'host implementations in the driver; after instantiation every table slot is probed for the identity of the function '
        'it holds. Non-trivial = the call executes a host or defined call with >=3 arguments of >=2 types, a call_indirect '
        '(through slot > 0 / to an import), a host call to a non-first import, or reaches call depth >= 3; distinct by '
        '(body, args).')
ASSUME = ['reference interpreter calibrated against the spec-suite expectations in /repo/tests/gen (vf.spec)',
          'table slots used by call_indirect are initialised and of the expected signature by construction (w2c2 performs no check)']

FEAT = gen.Features(ops=gen.ALL_OPS, types=(I32, I64, F32, F64), control=True, calls=True, trace=True, stmts=True, globals_=True,
                    max_depth=4, dead_code=True)      # dead code too: calls / call_indirect whose immediates must still be decoded
INTERESTING = ('call_depth>=3', 'call_mixed_args>=3', 'host_call_mixed_args>=3', 'host_call_not_first_import', 'call_indirect',
               'call_indirect_slot>0', 'call_indirect_to_import')


def nontrivial(m, script, model, meta):
    out = []
    ci = 0
    fex = [(n, i) for n, kd, i in m.exports if kd == 'func']
    nimp = m.n_imported_funcs()
    for op, lines in model.steps:
        if op[0] != 'call':
            continue
        ev = model.call_ev[ci] if ci < len(model.call_ev) else frozenset()
        ci += 1
        classes = set(e for e in ev if e in INTERESTING)
        if classes and meta.get('info', {}).get('static', {}).get('same_field_other_module') and any(c.startswith('host_call') for c in classes):
            classes.add('host_call_with_same_field_imported_from_two_modules')
        if classes:
            fidx = fex[op[2]][1]
            out.append((f1.hx((repr(m.funcs[fidx - nimp].body), tuple(op[3]))), classes))
    return out


@f1.maker('c04_calls')
def make_calls(ch, params):
    nf = 4 + ch.below(params.get('nfuncs', 12))
    imported_table = ch.below(4) == 0
    ig = 1 if ch.below(3) == 0 else 0
    feat = FEAT
    m, info = gen.general_module(ch, feat, nfuncs=nf, host_funcs=ch.below(5), with_trace=True, nglobals=ch.below(3),
                                 table=not imported_table, imported_table=imported_table, max_params=8, recursion=True,
                                 imported_globals=ig)
    gv = {}
    if ig:
        gi = [i for i, im in enumerate(m.imports) if im[2] == 'global'][0]
        if m.imports[gi][3][0] == I32:
            gv[gi] = info.get('elem_global_value', 0)
    script = e2e.default_setup(m, 1, glob_values=gv)
    for slot in sorted(info.get('table_map', {})):
        script.append(('slot', 0, slot))
    script += gen.call_script(ch, m, params.get('nargs', 8))
    if ch.below(2) == 0 and not imported_table:
        # (not with an imported table: the child's element segments would then rewrite entries of the table the parent uses, and
        # entries written by another instance are cross-instance calls, which generated code - bare function pointers called with
        # the caller's instance - does not model; the property speaks of the calls of one instance)
        # instance life cycle: a child instance made through the parent's newChild hook, used, and released again by the embedder
        # (<module>FreeInstance + free); the parent's table, its calls and indirect calls are not affected by any of it
        script.append(('child', 100, 0))
        for slot in sorted(info.get('table_map', {}))[:4]:
            script.append(('slot', 100, slot))
        script += gen.call_script(ch, m, 1, inst=100)
        script.append(('freechild', 100))
        for slot in sorted(info.get('table_map', {})):
            script.append(('slot', 0, slot))
        script += gen.call_script(ch, m, 2)
        info.setdefault('static', {})['child_created_and_freed'] = True
    return m, script, {'nontrivial_fn': nontrivial, 'ninst': 1, 'info': info}


def plan(tier, seed):
    if tier == 'quick':
        ccs = ['gcc-O0', 'clang-O2', 'gcc-O2', 'clang-O0']
        return [{'maker': 'c04_calls', 'ncases': 40, 'ccs': ccs, 'nfuncs': 12, 'nargs': 8, 'shrink_budget': 25} for _ in range(32)]
    ccs = ['gcc-O0', 'clang-O2', 'gcc-O2', 'clang-O0', 'gcc-O3', 'clang-O3', 'gcc-O0-gnu89', 'clang-O2-gnu89']
    return [{'maker': 'c04_calls', 'ncases': 400, 'ccs': ccs, 'nfuncs': 20, 'nargs': 12, 'shrink_budget': 40} for _ in range(64)]


def replay(rp):
    return f1.case_replay(rp)


def run(tier, seed):
    return f1.standard_run(ID, LEVEL, RULE, ASSUME, plan(tier, seed), f1.case_task, replay, tier, seed)
