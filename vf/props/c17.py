"""C17 — memory.atomic.wait / notify: no lost wake-ups, exact counts, exact return codes."""
import collections

import os
import subprocess

from .. import f1, sched, cexec, wasm
from ..choice import Chooser, shrink

ID = 'C17'
LEVEL = 'exploration'
RULE = ('vsched harness (real pthreads, one baton; every pthread_mutex_*/cond_* call of futex.c and w2c2_base.h is redirected by '
        'the linker into a model scheduler whose choices - next runnable thread, spurious condition-variable wake-ups, the waiter '
        'picked by signal, firing of timeouts - are read from a generated decision string) around a w2c2-translated shared-memory '
        'module whose memory.atomic.wait32/wait64/notify and atomic stores all carry the static offset 16: 2-5 threads, each a '
        'generated list of wait32/wait64(addr, expected, timeout in {-1, 0, finite}), notify(addr, count in {0,1,2,inf}), '
        'store(addr, v); addresses include groups colliding in the 1024 hash buckets (a, a+1024, a+2048); a closing phase '
        'notifies every address whenever nothing else can run. Oracle: linearizable model with the acquisition of the memory '
        'mutex as linearization point (effective address = operand + static offset): wait returns 1 iff the cell differs, else '
        'blocks; notify returns min(count, blocked waiters of that address) and never touches other addresses; every 0-return is '
        'matched by exactly one counted wake-up of the same address; 2 only for timed waits not already counted; no '
        'scheduler-detected deadlock, no stuck waiter after notify(inf), ASan/UBSan silent. Non-trivial = schedule with a notify '
        'while waiters are blocked on >= 2 addresses or several on one, a timeout/notify race, a spurious wake-up, or live '
        'bucket-colliding addresses; distinct by (programs, decision string). Unit level (rapidcheck, ASan+UBSan): futex/map.c + '
        'futex/list.c driven as futex.c drives them (insert absent keys only, slot pointers held across other operations, waiters '
        'prepended and removed through their slot) against std::map / std::vector over generated histories with bucket-colliding '
        'keys and with hundreds of distinct addresses parked at once: lookups, list order, slot stability, removal results, and '
        'mapFree releasing every remaining value exactly once. Virtual clock: clock_gettime and gettimeofday of the code under test are interposed; time stands still while threads run, jumps to the deadline when a timeout fires and moves part of the way when a timed waiter is woken spuriously; a wait that answers timed-out before its timeout has elapsed on that clock is a violation.')
ASSUME = ['vsched models pthread semantics (spurious wake-ups allowed, signal wakes any one waiter, timedwait may time out at any '
          'point); liveness is a scheduler choice, not real time', 'the search samples schedules; it does not enumerate them']

ADDR_SETS = [[64, 64 + 4096, 64 + 8192, 128], [8, 1032 * 4 + 8 - 4096 + 4096, 200, 2056 * 4 + 8], [0, 4096, 8192, 12288], [40, 48, 4136, 56],
             # effective address (operand + static offset 16) in the last 8 bytes of the first page = end of the initial memory
             [65536 - 8 - 16, 64, 65536 - 8 - 16 - 4096]]


VALS64 = (0, 0, 0, 1, 7, 1 << 32, 1 << 32, (1 << 32) | 1, 7 << 32, 1 << 63)


def gen_case(ch, params):
    T = 2 + ch.below(4)
    addrs = list(ch.pick(ADDR_SETS))[:2 + ch.below(3)]
    threads = {}
    for t in range(1, T + 1):
        ops = []
        for _ in range(1 + ch.below(params.get('maxops', 6))):
            k = ch.below(10)
            a = ch.pick(addrs)
            if k < 4:
                w64 = ch.below(3) == 0
                # 64-bit waits / stores also use values that agree in the low half and differ only in bits 32..63
                exp = ch.pick(VALS64) if w64 else ch.pick((0, 0, 0, 1, 7))
                timeout = ch.pick((-1, -1, 0, 1000000, 1000000, (1 << 63) - 1, (1 << 63) - 2, 999999999, 1000000000, 4000000000))
                ops.append([1 if w64 else 0, a, exp, timeout])
            elif k < 7:
                ops.append([2, a, ch.pick((0, 1, 1, 2, 0xffffffff)), 0])
            elif ch.below(4) == 0:
                ops.append([4, a, ch.pick(VALS64), 0])
            else:
                ops.append([3, a, ch.pick((0, 1, 7)), 0])
        threads[str(t)] = ops
    nd = ch.pick((0, 8, 40, 120, 300))
    dec = bytes(ch.below(256) for _ in range(nd)).hex()
    return {'threads': threads, 'addrs': addrs, 'decisions': dec, 'spurious': ch.pick((0, 1, 3)), 'imported': ch.below(4) == 0,
            'ndebug': ch.below(5) == 0,
            # the runtime's big-endian code paths (forced with -DWASM_ENDIAN=1): the wait protocol reads the cell through them
            'be': ch.below(5) == 0}


def evaluate(case):
    """returns None or (sig, msg); and classes"""
    st, events, extra = sched.run_case(case)
    if st == 'timeout':
        return ('timeout', 'harness did not finish'), set()
    if st == 'deadlock':
        return ('deadlock', 'scheduler-detected deadlock: ' + extra.get('stderr', '')[-300:]), set()
    if st == 'stuck':
        return ('stuck-waiter', 'a waiter stayed blocked although every address was notified with count=inf (lost waiter)'), set()
    if st != 'ok':
        key = ([l for l in extra.get('stderr', '').splitlines() if 'ERROR' in l or 'runtime error' in l or 'VSCHED' in l or 'Assertion' in l] or [st])[0]
        return ('crash:' + f1.normalize_diag(key), 'harness %s: %s' % (st, extra.get('stderr', '')[:900])), set()
    bad, classes = sched.check_futex(case, events)
    if extra.get('early') and not bad:
        tid, idx, elapsed, tmo = extra['early'][0]
        bad = ('early-timeout', 'thread %d op %d: wait returned 2 (timed-out) %d ns after it began although its timeout is %d ns (virtual clock: time passes only '
               'when a timeout fires or a timed waiter is woken spuriously; %d spurious wake-ups in this schedule)' % (tid, idx, elapsed, tmo, extra.get('spurious', -1)))
    if extra.get('spurious', 0) >= 2 and any(op[0] in (0, 1) and 0 < op[3] < (1 << 50) for ops in case['threads'].values() for op in ops):
        classes = set(classes) | {'timed_wait_schedule_with>=2_spurious_wakeups'}
    if case.get('be') and classes:
        classes = set(classes) | {'big_endian_runtime_paths'}
    return bad, classes


def task(wid, seed, params):
    res = {'evaluations': 0, 'nontrivial': set(), 'classes': collections.Counter(), 'samples': [], 'violations': [],
           'infra': [], 'extra': collections.Counter()}
    for ci in range(params['ncases']):
        ch = Chooser(seed * 1000003 + ci)
        case = gen_case(ch, params)
        # several decision strings per program
        for si in range(params['schedules']):
            if si:
                c2 = Chooser(seed * 7919 + ci * 131 + si)
                case = dict(case)
                case['decisions'] = bytes(c2.below(256) for _ in range(c2.pick((8, 40, 120, 300, 600)))).hex()
                case['spurious'] = c2.pick((0, 1, 3))
            try:
                bad, classes = evaluate(case)
            except cexec.InfraError as e:
                res['infra'].append(str(e))
                break
            res['evaluations'] += 1
            for c in classes:
                res['classes'][c] += 1
            if classes:
                res['nontrivial'].add(f1.hx(repr(case)))
            if ci < 1 and si < 2:
                res['samples'].append({'threads': case['threads'], 'decisions': case['decisions'][:40], 'classes': sorted(classes)})
            if bad and len(res['violations']) < 2:
                sig, msg = bad
                case = minimise(case, sig)
                b2, _ = evaluate(case)
                if b2:
                    msg = b2[1]
                res['violations'].append({'signature': 'c17:' + sig, 'summary': msg[:700], 'replay': {'kind': 'sched', 'case': case, 'message': msg[:2000]}})
                break
    res['extra'] = dict(res['extra'])
    return res


def minimise(case, sig, budget=80):
    """shrink programs (drop ops / threads) and the decision string while the same failure persists"""
    used = [0]

    def fails(c):
        if used[0] >= budget:
            return False
        used[0] += 1
        b, _ = evaluate(c)
        return b is not None and b[0] == sig
    best = case
    improved = True
    while improved and used[0] < budget:
        improved = False
        for t in sorted(best['threads']):
            ops = best['threads'][t]
            for i in range(len(ops)):
                c = dict(best)
                c['threads'] = dict(best['threads'])
                c['threads'][t] = ops[:i] + ops[i + 1:]
                if not c['threads'][t]:
                    del c['threads'][t]
                    # renumber threads 1..n
                    c['threads'] = {str(k + 1): v for k, (_, v) in enumerate(sorted(c['threads'].items(), key=lambda x: int(x[0])))}
                if c['threads'] and fails(c):
                    best = c
                    improved = True
                    break
            if improved:
                break
        d = bytes.fromhex(best['decisions'])
        for cut in (len(d) // 2, len(d) // 4, 1):
            if cut and len(d) > 0:
                c = dict(best)
                c['decisions'] = d[:len(d) - cut].hex()
                if fails(c):
                    best = c
                    improved = True
                    break
    return best


# ------------------------------------------------------------------------------------------------ real threads: first wait of a memory
# vsched switches threads only at synchronisation calls; an access that bypasses the mutex altogether (a lock-free "fast path")
# is invisible to it.  This job runs the hand-over  { T1: wait32(a, 0, no timeout) }  ||  { T2: store32(a, 1); notify(a, 1) }  with real
# threads on a FRESH memory each round (the first wait creates the wait-list structures) with a swept start skew, in an optimised
# build and in a ThreadSanitizer build.  Whatever the interleaving, exactly two outcomes are linearizable:
#   (wait = 1 not-equal, notify = 0)  - the store came before the waiter looked
#   (wait = 0 woken,     notify = 1)  - the waiter was enqueued before the notify took the mutex
# any other pair is a phantom count, and a lost wake-up leaves the waiter blocked for good: a watchdog (alarm, 120 s per round
# where a round takes microseconds) ends the run with a distinct status; any ThreadSanitizer report is a data race.
RACE_DRIVER = r'''
#include <stdio.h>
#include <stdlib.h>
#include <string.h>
#include <pthread.h>
#include <unistd.h>
#include <signal.h>
#include "m.h"
void trap(Trap t) { fprintf(stderr, "trap %d\n", (int)t); abort(); }
static void on_alarm(int s) { static const char msg[] = "HANG: a waiter was never woken\n"; (void)s; (void)!write(1, msg, sizeof msg - 1); _exit(4); }
#ifdef VF_IMPORTED_MEMORY
static wasmMemory* vf_shared;
static void* vf_resolve(const char* module, const char* name) {
    (void)module;
    if (strcmp(name, "memory") == 0) return vf_shared;
    return NULL;
}
#define VF_RESOLVER vf_resolve
#else
#define VF_RESOLVER NULL
#endif
static mInstance* inst;
static pthread_barrier_t bar;
static volatile int skew_w, skew_n;
static U32 ADDR;
static U32 wres, nres;
static void spin(int n) { volatile int k; for (k = 0; k < n; k++) { } }
static void* waiter(void* p) { (void)p; pthread_barrier_wait(&bar); spin(skew_w); wres = m_wait32(inst, ADDR, 0, (U64)-1); return NULL; }
static void* notifier(void* p) { (void)p; pthread_barrier_wait(&bar); spin(skew_n); m_store32(inst, ADDR, 1); nres = m_notify(inst, ADDR, 1); return NULL; }
int main(int argc, char** argv) {
    int rounds = atoi(argv[1]), r, bad = 0; unsigned long c10 = 0, c01 = 0;
    (void)argc;
    ADDR = (U32)atoi(argv[2]);
    signal(SIGALRM, on_alarm);
    for (r = 0; r < rounds; r++) {
        pthread_t a, b;
        alarm(120);
        inst = (mInstance*)calloc(1, sizeof(mInstance));
#ifdef VF_IMPORTED_MEMORY
        vf_shared = wasmMemoryAllocate(1, VF_IMPORTED_MEMORY, true);
#endif
        mInstantiate(inst, VF_RESOLVER);
        skew_w = (r % 7) * 40; skew_n = ((r / 7) % 9) * 40;
        pthread_barrier_init(&bar, NULL, 2);
        pthread_create(&a, NULL, waiter, NULL); pthread_create(&b, NULL, notifier, NULL);
        pthread_join(a, NULL); pthread_join(b, NULL);
        pthread_barrier_destroy(&bar);
        if (wres == 1 && nres == 0) c10++;
        else if (wres == 0 && nres == 1) c01++;
        else { if (bad++ < 3) printf("BAD round %d: wait returned %u, notify returned %u\n", r, wres, nres); }
    }
    printf("R %d %lu %lu %d\n", rounds, c10, c01, bad);
    return bad ? 3 : 0;
}
'''
_race = {}


def race_binary(tsan, imported):
    key = (tsan, imported)
    if key in _race and os.path.exists(_race[key]):
        return _race[key]
    d = cexec.new_dir('rw')
    tr = cexec.translate(wasm.encode(sched.harness_module(imported)), d, 'm', (), 'plain')
    if tr.rc != 0:
        raise cexec.InfraError('translate failed')
    open(os.path.join(d, 'drv.c'), 'w').write(RACE_DRIVER)
    cmd = ['clang', '-g', '-w'] + (['-O1', '-fsanitize=thread'] if tsan else ['-O2']) + \
        (['-DVF_IMPORTED_MEMORY=%d' % sched.MAXPAGES] if imported else []) + \
        ['-DWASM_THREADS_PTHREADS', '-I', os.path.join(cexec.REPO, 'w2c2'), '-I', os.path.join(cexec.REPO, 'futex'), 'drv.c', 'm.c'] + \
        [os.path.join(cexec.REPO, 'futex', f) for f in cexec.FUTEX_SRCS] + ['-o', 'rw', '-lpthread', '-lm']
    r = cexec.run(cmd, cwd=d)
    if r.returncode != 0:
        raise cexec.InfraError('building the first-wait race harness failed: %s' % r.stderr.decode(errors='replace')[-1200:])
    _race[key] = os.path.join(d, 'rw')
    return _race[key]


def run_race(case):
    exe = race_binary(case['tsan'], case['imported'])
    env = dict(os.environ)
    env['TSAN_OPTIONS'] = 'exitcode=96:report_thread_leaks=0'
    try:
        r = subprocess.run([exe, str(case['rounds']), str(case['addr'])], stdout=subprocess.PIPE, stderr=subprocess.PIPE, env=env, timeout=600)
    except subprocess.TimeoutExpired:
        return ('race-timeout', 'first-wait race harness did not finish (a waiter hangs?)'), None
    out = r.stdout.decode(errors='replace')
    stats = None
    for ln in out.splitlines():
        if ln.startswith('R '):
            stats = [int(x) for x in ln.split()[1:]]
    if r.returncode == 4:
        return ('race-lost-wakeup', 'first wait of a memory racing with store+notify: the waiter was never woken (watchdog after 120 s)'), stats
    if r.returncode == 3:
        return ('race-outcome', 'first wait of a memory racing with store+notify: ' + ' | '.join(l for l in out.splitlines() if l.startswith('BAD'))[:400]), stats
    if r.returncode != 0:
        err = r.stderr.decode(errors='replace')
        locs = [l.strip() for l in err.splitlines() if l.strip().startswith('#0')][:2]
        return ('race-tsan:' + f1.normalize_diag(' '.join(locs))[:80], 'ThreadSanitizer / crash in the first-wait race harness (exit %d): %s' % (r.returncode, err[:1200])), stats
    return None, stats


def race_task(wid, seed, params):
    res = {'evaluations': 0, 'nontrivial': set(), 'classes': collections.Counter(), 'samples': [], 'violations': [],
           'infra': [], 'extra': collections.Counter()}
    for ci in range(params['ncases']):
        ch = Chooser(seed * 1000003 + ci)
        case = {'kind': 'race', 'tsan': bool(ci % 2), 'imported': ch.below(3) == 0, 'rounds': params['rounds'] // (8 if ci % 2 else 1),
                'addr': ch.pick((64, 4096, 65536 - 8 - 16))}
        try:
            bad, stats = run_race(case)
        except cexec.InfraError as e:
            res['infra'].append(str(e))
            break
        if stats:
            res['evaluations'] += stats[0]
            res['classes']['race_store_first'] += stats[1]
            res['classes']['race_waiter_first'] += stats[2]
            if stats[1] and stats[2]:
                res['nontrivial'].add(f1.hx(repr(case)))
        res['classes']['race_tsan_build' if case['tsan'] else 'race_O2_build'] += 1
        if bad and not res['violations']:
            res['violations'].append({'signature': 'c17:' + bad[0], 'summary': bad[1][:800], 'replay': {'kind': 'race', 'case': case, 'message': bad[1][:2500]}})
    if res['evaluations']:
        res['samples'].append('first-wait races with real threads: both orders observed = %s' % bool(res['nontrivial']))
    res['extra'] = dict(res['extra'])
    return res


RCMAP_CMD = ['clang++', '-std=gnu++17', '-g', '-O1', '-fsanitize=address,undefined', '-fno-sanitize-recover=undefined']


def rcmap_binary():
    """rapidcheck model test of futex/map.c + futex/list.c (compiled as C, with ASan+UBSan) against std::map"""
    import hashlib
    import re
    fx = os.path.join(cexec.REPO, 'futex')
    mt = re.search(r'#define\s+FUTEX_BUCKET_COUNT\s+(\d+)', open(os.path.join(fx, 'futex.c')).read())
    buckets = int(mt.group(1)) if mt else 1024
    cd = cexec.cache_dir()
    objs = []
    for c in ('map.c', 'list.c'):
        o = os.path.join(cd, 'rcmap-' + c[:-2] + '.o')
        if not os.path.exists(o):
            r = cexec.run(['clang', '-g', '-O1', '-w', '-fsanitize=address,undefined', '-fno-sanitize-recover=undefined',
                           '-DWASM_THREADS_PTHREADS', '-I', os.path.join(cexec.REPO, 'w2c2'), '-c', os.path.join(fx, c), '-o', o + '.%d.tmp' % os.getpid()])
            if r.returncode != 0:
                raise cexec.InfraError('building %s failed: %s' % (c, r.stderr.decode(errors='replace')[-1500:]))
            os.rename(o + '.%d.tmp' % os.getpid(), o)
        objs.append(o)
    return cexec.build_unit('rc_futexmap.cpp', 'rc_futexmap', RCMAP_CMD + ['-DVF_BUCKETS=%d' % buckets, '-DWASM_THREADS_PTHREADS'], extra_args=objs,
                            libs=['-lrapidcheck', '-lpthread'])


def rcmap_run(seed, n):
    exe = rcmap_binary()
    env = dict(os.environ)
    env.update(cexec.ASAN_ENV)
    env['RC_PARAMS'] = 'seed=%d max_success=%d max_size=%d' % (seed % (1 << 31), n, 200)
    r = subprocess.run([exe], stdout=subprocess.PIPE, stderr=subprocess.PIPE, env=env, timeout=3000)
    return r, r.stdout.decode(errors='replace'), r.stderr.decode(errors='replace')


def rcmap_task(wid, seed, params):
    import re
    res = {'evaluations': 0, 'nontrivial': set(), 'classes': collections.Counter(), 'samples': [], 'violations': [],
           'infra': [], 'extra': {}}
    r, out, err = rcmap_run(seed, params['n'])
    mt = re.search(r'RC-STATS cases=(\d+) ops=(\d+) collide=(\d+) many=(\d+) maxlive=(\d+) listops=(\d+)', out)
    if mt:
        res['evaluations'] = int(mt.group(1))
        res['classes']['futexmap_history_with_live_colliding_keys'] = int(mt.group(3))
        res['classes']['futexmap_history_with_hundreds_of_parked_addresses'] = int(mt.group(4))
        res['extra'] = {'futexmap_operations': int(mt.group(2)), 'futexmap_max_live_waiters': int(mt.group(5))}
        for i in range(int(mt.group(3)) + int(mt.group(4))):
            res['nontrivial'].add('rcmap%d-%d-%d' % (seed, wid, i))
    if r.returncode != 0 or 'Falsifiable' in out:
        key = ([l for l in (out + err).splitlines() if 'ERROR: AddressSanitizer' in l or 'runtime error' in l or 'RC_ASSERT' in l or 'Falsifiable' in l] or ['exit %r' % r.returncode])[0]
        head = out[max(out.find('Falsifiable') - 100, 0):][:900] if 'Falsifiable' in out else (out[-300:] + err[-1200:])
        res['violations'].append({'signature': 'c17:rc_futexmap:' + f1.normalize_diag(key), 'summary': 'futex map / wait list model test failed: ' + head[:700],
                                  'replay': {'kind': 'rcmap', 'seed': seed % (1 << 31), 'n': params['n'], 'output': head}})
    res['samples'].append('rapidcheck futex map: ' + (mt.group(0) if mt else (out + err)[-200:]))
    return res


def dispatch(wid, seed, params):
    if params.get('rcmap'):
        return rcmap_task(wid, seed, params)
    if params.get('race'):
        return race_task(wid, seed, params)
    return task(wid, seed, params)


def replay(rp):
    if rp.get('kind') == 'rcmap':
        r, out, err = rcmap_run(rp['seed'], rp['n'])
        return r.returncode != 0 or 'Falsifiable' in out
    if rp.get('kind') == 'race':
        for _ in range(3):
            bad, _ = run_race(rp['case'])
            if bad:
                return True
        return False
    bad, _ = evaluate(rp['case'])
    return bad is not None


def plan(tier, seed):
    if tier == 'quick':
        return [{'ncases': 60, 'schedules': 12, 'maxops': 6} for _ in range(32)] + [{'race': True, 'ncases': 2, 'rounds': 4000} for _ in range(4)] + [{'rcmap': True, 'n': 1500} for _ in range(2)]
    return [{'ncases': 1200, 'schedules': 25, 'maxops': 8} for _ in range(64)] + [{'race': True, 'ncases': 6, 'rounds': 40000} for _ in range(8)] + [{'rcmap': True, 'n': 6000} for _ in range(16)]


def run(tier, seed):
    return f1.standard_run(ID, LEVEL, RULE, ASSUME, plan(tier, seed), dispatch, replay, tier, seed)
