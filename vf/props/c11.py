"""C11 — generated C is well-defined: same results for every compiler and -O level."""
import collections
import os

from .. import f1, gen, e2e, wasm, cexec, interp, runner
from ..choice import Chooser
from ..wasm import I32, I64, F32, F64
from . import c01, c02, c03, c04, c05, c06  # noqa: F401  (registers the makers reused here)

ID = 'C11'
LEVEL = 'exploration'
RULE = ('(a) flat: every numeric operator x (boundary pool x boundary pool, exhaustive) + seeded random operands, NON-trapping '
        'evaluations only, in gcc and clang builds with -fsanitize=undefined,address(,float-cast-overflow) -fno-sanitize-recover: '
        'the result must equal the interpreter and no report may appear; (b) modules from the expr / ctrl / calls / mem / inst generators with scripts reduced to NON-trapping, in-bounds calls '
        '(trapping calls are removed and the model re-run), plus a names generator (exotic import/export/function names). Each '
        'module is translated once and built under cells of the matrix {gcc, clang} x {-O0,-O1,-O2,-O3} x {-std=gnu89, default; plus gnu99 / gnu11 / gnu2x cells} x '
        '{plain, -fsanitize=undefined,address,float-cast-overflow -fno-sanitize-recover}; quick: 6 cells per module chosen '
        'round-robin so that every run covers the whole matrix, thorough: all 32 cells. Oracle: no compile error, no sanitizer '
        'report / non-zero exit, every build prints exactly the interpreter transcript (hence identical across builds). '
        'Non-trivial = script executes a signed-view operation on a negative value, a shift/rotate with count >= width, an '
        'unaligned access, a float->int conversion near a boundary, an overflowing multiply/add, or the module is built with a '
        'sanitizer cell; distinct by (module, cell). Makers include switch-like functions (br_table with thousands of entries) and dense-switch functions of 100-400 nested blocks (block nesting only).')
ASSUME = ['reference interpreter calibrated against the spec suite', 'gcc 12.2 / clang 14 sanitizers report what they document',
          'signalling-NaN immediates/arguments are excluded by construction (known finding C02-snan-*)']

SAN = ['-g', '-fsanitize=undefined,address,float-cast-overflow', '-fno-sanitize-recover=all']
CELLS = []
for _cc in ('gcc', 'clang'):
    for _o in ('-O0', '-O1', '-O2', '-O3'):
        for _std in ((), ('-std=gnu89',)):
            for _san in ((), tuple(SAN)):
                CELLS.append((_cc, (_o,) + _std + _san))
# "GNU-dialect C89 and later": the later language levels as well (C99 inline semantics, C11, C2x keywords such as bool / true / false
# becoming reserved words), a few cells each
for _cc in ('gcc', 'clang'):
    for _o, _std in (('-O0', '-std=gnu99'), ('-O2', '-std=gnu11'), ('-O1', '-std=gnu2x'), ('-O2', '-std=gnu99'), ('-O0', '-std=gnu2x')):
        CELLS.append((_cc, (_o, _std)))
MAKERS = ['c02_expr', 'c03_ctrl', 'c04_calls', 'c05_history', 'c06_inst', 'c11_names', 'c03_ctrl', 'c01_expr', 'c11_deep', 'c03_switch']

HAZ = ('signbit', 'count>=width', 'carry', 'truncboundary', 'div-1', 'dividendMIN')

NAME_POOL = [b'a-b', b'x.y', b'1abc', b'X', b'a__b', b'with space', b'\xc3\xa9t\xc3\xa9', b'%d%s%n', b'a/b', b'$', b'_', b'__',
             b'tab\there', b'{}', b'semi;colon', b'long' * 60, b'\xf0\x9f\x98\x80', b"quote'", b'a?b:c', b'#x', b'X41', b'int',
             b'main', b'trap', b'memcpy', b'i', b'l0', b'si0', b'f0', b'mInstance', b'U32', b'*/', b'/*', b'//', b'??/', b'%',
             b'\x01', b'\x7f', b'return', b'NULL', b'errno', b'say "hi"', b'back\\slash', b'new\nline', b'cr\rhere', b'"',
             b'\\', b'\\"', b'end\\']


@f1.maker('c11_names')
def make_names(ch, params):
    m = wasm.Module()
    T = m.type_index
    used = set()

    def nm():
        for _ in range(20):
            n = ch.pick(NAME_POOL)
            if ch.below(4) == 0:
                n = n + ch.pick(NAME_POOL)
            if n not in used:
                used.add(n)
                return n
        n = b'n%d' % len(used)
        used.add(n)
        return n
    nimp = 1 + ch.below(3)
    for i in range(nimp):
        # byte >= 0x80 in an import name that is called: fixed defect (stack buffer overflow); still generated
        m.imports.append((nm() if ch.below(2) else b'env', nm(), 'func', T((I32,), (I32,))))
    nf = 2 + ch.below(5)
    for i in range(nf):
        body = [('local.get', 0), ('i32.const', i + 1), ('i32.add',)]
        if ch.below(2):
            body += [('call', ch.below(nimp))]
        m.funcs.append(wasm.Func(T((I32,), (I32,)), [], body))
        m.exports.append((nm(), 'func', nimp + i))
    if ch.below(2):
        m.memory = (1, None)
        m.exports.append((nm(), 'memory', 0))
    if ch.below(2):
        m.func_names = {nimp + i: nm() for i in range(nf) if ch.below(2)}
    script = [('inst', 0)] + [('call', 0, e, [ch.below(100)]) for e in range(nf)]
    return m, script, {'ninst': 1, 'classes': {'exotic_names': 1}}


@f1.maker('c11_deep')
def make_deep(ch, params):
    """a dense-switch function: hundreds of nested blocks around one br_table (block nesting only - loops and ifs become nested C
    statements, and compilers limit how deep those may go: clang's default bracket depth is 256)"""
    from . import c03
    return c03.make_switch(ch, dict(params, deep=True))


def detrap(m, script, ninst):
    """remove trapping calls (and re-run the model) until the script is trap-free; returns ModelRun"""
    for _ in range(4):
        model = e2e.ModelRun(m, script, ninst=ninst)
        bad = set()
        for i, (op, lines) in enumerate(model.steps):
            if op[0] in ('call', 'inst') and lines and lines[-1].startswith('T'):
                bad.add(i)
        if not bad:
            return model, script
        ops = [op for op, lines in model.steps]
        first = min(bad)
        if ops[first][0] == 'inst':
            return None, script
        script = [op for i, op in enumerate(ops) if i not in bad]
    model = e2e.ModelRun(m, script, ninst=ninst)
    return model, script


def cell_name(cell):
    return cell[0] + ' ' + ' '.join(cell[1])


def run_cells(m, model, cells, ninst, wasm_bytes=None, opts=()):
    """translate once, build + run under each cell; returns list of (cell, status, detail)"""
    cells = [(c[0], f1.toolchain_cflags(c[0], c[1], model)) + tuple(c[2:]) for c in cells]
    b = e2e.Built(m, wasm_bytes=wasm_bytes, cc=cells[0][0], cflags=cells[0][1], ninst=ninst, w2c2_options=opts)
    out = []
    try:
        if b.error and b.error[0] == 'translate':
            return [(cells[0], 'translate', b.error[1])], b.wasm
        for ci, cell in enumerate(cells):
            if ci == 0:
                err = b.error
            else:
                r = cexec.compile_driver(b.dir, b.cfiles, cell[0], cell[1], threads=cexec.needs_threads(m), exe='drv')
                err = ('compile', r.stderr.decode(errors='replace')[-4000:]) if r.returncode != 0 else None
            if err:
                out.append((cell, 'compile', err[1]))
                continue
            rc, actual, stderr = b.run(model.script_lines)
            if rc != 0 and rc != 'timeout':
                rc2, actual2, stderr2 = b.run(model.script_lines, unbuffered=True)
                if rc2 != 0:
                    rc, actual, stderr = rc2, actual2, stderr2
            mm = e2e.first_mismatch(model.lines, actual)
            if rc != 0:
                out.append((cell, 'crash', {'rc': rc, 'stderr': stderr.decode(errors='replace')[-3000:], 'actual': actual,
                                            'mismatch': mm if mm is not None else len(actual)}))
            elif mm is not None:
                out.append((cell, 'mismatch', {'actual': actual, 'mismatch': mm}))
            else:
                out.append((cell, 'ok', None))
        return out, b.wasm
    finally:
        b.close()


def signature(status, detail):
    if status in ('compile', 'translate'):
        first = ''
        for ln in detail.splitlines():
            if 'error' in ln:
                first = ln.strip()
                break
        return '%s-error:%s' % (status, f1.normalize_diag(first))
    if status == 'crash':
        key = ''
        for ln in detail['stderr'].splitlines():
            if 'runtime error' in ln or 'Sanitizer' in ln:
                key = f1.normalize_diag(ln.strip())
                break
        return 'crash:%s:%s' % (detail['rc'], key)
    return 'mismatch'


def fails(m, script, cell, ninst, sig=None, wasm_bytes=None):
    model, script2 = detrap(m, script, ninst)
    if model is None:
        return False
    res, _ = run_cells(m, model, [cell], ninst, wasm_bytes=wasm_bytes)
    st, detail = res[0][1], res[0][2]
    if st == 'ok':
        return False
    return sig is None or signature(st, detail) == sig


def task(wid, seed, params):
    if params.get('flat'):
        r = f1.flat_task(wid, seed, params)
        r['classes']['flat cell ' + params['cc']] += r['evaluations']
        return r
    res = {'evaluations': 0, 'nontrivial': set(), 'classes': collections.Counter(), 'samples': [], 'violations': [],
           'infra': [], 'extra': collections.Counter()}
    ncells = params['ncells']
    for ci in range(params['ncases']):
        ch = Chooser(seed * 1000003 + ci)
        mk = MAKERS[(wid + ci) % len(MAKERS)]
        try:
            m, script, meta = f1.MAKERS[mk](ch, {'nfuncs': 10, 'nargs': 6, 'nsteps': 60})
            wasm.validate(m)
        except wasm.Invalid as e:
            res['extra']['generator_invalid_module'] += 1
            continue
        ninst = meta.get('ninst', 2)
        model, script = detrap(m, script, ninst)
        if model is None:
            res['extra']['start_traps_skipped'] += 1
            continue
        res['extra']['generator_out_of_contract'] += model.stats['ooc']
        # round-robin cells: the whole matrix is covered every len(CELLS)/ncells cases
        start = ((wid * params['ncases'] + ci) * ncells) % len(CELLS)
        cells = [CELLS[(start + j) % len(CELLS)] for j in range(ncells)]
        try:
            results, wb = run_cells(m, model, cells, ninst)
        except cexec.InfraError as e:
            res['infra'].append(str(e))
            continue
        hz = set()
        for s in model.call_hz:
            hz.update(h.split(':', 1)[1] for h in s)
        hz &= set(HAZ)
        res['classes']['maker_' + mk] += 1
        for cell, st, detail in results:
            res['evaluations'] += 1
            res['classes']['cell ' + cell_name(cell)] += 1
            if hz or any(f.startswith('-fsanitize') for f in cell[1]) or mk == 'c11_names':
                res['nontrivial'].add(f1.hx((wb, cell)))
            for h in hz:
                res['classes'][h] += 1
            if st != 'ok' and len(res['violations']) < 2:
                sig = signature(st, detail)
                # reduce the module structurally for this one cell
                from .. import reduce as _reduce
                best = m
                try:
                    best, used = _reduce.reduce_module(m, lambda c: fails(c, script, cell, ninst, sig), budget=params.get('reduce_budget', 40))
                except Exception:
                    pass
                model2, script2 = detrap(best, script, ninst)
                res2, wb2 = run_cells(best, model2, [cell], ninst)
                st2, detail2 = res2[0][1], res2[0][2]
                if st2 == 'ok':
                    best, model2, script2, st2, detail2, wb2 = m, model, script, st, detail, wb
                summ = detail2 if isinstance(detail2, str) else (detail2.get('stderr', '')[-400:] if st2 == 'crash' else '')
                if st2 in ('mismatch', 'crash'):
                    op, exp, act = f1.describe_mismatch(model2, detail2['actual'], detail2['mismatch'])
                    summ = 'step %r expected %r got %r %s' % (op, exp, act, summ[-300:])
                res['violations'].append({
                    'signature': sig,
                    'summary': '%s under [%s] (generator %s): %s' % (st2, cell_name(cell), mk, summ[:600]),
                    'replay': {'kind': 'c11', 'module_hex': wb2.hex(), 'module_text': wasm.fmt_module(best)[:20000],
                               'script': f1.script_to_json(script2), 'cell': [cell[0], list(cell[1])], 'ninst': ninst,
                               'status': st2, 'detail': summ[:3000]}})
        if ci < 1:
            res['samples'].append({'generator': mk, 'cells': [cell_name(c) for c in cells], 'script': model.script_lines[:5],
                                   'expected': model.lines[:5]})
    res['extra'] = dict(res['extra'])
    res['excluded'] = gen.EXCLUDED['snan_immediate']
    gen.EXCLUDED['snan_immediate'] = 0
    return res


def replay(rp):
    if rp.get('kind') == 'flat':
        return f1.flat_replay(rp)
    if rp.get('kind') != 'c11':
        return f1.case_replay(rp)
    wb = bytes.fromhex(rp['module_hex'])
    m = wasm.decode(wb)
    script = f1.script_from_json(rp['script'])
    cell = (rp['cell'][0], tuple(rp['cell'][1]))
    return fails(m, script, cell, rp.get('ninst', 2), None, wasm_bytes=wb)


def plan(tier, seed):
    # flat: every numeric operator x (boundary pool x boundary pool + seeded random operands), non-trapping evaluations only,
    # in instrumented builds: any signed overflow / invalid shift / out-of-range conversion inside a helper macro is reported
    ops = gen.INT_OPS + gen.FLOAT_OPS
    if tier == 'quick':
        jobs = [{'ncases': 16, 'ncells': 6, 'reduce_budget': 30} for _ in range(32)]
        flat_ccs, nslices, nrandom = ['gcc-O1-san', 'clang-O1-san'], 8, 300
    else:
        jobs = [{'ncases': 20, 'ncells': 32, 'reduce_budget': 60} for _ in range(64)]
        flat_ccs, nslices, nrandom = ['gcc-O1-san', 'clang-O1-san', 'gcc-O2-san', 'clang-O0-san'], 16, 5000
    for cc in flat_ccs:
        for i in range(nslices):
            jobs.append({'flat': True, 'ops': ops[i::nslices], 'cc': cc, 'nrandom': nrandom, 'full_pairs': True, 'no_traps': True})
    # the portable fallbacks of the bit operations (compilers without __has_builtin) in instrumented builds, and the
    # unsigned-plain-char ABI for everything that goes through the 8-bit signed type
    bitops = [o for o in gen.INT_OPS if o.split('.')[1] in ('clz', 'ctz', 'popcnt', 'rotl', 'rotr')]
    for cc in ('gcc-O1-nobuiltin-san', 'clang-O1-nobuiltin-san'):
        jobs.append({'flat': True, 'ops': bitops, 'cc': cc, 'nrandom': nrandom, 'full_pairs': True, 'no_traps': True})
    return jobs


def run(tier, seed):
    return f1.standard_run(ID, LEVEL, RULE, ASSUME, plan(tier, seed), task, replay, tier, seed)
