"""C15 — WASI process services: args, environment, clocks, randomness, exit, thread spawn."""
import collections
import os
import struct
import subprocess

from .. import f1, wasm, cexec, wasi as W
from ..choice import Chooser, shrink
from ..wasm import I32, Module, Func

ID = 'C15'
LEVEL = 'exploration'
RULE = ('generated cases against the ASan+UBSan agent (wasi.c) and, for thread-spawn, a w2c2-translated shared-memory module '
        'linked with wasi.c: (args/environ) vectors of 0-200 strings with lengths 0..10^5 of arbitrary non-NUL bytes given to '
        'wasiInit, result buffers at generated guest placements surrounded by canaries: counts, total sizes, pointer array and '
        'NUL-terminated copies must match exactly; (clock_time_get) every clock id 0-3 sandwiched between two reads of the same '
        'host clock in the same process (t0 <= result <= t1, ns) - also after another thread of the process has burnt CPU time, which separates the per-thread from the per-process clock -, monotonic clock non-decreasing along the history, ids >= 4 and '
        'random 32-bit ids => EINVAL; (random_get) lengths {0,1,255,256,257,4096,65536,2^20, random}: success, canaries outside '
        '[p,p+len) intact, every 64-byte block inside changed, also while signals with a handler arrive every 50-200 us; (proc_exit) agent exit status == code for codes 0-255; '
        '(thread-spawn) T host threads x K spawns on one instance: returned ids distinct and positive, wasi_thread_start logged '
        'exactly once per spawn with that id and argument through the PARENT memory, negative result when the export is missing. '
        'Non-trivial = args/env with >= 1 empty and >= 1 > 4 KiB string, a random_get length > 256 that is not a multiple of 256, '
        '>= 8 concurrent spawns, an invalid clock id; distinct by case. clock_res_get: the value equals clock_getres of the same host clock read in the same process, exactly 8 bytes are stored, unknown ids are EINVAL.')
ASSUME = ['a random_get block of 64 bytes keeps the canary value with probability 256^-64',
          'thread-spawn is exercised with real threads (schedules are not owned by the harness here)']


# ------------------------------------------------------------------------------------------------ args / environ
def gen_vec(ch, maxn):
    n = ch.weighted([(3, 0), (4, 1 + ch.below(5)), (2, 10 + ch.below(40)), (1, maxn)])
    out = []
    budget = 600000
    for i in range(n):
        k = ch.below(10)
        ln = 0 if k == 0 else (1 + ch.below(20) if k < 7 else (ch.pick((255, 256, 4095, 4097, 65536, 100000)) if k == 9 else 100 + ch.below(900)))
        ln = min(ln, budget)
        budget -= ln
        if ch.below(2):
            s = bytes((ch.below(255) + 1) for _ in range(min(ln, 64))) * (ln // 64 + 1)
            s = s[:ln]
        else:
            s = (b'K%d=v' % i + b'x' * ln)[:ln]
        out.append(s)
    return out


def case_args(ch):
    return {'kind': 'args', 'args': [a.hex() for a in gen_vec(ch, 200)], 'env': [e.hex() for e in gen_vec(ch, 120)],
            'place': [ch.below(4096) * 4 + 8, ch.below(1 << 16)],
            # edge placement: the string buffer / the pointer array / the size cells end exactly at the end of guest memory
            'edge': ch.pick((None, None, 'buf', 'ptrs', 'sizes')),
            # the host hands over a PREFIX of a longer string array: argv[argc] is not NULL
            'trim': ch.pick((0, 0, 0, 1, 2, 5))}


def run_args(case):
    args = [bytes.fromhex(a) for a in case['args']]
    env = [bytes.fromhex(a) for a in case['env']]
    trim = min(case.get('trim', 0), len(args))
    d = cexec.new_dir('a')
    ag = W.Agent(d, pages=512)
    try:
        r = ag.init(args, env, trim)
        if trim:
            args = args[:len(args) - trim]
        if r != 'ok 1':
            return 'init', 'wasiInit failed: %r' % r
        memsize = 512 * 65536
        edge = case.get('edge')
        for unstable in (False, True):
            for which, vec in (('args', args), ('environ', env)):
                ag.fill(W.RES, 32)
                if edge == 'sizes':
                    ag.fill(memsize - 16, 16)
                    rc = ag.call(which + '_sizes_get', unstable, memsize - 8, memsize - 4)
                    if rc != 0 or ag.peek_u32(memsize - 8) != len(vec) or ag.peek_u32(memsize - 4) != sum(len(v) + 1 for v in vec) \
                            or ag.peek(memsize - 16, 8) != b'\xcd' * 8:
                        return 'sizes-edge', '%s_sizes_get with result cells in the last 8 bytes of memory: errno %d, count %d, size %d' % (
                            which, rc, ag.peek_u32(memsize - 8), ag.peek_u32(memsize - 4))
                rc = ag.call(which + '_sizes_get', unstable, W.RES, W.RES + 8)
                cnt, size = ag.peek_u32(W.RES), ag.peek_u32(W.RES + 8)
                want_size = sum(len(v) + 1 for v in vec)
                if rc != 0 or cnt != len(vec) or size != want_size:
                    return 'sizes', '%s_sizes_get: errno %d count %d size %d, expected count %d size %d' % (which, rc, cnt, size, len(vec), want_size)
                if ag.peek(W.RES + 4, 4) != b'\xcd' * 4 or ag.peek(W.RES + 12, 4) != b'\xcd' * 4:
                    return 'overwrite', '%s_sizes_get wrote outside its two 4-byte results' % which
                ptrs = 0x100000 + case['place'][0]
                buf = 0x200000 + case['place'][1]
                ptail = btail = 8
                if edge == 'buf' and want_size:
                    buf, btail = memsize - want_size, 0
                elif edge == 'ptrs' and vec:
                    ptrs, ptail = memsize - 4 * len(vec), 0
                ag.fill(ptrs - 8, 4 * len(vec) + 8 + ptail)
                ag.fill(buf - 8, want_size + 8 + btail)
                rc = ag.call(which + '_get', unstable, ptrs, buf)
                if rc != 0:
                    return 'get', '%s_get failed with errno %d (pointer array at 0x%x, %d entries; string buffer at 0x%x, %d bytes; memory size 0x%x)' % (
                        which, rc, ptrs, len(vec), buf, want_size, memsize)
                raw_p = ag.peek(ptrs - 8, 4 * len(vec) + 8 + ptail) + b'\xcd' * (8 - ptail)
                raw_b = ag.peek(buf - 8, want_size + 8 + btail) + b'\xcd' * (8 - btail)
                if raw_p[:8] != b'\xcd' * 8 or raw_p[-8:] != b'\xcd' * 8 or raw_b[:8] != b'\xcd' * 8 or raw_b[-8:] != b'\xcd' * 8:
                    return 'overwrite', '%s_get wrote outside the pointer array / string buffer' % which
                off = buf
                for i, v in enumerate(vec):
                    p = struct.unpack(ag.E + 'I', raw_p[8 + 4 * i:12 + 4 * i])[0]
                    if p != off:
                        return 'pointer', '%s_get: pointer %d is 0x%x, expected 0x%x' % (which, i, p, off)
                    got = raw_b[8 + off - buf:8 + off - buf + len(v) + 1]
                    if got != v + b'\0':
                        return 'string', '%s_get: string %d is %r, expected %r' % (which, i, got[:40], (v + b'\0')[:40])
                    off += len(v) + 1
        rep = ag.sanitizer_report()
        if rep:
            return 'sanitizer', rep[-600:]
        return None
    except W.AgentDied as e:
        return 'agent-died', '%s %s' % (e, e.stderr[-800:])
    finally:
        ag.close()
        cexec.rm(d)


# ------------------------------------------------------------------------------------------------ clocks / random / exit
def case_misc(ch):
    ops = []
    for _ in range(4 + ch.below(12)):
        k = ch.below(10)
        if k < 4:
            if ch.below(3) == 0:
                # CPU time consumed by another thread of the process: the four clocks are four different host clocks
                ops.append(['burn', ch.pick((20, 50))])
            ops.append(['clock', ch.pick((0, 1, 1, 2, 3)), ch.pick((0, 1, 1000, 1000000, 10000000, 1 << 40)), bool(ch.below(2)), ch.below(4) == 0])
            if ch.below(3) == 0:
                # resolution of the same clocks (clock_res_get): the host's clock_getres, 8 bytes stored, unknown ids refused
                ops.append(['clockres', ch.pick((0, 1, 2, 3)), bool(ch.below(2)), ch.below(4) == 0])
        elif k < 6:
            if ch.below(3) == 0:
                ops.append(['badclockres', ch.pick((4, 5, 255, 0x7fffffff, 0x80000000, 0xffffffff, 4 + ch.bits(31))), bool(ch.below(2))])
            ops.append(['badclock', ch.pick((4, 5, 255, 0x7fffffff, 0x80000000, 0xffffffff, 4 + ch.bits(31))), bool(ch.below(2))])
        else:
            ops.append(['random', ch.pick((0, 1, 63, 64, 255, 256, 257, 300, 4096, 65536, 1 << 20, 1 + ch.below(5000), 256 * (1 + ch.below(9)))),
                        ch.below(1 << 12), bool(ch.below(2)), ch.below(4) == 0,
                        # signals (SIGALRM with a handler, every 50-200 microseconds) arriving while the call runs
                        ch.pick((0, 0, 50, 200))])
            if ops[-1][5] and ch.below(2):
                ops[-1][1] = ch.pick((1 << 20, 1 << 21, 300000, 65536))
    ops.append(['exit', ch.pick((0, 1, 2, 42, 97, 98, 99, 100, 127, 128, 200, 255, ch.below(256))), bool(ch.below(2))])
    return {'kind': 'misc', 'ops': ops}


def run_misc(case):
    d = cexec.new_dir('m')
    ag = W.Agent(d, pages=64)
    last_mono = -1
    try:
        ag.init([b'p'], [])
        for op in case['ops']:
            if op[0] == 'burn':
                ag.burn(op[1])
            elif op[0] == 'clock':
                _, cid, prec, unstable = op[:4]
                cell = (64 * 65536 - 8) if (len(op) > 4 and op[4]) else W.RES        # result cell in the last 8 bytes of memory
                ag.fill(W.RES, 24)
                t0 = ag.now(cid)
                rc = ag.call('clock_time_get', unstable, cid, prec, cell)
                t1 = ag.now(cid)
                v = ag.peek_u64(cell)
                if rc != 0:
                    return 'clock', 'clock_time_get(%d) failed with errno %d' % (cid, rc)
                if not (t0 <= v <= t1):
                    return 'clock-range', 'clock_time_get(%d) = %d ns, the same host clock read %d before and %d after' % (cid, v, t0, t1)
                if ag.peek(W.RES + 8, 8) != b'\xcd' * 8:
                    return 'overwrite', 'clock_time_get stored more than 8 bytes'
                if cid == 1:
                    if v < last_mono:
                        return 'clock-monotonic', 'monotonic clock went backwards: %d after %d' % (v, last_mono)
                    last_mono = v
            elif op[0] == 'clockres':
                _, cid, unstable, edge = op
                cell = (64 * 65536 - 8) if edge else W.RES
                ag.fill(W.RES, 24)
                want = ag.res(cid)
                rc = ag.call('clock_res_get', unstable, cid, cell)
                v = ag.peek_u64(cell)
                if rc != 0:
                    return 'clock', 'clock_res_get(%d) failed with errno %d' % (cid, rc)
                if v != want:
                    return 'clock-res', 'clock_res_get(%d) = %d ns, clock_getres of the same host clock in the same process gives %d ns' % (cid, v, want)
                if ag.peek(W.RES + 8, 8) != b'\xcd' * 8:
                    return 'overwrite', 'clock_res_get stored more than 8 bytes'
            elif op[0] == 'badclockres':
                _, cid, unstable = op
                rc = ag.call('clock_res_get', unstable, cid, W.RES)
                if rc != W.E['INVAL']:
                    return 'clock-id', 'clock_res_get with unknown clock id %d returned %d, expected EINVAL' % (cid, rc)
            elif op[0] == 'badclock':
                _, cid, unstable = op
                rc = ag.call('clock_time_get', unstable, cid, 0, W.RES)
                if rc != W.E['INVAL']:
                    return 'clock-id', 'clock_time_get with unknown clock id %d returned %d, expected EINVAL' % (cid, rc)
            elif op[0] == 'random':
                _, ln, place, unstable = op[:4]
                base = 0x40000 + place
                tail = 64
                if len(op) > 4 and op[4] and ln:
                    base, tail = 64 * 65536 - ln, 0                                     # buffer ends at the end of memory
                ag.fill(base - 64, ln + 64 + tail)
                if len(op) > 5 and op[5]:
                    ag._send('sigstorm %d' % op[5])
                rc = ag.call('random_get', unstable, base, ln)
                if len(op) > 5 and op[5]:
                    ag._send('sigstorm 0')
                if rc != 0:
                    return 'random-errno', 'random_get(len=%d at 0x%x) failed with errno %d (%s)' % (ln, base, rc, W.ename(rc))
                raw = ag.peek(base - 64, ln + 64 + tail) + b'\xcd' * (64 - tail)
                if raw[:64] != b'\xcd' * 64 or raw[64 + ln:] != b'\xcd' * 64:
                    return 'overwrite', 'random_get(len=%d) wrote outside [p, p+len)' % ln
                body = raw[64:64 + ln]
                for b in range(0, ln - 63, 64):
                    if body[b:b + 64] == b'\xcd' * 64:
                        return 'random-unfilled', 'random_get(len=%d) left bytes %d..%d untouched' % (ln, b, b + 63)
                if 0 < ln < 64 and ln >= 8 and body == b'\xcd' * ln:
                    return 'random-unfilled', 'random_get(len=%d) left the buffer untouched' % ln
            elif op[0] == 'exit':
                _, code, unstable = op
                st = ag.call_noreturn('proc_exit', unstable, code)
                rep = ag.sanitizer_report()
                if rep:
                    return 'sanitizer', rep[-600:]
                if st != code:
                    return 'exit-status', 'proc_exit(%d) ended the process with status %r' % (code, st)
        return None
    except W.AgentDied as e:
        return 'agent-died', '%s %s' % (e, e.stderr[-800:])
    finally:
        ag.close()
        cexec.rm(d)


# ------------------------------------------------------------------------------------------------ thread spawn
DECOY_SETS = [((), ()), ((b'wasi_thread_start_hook',), ()), ((), (b'wasi_thread_start2',)), ((b'wasi_thread_starts', b'wasi_thread_star'), ()),
              ((b'_wasi_thread_start',), (b'wasi_thread_start ',)), ((b'Wasi_thread_start', b'wasi_thread_start.old'), (b'wasi_thread_start_',))]


def spawn_module(with_export=True, imported=False, decoys=0):
    m = Module()
    T = m.type_index
    m.imports.append((b'wasi', b'thread-spawn', 'func', T((I32,), (I32,))))
    if imported:
        m.imports.append((b'env', b'memory', 'memory', (1, 1, True)))
    else:
        m.memory = (1, 1, True)
    m.exports.append((b'memory', 'memory', 0))
    # wasi_thread_start(tid, arg): idx = atomic add(counter@0, 1); store tid, arg at 16 + idx*8
    # slot = atomic add(@0, 1); record (tid, arg) at 16 + slot*8; then publish with atomic add(@4, 1) ("done" counter)
    body = [('i32.const', 0), ('i32.const', 1), ('i32.atomic.rmw.add', 2, 0), ('i32.const', 8), ('i32.mul',), ('local.tee', 2),
            ('local.get', 0), ('i32.store', 2, 16), ('local.get', 2), ('local.get', 1), ('i32.store', 2, 20),
            # nested spawn: while the top byte of the argument is non-zero, spawn once more with it decremented and log
            # (argument, returned id) at 32768 + 8 * atomic add(@8, 1)
            ('local.get', 1), ('i32.const', 24), ('i32.shr_u',),
            ('if', None, [
                ('local.get', 1), ('i32.const', 1 << 24), ('i32.sub',), ('local.tee', 3), ('call', 0), ('local.set', 4),
                ('i32.const', 0), ('i32.const', 1), ('i32.atomic.rmw.add', 2, 8), ('i32.const', 8), ('i32.mul',), ('local.tee', 2),
                ('local.get', 3), ('i32.store', 2, 32768), ('local.get', 2), ('local.get', 4), ('i32.store', 2, 32772)], []),
            ('i32.const', 0), ('i32.const', 1), ('i32.atomic.rmw.add', 2, 4), ('drop',)]
    m.funcs.append(Func(T((I32, I32), ()), [I32, I32, I32], body))
    # exports whose names merely resemble the start function's (longer, shorter, other case, around it in the export section):
    # only the export named exactly wasi_thread_start is the start function; a look-alike counts its calls at address 12
    before, after = DECOY_SETS[decoys]
    for nm in before:
        m.exports.append((nm, 'func', 4))
    if with_export:
        m.exports.append((b'wasi_thread_start', 'func', 1))
    else:
        m.exports.append((b'not_the_start', 'func', 1))
    for nm in after:
        m.exports.append((nm, 'func', 4))
    m.funcs.append(Func(T((I32,), (I32,)), [], [('local.get', 0), ('call', 0)]))
    m.exports.append((b'spawn', 'func', 2))
    m.funcs.append(Func(T((), (I32,)), [], [('i32.const', 0), ('i32.atomic.load', 2, 4)]))
    m.exports.append((b'count', 'func', 3))
    m.funcs.append(Func(T((I32, I32), ()), [], [('i32.const', 0), ('i32.const', 1), ('i32.atomic.rmw.add', 2, 12), ('drop',)]))
    m.funcs.append(Func(T((), (I32,)), [], [('i32.const', 0), ('i32.atomic.load', 2, 12)]))
    m.exports.append((b'decoyruns', 'func', 5))
    wasm.validate(m)
    return m


_spawn_cache = {}


def spawn_binary(with_export, tsan=False, imported=False, decoys=0):
    """the harness binary for one module variant, built once per source tree and shared by all worker processes"""
    import hashlib
    key = (with_export, tsan, imported, decoys)
    if key in _spawn_cache and os.path.exists(_spawn_cache[key]):
        return _spawn_cache[key]
    drv = os.path.join(cexec.VERIF, 'c', 'spawn_driver.c')
    wb = wasm.encode(spawn_module(with_export, imported, decoys))
    tag = hashlib.sha256(open(drv, 'rb').read() + wb + repr(key).encode()).hexdigest()[:12]
    out = os.path.join(cexec.cache_dir(), 'spawn-' + tag)
    if not os.path.exists(out):
        with cexec._Lock(out + '.lock'):
            if not os.path.exists(out):
                d = cexec.new_dir('sp')
                try:
                    tr = cexec.translate(wb, d, 'm', (), 'plain')
                    if tr.rc != 0:
                        raise cexec.InfraError('translating the thread-spawn module failed: %s' % tr.err[-300:])
                    cc = ['clang', '-O1', '-g', '-w'] + (['-fsanitize=thread'] if tsan else ['-fsanitize=address,undefined', '-fno-sanitize-recover=all'])
                    cmd = cc + (['-DVF_IMPORTED_MEMORY=1'] if imported else []) + W.WASI_DEFS + ['-I', os.path.join(cexec.REPO, 'w2c2'), '-I', os.path.join(cexec.REPO, 'futex'), '-I', d,
                                                                                              drv, os.path.join(d, 'm.c'), os.path.join(cexec.REPO, 'wasi', 'wasi.c')] + \
                        [os.path.join(cexec.REPO, 'futex', f) for f in cexec.FUTEX_SRCS] + ['-Wl,--wrap=pthread_create', '-o', out + '.tmp%d' % os.getpid(), '-lpthread', '-lm']
                    r = cexec.run(cmd, cwd=d)
                    if r.returncode != 0:
                        raise cexec.InfraError('building the thread-spawn harness failed: %s' % r.stderr.decode(errors='replace')[-1500:])
                    os.rename(out + '.tmp%d' % os.getpid(), out)
                finally:
                    cexec.rm(d)
    _spawn_cache[key] = out
    return out


def case_spawn(ch):
    return {'kind': 'spawn', 'T': ch.pick((1, 2, 3, 4, 8)), 'K': ch.pick((1, 2, 4, 8, 16)), 'export': ch.below(5) != 0,
            'tsan': False, 'imported': ch.below(3) == 0, 'depth': ch.pick((0, 0, 1, 2)),
            'decoys': ch.pick((0, 0, 0, 1, 2, 3, 4, 5)),
            # every n-th thread creation made by thread-spawn fails (EAGAIN: the host has run out of threads)
            'fail_every': ch.pick((0, 0, 0, 2, 3, 5)),
            # resource limits of the host process a thread implementation may consult: an unlimited stack size (ulimit -s unlimited)
            'stack_unlimited': ch.below(4) == 0}


def run_spawn(case):
    exe = spawn_binary(case['export'], case.get('tsan', False), bool(case.get('imported')), case.get('decoys', 0))
    env = dict(os.environ)
    env.update(cexec.ASAN_ENV)
    env['TSAN_OPTIONS'] = 'exitcode=96:halt_on_error=0:report_thread_leaks=0'
    try:
        if case.get('fail_every'):
            case = dict(case, depth=0)
        pre = None
        if case.get('stack_unlimited'):
            import resource

            def pre():
                resource.setrlimit(resource.RLIMIT_STACK, (resource.RLIM_INFINITY, resource.RLIM_INFINITY))
        r = subprocess.run([exe, str(case['T']), str(case['K']), str(case.get('depth', 0)), str(case.get('fail_every', 0))], stdout=subprocess.PIPE, stderr=subprocess.PIPE, env=env, timeout=120,
                           preexec_fn=pre)
    except subprocess.TimeoutExpired:
        return 'timeout', 'thread-spawn harness did not finish within 120 s'
    err = r.stderr.decode(errors='replace')
    if r.returncode != 0:
        return 'spawn-crash:%d' % r.returncode, 'harness exit %d: %s' % (r.returncode, cexec.san_head(err, 800))
    spawns, logs, n = [], [], None
    for ln in r.stdout.decode().splitlines():
        p = ln.split()
        if p[0] == 'S':
            spawns.append((int(p[1]), int(p[2])))
        elif p[0] == 'L':
            logs.append((int(p[1]), int(p[2])))
        elif p[0] == 'N':
            n = int(p[1])
        elif p[0] == 'P' and (int(p[1]) != 1 or int(p[2]) != 1):
            return 'spawn-memory', 'after the spawns the shared memory reports %s page(s), data pointer %s' % (p[1], 'set' if int(p[2]) else 'NULL')
        elif p[0] == 'X' and int(p[1]):
            return 'spawn-lookalike', 'an export whose name merely resembles wasi_thread_start was run %s time(s) as thread start function' % p[1]
    if not case['export']:
        for arg, ret in spawns:
            if ret >= 0:
                return 'spawn-missing-export', 'thread-spawn returned %d although wasi_thread_start is not exported' % ret
        if n:
            return 'spawn-missing-export', 'a start function ran although wasi_thread_start is not exported'
        return None
    if case.get('fail_every'):
        # a spawn whose thread could not be created reports a negative value and its start function never runs; the others are as usual
        spawns = [(arg, ret) for arg, ret in spawns if ret >= 0]
    ids = [ret for arg, ret in spawns]
    if any(i <= 0 for i in ids):
        return 'spawn-id', 'thread-spawn returned a non-positive id: %r' % sorted(ids)[:5]
    if len(set(ids)) != len(ids):
        return 'spawn-id-dup', 'thread-spawn returned duplicate ids: %r' % sorted(i for i in ids if ids.count(i) > 1)[:6]
    want = sorted((ret, arg) for arg, ret in spawns)
    if sorted(logs) != want or n != len(spawns):
        missing = sorted(set(want) - set(logs))[:4]
        extra = sorted(set(logs) - set(want))[:4]
        return 'spawn-log', 'wasi_thread_start calls seen through the parent memory (%d) differ from the spawns (%d): missing %r, unexpected %r' % (
            n, len(spawns), missing, extra)
    return None


CASES = {'args': (case_args, run_args), 'misc': (case_misc, run_misc), 'spawn': (case_spawn, run_spawn)}


def classify(case):
    out = []
    if case['kind'] == 'args':
        v = [bytes.fromhex(a) for a in case['args'] + case['env']]
        if any(len(x) == 0 for x in v) and any(len(x) > 4096 for x in v):
            out.append('args_empty_and_large')
        if len(v) >= 100:
            out.append('args_many')
        if case.get('edge'):
            out.append('args_object_ends_at_memory_end')
        if case.get('trim'):
            out.append('argv_longer_than_argc')
    elif case['kind'] == 'misc':
        for op in case['ops']:
            if op[0] == 'random' and op[1] > 256 and op[1] % 256:
                out.append('random_len>256_not_multiple')
            if op[0] in ('badclock', 'badclockres'):
                out.append('invalid_clock_id')
            if op[0] == 'clockres':
                out.append('clock_resolution')
            if op[0] == 'clockres' and op[3]:
                out.append('result_or_buffer_ends_at_memory_end')
            if op[0] == 'burn':
                out.append('cpu_time_burnt_by_another_thread_before_a_clock_read')
            if op[0] in ('clock', 'random') and len(op) > 4 and op[4]:
                out.append('result_or_buffer_ends_at_memory_end')
            if op[0] == 'clock' and op[2] >= 1000000:
                out.append('clock_coarse_precision')
    else:
        if case['T'] * case['K'] >= 8:
            out.append('spawn>=8_concurrent')
        if case.get('decoys'):
            out.append('spawn_with_lookalike_export_names')
        if case.get('fail_every'):
            out.append('spawn_with_failing_thread_creation')
        if case.get('stack_unlimited'):
            out.append('spawn_under_unlimited_stack_limit')
        if not case['export']:
            out.append('spawn_missing_export')
        if case.get('imported'):
            out.append('spawn_imported_shared_memory')
        if case.get('depth'):
            out.append('spawn_from_a_spawned_thread')
    return out


def task(wid, seed, params):
    res = {'evaluations': 0, 'nontrivial': set(), 'classes': collections.Counter(), 'samples': [], 'violations': [],
           'infra': [], 'extra': {}}
    kinds = params['kinds']
    for ci in range(params['ncases']):
        ch = Chooser(seed * 1000003 + ci)
        kind = kinds[(wid + ci) % len(kinds)]
        gen, runner_ = CASES[kind]
        case = gen(ch)
        if params.get('tsan') and kind == 'spawn':
            case['tsan'] = True
        try:
            bad = runner_(case)
        except cexec.InfraError as e:
            res['infra'].append(str(e))
            continue
        res['evaluations'] += 1
        res['classes']['kind_' + kind] += 1
        cl = classify(case)
        for c in set(cl):
            res['classes'][c] += 1
        if cl:
            res['nontrivial'].add(f1.hx(repr(case)))
        if ci < 3 and len(res['samples']) < 3:
            s = dict(case)
            if kind == 'args':
                s = {'kind': 'args', 'nargs': len(case['args']), 'nenv': len(case['env']),
                     'lengths': sorted(len(a) // 2 for a in case['args'] + case['env'])[-5:]}
            res['samples'].append(s)
        if bad and len(res['violations']) < 2:
            sig, msg = bad
            log = list(ch.log)

            def still(choices, _sig=sig):
                c2 = gen(Chooser(replay=choices))
                if params.get('tsan') and kind == 'spawn':
                    c2['tsan'] = True
                b2 = runner_(c2)
                return b2 is not None and b2[0] == _sig
            try:
                best, used = shrink(log, still, budget=40)
                c2 = gen(Chooser(replay=best))
                b2 = runner_(c2)
                if b2 is not None:
                    case, (sig, msg) = c2, b2
            except Exception:
                pass
            res['violations'].append({'signature': 'c15:' + sig, 'summary': msg[:700], 'replay': {'kind': 'c15', 'case': case, 'message': msg[:2000]}})
    return res


def replay(rp):
    case = rp['case']
    return CASES[case['kind']][1](case) is not None


def plan(tier, seed):
    if tier == 'quick':
        return [{'ncases': 300, 'kinds': ['args', 'misc', 'misc', 'spawn']} for _ in range(15)] + \
            [{'ncases': 40, 'kinds': ['spawn'], 'tsan': True}]
    return [{'ncases': 6000, 'kinds': ['args', 'misc', 'misc', 'spawn']} for _ in range(28)] + \
        [{'ncases': 200, 'kinds': ['spawn'], 'tsan': True} for _ in range(4)]


def run(tier, seed):
    return f1.standard_run(ID, LEVEL, RULE, ASSUME, plan(tier, seed), task, replay, tier, seed)
