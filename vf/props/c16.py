"""C16 — atomic memory instructions have specified results and are atomic across threads."""
import collections
import os
import subprocess

from .. import f1, gen, e2e, wasm, cexec, pools
from ..choice import Chooser
from ..wasm import (I32, I64, Module, Func, ATOMIC_LOADS, ATOMIC_STORES, ATOMIC_RMW, ATOMIC_CMPXCHG, LOADS, STORES)

ID = 'C16'
LEVEL = 'exploration'
RULE = ('(a) sequential: generated accessor module on a shared memory with all 7 atomic loads, 7 stores, 42 read-modify-write and 7 '
        'compare-exchange flavours (each with two static offsets) plus plain loads/stores; generated histories of 40-200 calls on '
        'naturally aligned addresses with pool/random operands; after every call the result (zero-extended old value) and the '
        'CRC of the whole memory must equal the byte-array model (new value wrapped to the access width, neighbouring bytes '
        'untouched). (b) concurrent: for every flavour, T = 2-8 real threads, each on its own child instance of one shared memory '
        '(NewChild), hammer one cell with add / sub (all returned old values distinct and covering the range, final = init +- '
        'count), xchg with unique values (returned + final = initial + stored), compare-exchange increment loops (final = '
        'count), or / and / xor on thread-owned bits; gcc and clang builds plus a ThreadSanitizer build that must stay silent. '
        'Non-trivial = RMW narrower than its result type with high operand bits set, a failing compare-exchange, or a concurrent '
        'run in which operations of >= 2 threads interleave (seen in the returned values); distinct by (history) / (mode, '
        'flavour, T, N, build). Further modes: add / add+sub / compare-exchange increments against exchange(0) drainers and fetch-add loops against drain loops inside the module (what is left plus what the drainers took out equals initial value plus additions); a ThreadSanitizer build of the forced big-endian paths for the loop mode.')
ASSUME = ['on this host the operations are single locked instructions: atomicity is attacked by stress + TSan, not enumeration']

SHAPES = [('i32', '', 4), ('i64', '', 8), ('i32', '8', 1), ('i32', '16', 2), ('i64', '8', 1), ('i64', '16', 2), ('i64', '32', 4)]


# ------------------------------------------------------------------------------------------------ sequential histories
def seq_module(ch):
    m = Module()
    if ch.below(3) == 0:
        m.imports.append((b'env', b'memory', 'memory', (1, 1, True)))      # shared memory owned by the embedder
    else:
        m.memory = (1, 1, True)
    m.exports.append((b'mem', 'memory', 0))
    acc = []

    def add(name, ps, rs, body, kind, det):
        m.funcs.append(Func(m.type_index(ps, rs), [], body))
        m.exports.append((name, 'func', len(m.funcs) - 1))
        acc.append((kind, len(acc), det))
    for n, (code, t, nb) in sorted(ATOMIC_LOADS.items()):
        off = ch.pick((0, 8, 64, 4096)) if ch.below(2) else 0
        add(b'al%d' % len(acc), (I32,), (t,), [('local.get', 0), (n, wasm.natural_align(nb), off)], 'aload', (n, t, nb, off))
    for n, (code, t, nb) in sorted(ATOMIC_STORES.items()):
        off = ch.pick((0, 8, 64, 4096)) if ch.below(2) else 0
        add(b'as%d' % len(acc), (I32, t), (), [('local.get', 0), ('local.get', 1), (n, wasm.natural_align(nb), off)], 'astore', (n, t, nb, off))
    for n, (code, t, nb, o) in sorted(ATOMIC_RMW.items()):
        off = ch.pick((0, 8, 64, 4096)) if ch.below(2) else 0
        add(b'rmw%d' % len(acc), (I32, t), (t,), [('local.get', 0), ('local.get', 1), (n, wasm.natural_align(nb), off)], 'rmw', (n, t, nb, off))
    for n, (code, t, nb) in sorted(ATOMIC_CMPXCHG.items()):
        off = ch.pick((0, 8, 64, 4096)) if ch.below(2) else 0
        add(b'cx%d' % len(acc), (I32, t, t), (t,), [('local.get', 0), ('local.get', 1), ('local.get', 2), (n, wasm.natural_align(nb), off)],
            'cmpxchg', (n, t, nb, off))
    add(b'ld64', (I32,), (I64,), [('local.get', 0), ('i64.load', 0, 0)], 'load', ('i64.load', I64, 8, 0))
    add(b'st64', (I32, I64), (), [('local.get', 0), ('local.get', 1), ('i64.store', 0, 0)], 'store', ('i64.store', I64, 8, 0))
    add(b'fence', (), (), [('atomic.fence',)], 'fence', None)
    # wait / notify without a second thread: the value comparison decides (1 = not equal, 2 = timed out at once), notify wakes nobody
    for n, t, nb in (('memory.atomic.wait32', I32, 4), ('memory.atomic.wait64', I64, 8)):
        off = ch.pick((0, 8, 64))
        add(b'w%d' % nb, (I32, t), (I32,), [('local.get', 0), ('local.get', 1), ('i64.const', ch.pick((0, 1000))), (n, wasm.natural_align(nb), off)],
            'wait', (n, t, nb, off))
    add(b'ntf', (I32, I32), (I32,), [('local.get', 0), ('local.get', 1), ('memory.atomic.notify', 2, 0)], 'notify', ('memory.atomic.notify', I32, 4, 0))
    return m, acc


@f1.maker('c16_seq')
def make_seq(ch, params):
    m, acc = seq_module(ch)
    script = e2e.default_setup(m, 1)
    classes = {}
    cells = [ch.below(64) * 8 for _ in range(4)]
    known = {}
    for step in range(40 + ch.below(params.get('nsteps', 160))):
        a = ch.pick(acc)
        kind, e, det = a
        if kind == 'fence':
            script.append(('call', 0, e, []))
            continue
        n, t, nb, off = det
        cell = ch.pick(cells)
        addr = cell + (ch.below(8 // nb) * nb if kind not in ('load', 'store') else ch.below(8))
        base = addr     # the static offset is added by the instruction
        if ch.below(6) == 0:
            # the access ends exactly at the end of the (one page) memory: effective address 65536 - width
            base = 65536 - nb - off
            addr = base
            classes['access_ends_at_memory_end'] = classes.get('access_ends_at_memory_end', 0) + 1
        bits = 64 if t == I64 else 32
        v = pools.draw_value(ch, t)
        if kind == 'wait':
            addr = cell
            base = addr
            exp = known.get((addr + off, nb), pools.draw_value(ch, t)) if ch.below(2) else pools.draw_value(ch, t)
            script.append(('call', 0, e, [base, exp]))
            classes['wait_value_compare'] = classes.get('wait_value_compare', 0) + 1
        elif kind == 'notify':
            script.append(('call', 0, e, [cell, ch.pick((0, 1, 0xffffffff))]))
        elif kind in ('aload', 'load'):
            script.append(('call', 0, e, [base]))
        elif kind in ('astore', 'store'):
            script.append(('call', 0, e, [base, v]))
        elif kind == 'rmw':
            if nb * 8 < bits and v >> (nb * 8):
                classes['narrow_rmw_high_bits'] = classes.get('narrow_rmw_high_bits', 0) + 1
            script.append(('call', 0, e, [base, v]))
        else:
            # compare-exchange: sometimes with the value we last stored there (success), sometimes not (failure)
            exp = known.get((addr + off, nb), pools.draw_value(ch, t)) if ch.below(2) else pools.draw_value(ch, t)
            if nb * 8 < bits and ch.below(3) == 0:
                # the expected operand is wrapped to the access width first: bits above it must not prevent the exchange
                exp = (exp & ((1 << (nb * 8)) - 1)) | ((1 + ch.below((1 << (bits - nb * 8)) - 1)) << (nb * 8))
                classes['cmpxchg_expected_high_bits'] = classes.get('cmpxchg_expected_high_bits', 0) + 1
            script.append(('call', 0, e, [base, exp, v]))
            classes['cmpxchg'] = classes.get('cmpxchg', 0) + 1
        if kind in ('astore', 'rmw') and (n.endswith('xchg_u') or n.endswith('.xchg') or kind == 'astore'):
            known[(addr + off, nb)] = v & ((1 << (nb * 8)) - 1)
        script.append(('mem', 0))
    interesting = [c for c in classes if c in ('narrow_rmw_high_bits', 'cmpxchg')]

    def nt(m_, script_, model, meta):
        return [(f1.hx(repr(script_)), [])] if interesting else []
    return m, script, {'nontrivial_fn': nt, 'ninst': 1, 'classes': classes}


# ------------------------------------------------------------------------------------------------ concurrent stress
def stress_module(imported=False):
    m = Module()
    if imported:
        m.imports.append((b'env', b'memory', 'memory', (1, 1, True)))      # the embedder owns the shared memory
    else:
        m.memory = (1, 1, True)
    m.exports.append((b'memory', 'memory', 0))
    for fi, (t, w, nb) in enumerate(SHAPES):
        sfx = '_u' if w else ''
        al = wasm.natural_align(nb)
        for op in ('add', 'sub', 'and', 'or', 'xor', 'xchg'):
            n = '%s.atomic.rmw%s.%s%s' % (t, w, op, sfx)
            m.funcs.append(Func(m.type_index((I32, t), (t,)), [], [('local.get', 0), ('local.get', 1), (n, al, 0)]))
            m.exports.append((('%s_%d' % (op, fi)).encode(), 'func', len(m.funcs) - 1))
        n = '%s.atomic.rmw%s.cmpxchg%s' % (t, w, sfx)
        m.funcs.append(Func(m.type_index((I32, t, t), (t,)), [], [('local.get', 0), ('local.get', 1), ('local.get', 2), (n, al, 0)]))
        m.exports.append((('cmpxchg_%d' % fi).encode(), 'func', len(m.funcs) - 1))
        ln = '%s.atomic.load%s' % (t, (w + '_u') if w else '')
        m.funcs.append(Func(m.type_index((I32,), (t,)), [], [('local.get', 0), (ln, al, 0)]))
        m.exports.append((('load_%d' % fi).encode(), 'func', len(m.funcs) - 1))
        sn = '%s.atomic.store%s' % (t, w)
        m.funcs.append(Func(m.type_index((I32, t), ()), [], [('local.get', 0), ('local.get', 1), (sn, al, 0)]))
        m.exports.append((('store_%d' % fi).encode(), 'func', len(m.funcs) - 1))
        # incr(addr, n): n increments through a compare-exchange loop
        one = ('%s.const' % t, 1)
        body = [('block', None, [('loop', None, [
            ('local.get', 1), ('i32.eqz',), ('br_if', 1),
            ('block', None, [('loop', None, [
                ('local.get', 0), (ln, al, 0), ('local.set', 2),
                ('local.get', 0), ('local.get', 2), ('local.get', 2), one, ('%s.add' % t,), (n, al, 0),
                ('local.get', 2), ('%s.ne' % t,), ('br_if', 0)])]),
            ('local.get', 1), ('i32.const', 1), ('i32.sub',), ('local.set', 1), ('br', 0)])])]
        m.funcs.append(Func(m.type_index((I32, I32), ()), [t], body))
        m.exports.append((('incr_%d' % fi).encode(), 'func', len(m.funcs) - 1))
        # addn(addr, n): n times fetch-add 1; drain(addr, n) -> sum (mod 2^width) of n exchanges with 0: the loops run inside the
        # module, back to back - the tightest contention a guest can produce
        addop = '%s.atomic.rmw%s.add%s' % (t, w, sfx)
        xop = '%s.atomic.rmw%s.xchg%s' % (t, w, sfx)
        body = [('block', None, [('loop', None, [
            ('local.get', 1), ('i32.eqz',), ('br_if', 1),
            ('local.get', 0), one, (addop, al, 0), ('drop',),
            ('local.get', 1), ('i32.const', 1), ('i32.sub',), ('local.set', 1), ('br', 0)])])]
        m.funcs.append(Func(m.type_index((I32, I32), ()), [], body))
        m.exports.append((('addn_%d' % fi).encode(), 'func', len(m.funcs) - 1))
        body = [('block', None, [('loop', None, [
            ('local.get', 1), ('i32.eqz',), ('br_if', 1),
            ('local.get', 0), ('%s.const' % t, 0), (xop, al, 0), ('local.get', 2), ('%s.add' % t,), ('local.set', 2),
            ('local.get', 1), ('i32.const', 1), ('i32.sub',), ('local.set', 1), ('br', 0)])]), ('local.get', 2)]
        m.funcs.append(Func(m.type_index((I32, I32), (t,)), [t], body))
        m.exports.append((('drain_%d' % fi).encode(), 'func', len(m.funcs) - 1))
        # lock(addr, n): n times { spin on cmpxchg(addr, 0 -> 1); plain 64-bit counter at addr+64 += 1; atomic store 0 }:
        # a compare-exchange that reports success without having stored lets two threads into the critical section
        zero = ('%s.const' % t, 0)
        body = [('block', None, [('loop', None, [
            ('local.get', 1), ('i32.eqz',), ('br_if', 1),
            ('block', None, [('loop', None, [
                ('local.get', 0), zero, one, (n, al, 0), zero, ('%s.ne' % t,), ('br_if', 0)])]),
            ('local.get', 0), ('local.get', 0), ('i64.load', 3, 64), ('i64.const', 1), ('i64.add',), ('i64.store', 3, 64),
            ('local.get', 0), zero, (sn, al, 0),
            ('local.get', 1), ('i32.const', 1), ('i32.sub',), ('local.set', 1), ('br', 0)])])]
        m.funcs.append(Func(m.type_index((I32, I32), ()), [], body))
        m.exports.append((('lock_%d' % fi).encode(), 'func', len(m.funcs) - 1))
    m.funcs.append(Func(m.type_index((I32,), (I64,)), [], [('local.get', 0), ('i64.load', 3, 64)]))
    m.exports.append((b'ctr', 'func', len(m.funcs) - 1))
    wasm.validate(m)
    return m


def stress_driver():
    out = ['''#include <stdio.h>
#include <stdlib.h>
#include <string.h>
#include <pthread.h>
#include "m.h"
void trap(Trap t) { fprintf(stderr, "trap %d\\n", (int)t); abort(); }
#ifdef VF_IMPORTED_MEMORY
static wasmMemory* vf_shared;
static void* vf_resolve(const char* module, const char* name) {
    (void)module;
    if (strcmp(name, "memory") == 0) { if (!vf_shared) vf_shared = wasmMemoryAllocate(1, 1, true); return vf_shared; }
    return NULL;
}
#define VF_RESOLVER vf_resolve
#else
#define VF_RESOLVER NULL
#endif
static mInstance root;
static int MODE, FL, T, N; static U32 ADDR = 64; static int ADDERS_DONE, ADDERS_FINISHED;
typedef struct { int tid; mInstance* inst; U64* olds; } W;
static pthread_barrier_t bar;
''']
    for op in ('add', 'sub', 'and', 'or', 'xor', 'xchg'):
        out.append('static U64 do_%s(mInstance* i, U64 v) { switch (FL) {' % op)
        for fi, (t, w, nb) in enumerate(SHAPES):
            ct = 'U32' if t == 'i32' else 'U64'
            out.append('  case %d: return (U64)m_%s_%d(i, ADDR, (%s)v);' % (fi, op, fi, ct))
        out.append('  } return 0; }')
    out.append('static void do_addn(mInstance* i, U32 n) { switch (FL) {')
    for fi, (t, w, nb) in enumerate(SHAPES):
        out.append('  case %d: m_addn_%d(i, ADDR, n); return;' % (fi, fi))
    out.append('  } }')
    out.append('static U64 do_drain(mInstance* i, U32 n) { switch (FL) {')
    for fi, (t, w, nb) in enumerate(SHAPES):
        out.append('  case %d: return (U64)m_drain_%d(i, ADDR, n);' % (fi, fi))
    out.append('  } return 0; }')
    out.append('static U64 do_cmpxchg(mInstance* i, U64 e, U64 v) { switch (FL) {')
    for fi, (t, w, nb) in enumerate(SHAPES):
        ct = 'U32' if t == 'i32' else 'U64'
        out.append('  case %d: return (U64)m_cmpxchg_%d(i, ADDR, (%s)e, (%s)v);' % (fi, fi, ct, ct))
    out.append('  } return 0; }')
    out.append('static void do_incr(mInstance* i, U32 n) { switch (FL) {')
    for fi in range(len(SHAPES)):
        out.append('  case %d: m_incr_%d(i, ADDR, n); return;' % (fi, fi))
    out.append('  } }')
    out.append('static void do_lock(mInstance* i, U32 n) { switch (FL) {')
    for fi in range(len(SHAPES)):
        out.append('  case %d: m_lock_%d(i, ADDR, n); return;' % (fi, fi))
    out.append('  } }')
    out.append('static U64 do_load(mInstance* i) { switch (FL) {')
    for fi in range(len(SHAPES)):
        out.append('  case %d: return (U64)m_load_%d(i, ADDR);' % (fi, fi))
    out.append('  } return 0; }')
    out.append('static void do_store(mInstance* i, U64 v) { switch (FL) {')
    for fi, (t, w, nb) in enumerate(SHAPES):
        out.append('  case %d: m_store_%d(i, ADDR, (%s)v); return;' % (fi, fi, 'U32' if t == 'i32' else 'U64'))
    out.append('  } }')
    out.append(r'''
static void* worker(void* p) {
    W* w = (W*)p; int k;
    pthread_barrier_wait(&bar);
    if (MODE == 11) {
        /* loops inside the module: odd threads drain (sum modulo the access width), even threads add */
        U64 msk = FL_BITS == 64 ? ~(U64)0 : (((U64)1 << FL_BITS) - 1);
        if (w->tid % 2) { w->olds[0] = do_drain(w->inst, (U32)N) & msk; /* keep draining while the adders run */
            for (k = 0; k < 200 && !__atomic_load_n(&ADDERS_DONE, __ATOMIC_SEQ_CST); k++) w->olds[0] = (w->olds[0] + do_drain(w->inst, (U32)N)) & msk; }
        else { do_addn(w->inst, (U32)N); if (__atomic_add_fetch(&ADDERS_FINISHED, 1, __ATOMIC_SEQ_CST) >= (T + 1) / 2) __atomic_store_n(&ADDERS_DONE, 1, __ATOMIC_SEQ_CST); }
        return NULL;
    }
    for (k = 0; k < N; k++) {
        switch (MODE) {
        case 0: w->olds[k] = do_add(w->inst, 1); break;
        case 1: w->olds[k] = do_sub(w->inst, 1); break;
        case 2: w->olds[k] = do_xchg(w->inst, (U64)(w->tid * N + k + 1)); break;
        case 3: do_incr(w->inst, 1); break;
        case 4: w->olds[k] = do_or(w->inst, (U64)1 << ((w->tid * N + k) % (FL_BITS))); break;
        case 5: w->olds[k] = do_and(w->inst, ~((U64)1 << ((w->tid * N + k) % (FL_BITS)))); break;
        case 6: w->olds[k] = do_xor(w->inst, (U64)1 << (w->tid % (FL_BITS))); break;
        case 7: do_lock(w->inst, 1); break;
        case 8: if (w->tid % 2) do_incr(w->inst, 1); else (void)do_add(w->inst, 1); break;   /* fetch-add against compare-exchange loops on one cell */
        case 10:
            /* every kind of add-like read-modify-write against an exchange that drains the cell: thread kinds by tid % 4 - fetch-add 1;
               xchg 0 (what it takes out is summed up); add 3 + sub 2; compare-exchange increment.  Whatever the interleaving,
               what is left in the cell plus what the drainers took out equals the initial value plus one per iteration of the others */
            switch (w->tid % 4) {
            case 0: (void)do_add(w->inst, 1); break;
            case 1: w->olds[0] = (w->olds[0] + do_xchg(w->inst, 0)) & (FL_BITS == 64 ? ~(U64)0 : (((U64)1 << FL_BITS) - 1)); break;   /* sum modulo the access width */
            case 2: (void)do_add(w->inst, 3); (void)do_sub(w->inst, 2); break;
            default: do_incr(w->inst, 1); break;
            }
            break;
        case 9:
            /* thread 0 stores a fresh value and reads it back; everybody else performs read-modify-writes that leave the cell as it
               is (add 0, sub 0, or 0, and ~0, xor 0, cmpxchg x->x): in every total order the load returns the value just stored */
            if (w->tid == 0) {
                U64 m = FL_BITS == 64 ? ~(U64)0 : (((U64)1 << FL_BITS) - 1);
                U64 v = ((U64)(k + 1) * 0x9E3779B97F4A7C15ull | 1) & m, x;
                do_store(w->inst, v); x = do_load(w->inst);
                if (x != v) { if (!w->olds[0]) { w->olds[1] = (U64)k; w->olds[2] = v; w->olds[3] = x; } w->olds[0]++; }
            } else switch ((w->tid + k) % 6) {
                case 0: (void)do_add(w->inst, 0); break;
                case 1: (void)do_sub(w->inst, 0); break;
                case 2: (void)do_or(w->inst, 0); break;
                case 3: (void)do_and(w->inst, ~(U64)0); break;
                case 4: (void)do_xor(w->inst, 0); break;
                default: { U64 c = do_load(w->inst); (void)do_cmpxchg(w->inst, c, c); } break;
            }
            break;
        }
    }
    return NULL;
}
int FL_BITS;
int main(int argc, char** argv) {
    pthread_t th[16]; W ws[16]; int t, k; U64 init;
    static const int bits[] = {32, 64, 8, 16, 8, 16, 32};
    (void)argc;
    MODE = atoi(argv[1]); FL = atoi(argv[2]); T = atoi(argv[3]); N = atoi(argv[4]); init = strtoull(argv[5], NULL, 10);
    FL_BITS = bits[FL];
    mInstantiate(&root, VF_RESOLVER);
    do_store(&root, init);
    pthread_barrier_init(&bar, NULL, (unsigned)T);
    for (t = 0; t < T; t++) {
        ws[t].tid = t; ws[t].olds = (U64*)calloc((size_t)N + 1, sizeof(U64));
        ws[t].inst = (mInstance*)root.common.newChild((wasmModuleInstance*)&root);
        pthread_create(&th[t], NULL, worker, &ws[t]);
    }
    for (t = 0; t < T; t++) pthread_join(th[t], NULL);
    for (t = 0; t < T; t++) { printf("T %d", t); for (k = 0; k < N; k++) printf(" %llx", (unsigned long long)ws[t].olds[k]); printf("\n"); }
    printf("F %llx\n", (unsigned long long)do_load(&root));
    printf("C %llu\n", (unsigned long long)m_ctr(&root, ADDR));
    /* neighbouring cells must be untouched */
    { wasmMemory* mem = m_memory(&root); int i; int dirty = 0; for (i = 0; i < 256; i++) if ((i < 64 || i >= 72) && !(i >= 128 && i < 136) && mem->data[i]) dirty = 1; printf("D %d\n", dirty); }
    return 0;
}
''')
    return '\n'.join(out).replace('int FL_BITS;\nint main', 'int main').replace('static int MODE, FL, T, N;', 'static int MODE, FL, T, N, FL_BITS;')


BUILDS = {'gcc-O2': ['gcc', '-O2', '-w'], 'clang-O2': ['clang', '-O2', '-w'], 'gcc-O0': ['gcc', '-O0', '-w'],
          'clang-tsan': ['clang', '-O1', '-g', '-w', '-fsanitize=thread'],
          'gcc-O2-ndebug': ['gcc', '-O2', '-w', '-DNDEBUG'], 'clang-tsan-ndebug': ['clang', '-O1', '-g', '-w', '-fsanitize=thread', '-DNDEBUG'],
          # the big-endian code paths (mutex-based read-modify-write) under contention
          # ThreadSanitizer on the big-endian paths: used with the add-loop / drain-loop mode only, whose operations (fetch-add, exchange)
          # are all emulated under a lock there - two of them touching the cell without a common lock is a report
          'clang-tsan-be': ['clang', '-O1', '-g', '-w', '-fsanitize=thread', '-DWASM_ENDIAN=1'],
          'gcc-O2-be': ['gcc', '-O2', '-w', '-DWASM_ENDIAN=1'], 'clang-O2-be': ['clang', '-O2', '-w', '-DWASM_ENDIAN=1']}
_bin = {}


def stress_binary(build, imported=False):
    key = (build, imported)
    if key in _bin and os.path.exists(_bin[key]):
        return _bin[key]
    d = cexec.new_dir('st')
    tr = cexec.translate(wasm.encode(stress_module(imported)), d, 'm', (), 'plain')
    if tr.rc != 0:
        raise cexec.InfraError('translating the atomics stress module failed: %s' % tr.err[-300:])
    open(os.path.join(d, 'driver.c'), 'w').write(stress_driver())
    cmd = BUILDS[build] + (['-DVF_IMPORTED_MEMORY=1'] if imported else []) + \
        ['-DWASM_THREADS_PTHREADS', '-I', os.path.join(cexec.REPO, 'w2c2'), '-I', os.path.join(cexec.REPO, 'futex'),
         'driver.c', 'm.c'] + [os.path.join(cexec.REPO, 'futex', f) for f in cexec.FUTEX_SRCS] + \
        ['-o', 'stress', '-lpthread', '-lm']
    r = cexec.run(cmd, cwd=d)
    if r.returncode != 0:
        raise cexec.InfraError('building the atomics stress harness (%s) failed: %s' % (build, r.stderr.decode(errors='replace')[-1500:]))
    _bin[key] = os.path.join(d, 'stress')
    return _bin[key]


MODES = ['add', 'sub', 'xchg', 'cas-incr', 'or', 'and', 'xor', 'cas-lock', 'add-vs-cas', 'store-vs-rmw', 'mixed-vs-xchg-drain', 'addloop-vs-drainloop']


def run_stress(case):
    mode, fl, T, N, build = case['mode'], case['flavour'], case['T'], case['N'], case['build']
    bits = SHAPES[fl][2] * 8
    M = (1 << bits) - 1
    init = case['init'] & M
    if mode == 5:
        init = M
    exe = stress_binary(build, bool(case.get('imported')))
    env = dict(os.environ)
    env['TSAN_OPTIONS'] = 'exitcode=96:report_thread_leaks=0'
    try:
        r = subprocess.run([exe, str(mode), str(fl), str(T), str(N), str(init)], stdout=subprocess.PIPE, stderr=subprocess.PIPE,
                           env=env, timeout=300)
    except subprocess.TimeoutExpired:
        return 'timeout', 'stress run did not finish', False
    if r.returncode != 0:
        err = r.stderr.decode(errors='replace')
        key = ([l for l in err.splitlines() if 'WARNING: ThreadSanitizer' in l] or ['exit %d' % r.returncode])[0]
        return 'stress-exit:' + f1.normalize_diag(key), 'stress harness exit %d: %s' % (r.returncode, err[-1200:]), False
    olds = {}
    final = None
    dirty = 0
    counter = None
    for ln in r.stdout.decode().splitlines():
        p = ln.split()
        if p[0] == 'T':
            olds[int(p[1])] = [int(x, 16) for x in p[2:]]
        elif p[0] == 'F':
            final = int(p[1], 16)
        elif p[0] == 'D':
            dirty = int(p[1])
        elif p[0] == 'C':
            counter = int(p[1])
    allolds = [o for t in sorted(olds) for o in olds[t]]
    total = T * N
    name = MODES[mode]
    inter = False
    if mode in (0, 1):
        # each thread's own sequence is monotone; interleaving = some thread saw a gap
        for t in olds:
            for a, b in zip(olds[t], olds[t][1:]):
                if (b - a) & M != (1 if mode == 0 else M):
                    inter = True
    if dirty:
        return 'neighbour', '%s flavour %d: bytes next to the cell were modified' % (name, fl), inter
    if any(o > M for o in allolds):
        return 'zero-extend', '%s flavour %d returned an old value wider than %d bits' % (name, fl, bits), inter
    if mode == 0 or mode == 1:
        step = 1 if mode == 0 else -1
        want_final = (init + step * total) & M
        want = sorted(((init + step * k) & M) for k in range(total))
        if final != want_final:
            return 'lost-update', '%s flavour %d T=%d N=%d: final %x, expected %x (init %x)' % (name, fl, T, N, final, want_final, init), inter
        if sorted(allolds) != want:
            return 'old-values', '%s flavour %d: returned old values are not one total order (duplicates or gaps)' % (name, fl), inter
    elif mode == 2:
        stored = [t * N + k + 1 for t in range(T) for k in range(N)]
        if sorted(allolds + [final]) != sorted([init] + [s & M for s in stored]):
            return 'xchg', 'xchg flavour %d: returned values + final are not initial + stored values' % fl, inter
        inter = any(o != init and (o - 1) // N != t for t in olds for o in olds[t])
    elif mode == 3:
        if final != (init + total) & M:
            return 'lost-update', 'compare-exchange increment loops flavour %d T=%d N=%d: final %x expected %x' % (fl, T, N, final, (init + total) & M), inter
        inter = True
    elif mode == 4:
        want = init
        for t in range(T):
            for k in range(N):
                want |= 1 << ((t * N + k) % bits)
        if final != want:
            return 'lost-update', 'or flavour %d: final %x expected %x' % (fl, final, want), inter
    elif mode == 5:
        want = init
        for t in range(T):
            for k in range(N):
                want &= ~(1 << ((t * N + k) % bits))
        if final != want & M:
            return 'lost-update', 'and flavour %d: final %x expected %x' % (fl, final, want & M), inter
    elif mode == 8:
        inter = True
        if final != (init + total) & M:
            return 'lost-update', ('fetch-add against compare-exchange increments, flavour %d T=%d N=%d: final %x, expected %x: the two '
                                   'kinds of read-modify-write do not exclude each other' % (fl, T, N, final, (init + total) & M)), inter
    elif mode == 11:
        inter = True
        drained = sum(olds.get(t, [0])[0] for t in range(T) if t % 2 == 1)
        incs = sum(N for t in range(T) if t % 2 == 0)
        if (final + drained) & M != (init + incs) & M:
            return 'lost-update', ('fetch-add loops against exchange(0) drain loops running inside the module, flavour %d T=%d N=%d build %s: left in the cell %x + '
                                   'taken out by the drainers %x = %x, but initial value + additions = %x: add and exchange do not exclude each other'
                                   % (fl, T, N, build, final, drained & M, (final + drained) & M, (init + incs) & M)), inter
    elif mode == 10:
        inter = True
        drained = sum(olds.get(t, [0])[0] for t in range(T) if t % 4 == 1)
        incs = sum(N for t in range(T) if t % 4 != 1)
        if (final + drained) & M != (init + incs) & M:
            return 'lost-update', ('add / add+sub / compare-exchange increments against exchange(0) drainers, flavour %d T=%d N=%d build %s: left in the cell %x + '
                                   'taken out by the drainers %x = %x, but initial value + increments = %x: the kinds of read-modify-write do not '
                                   'exclude each other' % (fl, T, N, build, final, drained & M, (final + drained) & M, (init + incs) & M)), inter
    elif mode == 9:
        inter = True
        o = olds.get(0, [0, 0, 0, 0])
        if o[0]:
            return 'lost-update', ('atomic store against value-preserving read-modify-writes (add 0, or 0, cmpxchg x->x, ...), flavour %d T=%d '
                                   'N=%d build %s: %d of %d stores were undone - store number %d wrote %x, the load right after it '
                                   'returned %x: a concurrent read-modify-write wrote back the value it had read before the store' % (
                                       fl, T, N, build, o[0], N, o[1], o[2], o[3])), inter
    elif mode == 7:
        inter = True
        if counter != total or final != 0:
            return 'cmpxchg-lock', ('compare-exchange spin lock, flavour %d T=%d N=%d: %d of %d increments of the protected counter '
                                    'survived (lock word %x): a compare-exchange reported success without storing' % (fl, T, N, counter, total, final)), inter
    else:
        want = init
        for t in range(T):
            if N % 2:
                want ^= 1 << (t % bits)
        if final != want:
            return 'lost-update', 'xor flavour %d: final %x expected %x' % (fl, final, want), inter
    return None, None, inter


def stress_task(wid, seed, params):
    res = {'evaluations': 0, 'nontrivial': set(), 'classes': collections.Counter(), 'samples': [], 'violations': [],
           'infra': [], 'extra': {}}
    for ci in range(params['ncases']):
        ch = Chooser(seed * 1000003 + ci)
        fl = (wid + ci) % len(SHAPES)
        mode = (wid // 7 + ci // 7 + ch.below(12)) % 12
        bits = SHAPES[fl][2] * 8
        T = ch.pick((2, 3, 4, 8))
        cap = (1 << bits) - 2
        N = ch.pick((1000, 20000, 100000)) if bits >= 32 else max(min(cap // T, ch.pick((16, 60, 250, 8000))), 1)
        if mode == 2 and bits < 32:
            N = max(min((cap - 1) // T, N), 1)
        build = params['builds'][(wid + ci) % len(params['builds'])]
        if build == 'clang-tsan-be':
            mode = 11
        if 'tsan' in build:
            N = min(N, 5000)
        case = {'kind': 'stress', 'mode': mode, 'flavour': fl, 'T': T, 'N': N, 'build': build, 'init': ch.bits(64) if mode in (2, 4, 6) else ch.below(3),
                'imported': ch.below(3) == 0}
        if mode in (2, 7):
            case['init'] = 0
        if mode == 7:
            case['N'] = N = ch.pick((2000, 20000, 100000)) if 'tsan' not in build else 2000
        if mode == 9:
            case['N'] = N = ch.pick((20000, 100000, 400000)) if 'tsan' not in build else 3000
            case['T'] = T = max(T, 2)
        if mode == 11:
            case['N'] = N = ch.pick((100000, 400000)) if 'tsan' not in build else 3000
            case['T'] = T = ch.pick((2, 3, 4, 8))
            case['init'] = ch.below(3)
        if mode == 10:
            # the window between the read and the write of an emulated read-modify-write is a few nanoseconds: millions of iterations
            case['N'] = N = ch.pick((1000000, 3000000)) if 'tsan' not in build else 3000
            case['T'] = T = ch.pick((3, 4, 8))
            case['init'] = ch.below(3)
        try:
            sig, msg, inter = run_stress(case)
        except cexec.InfraError as e:
            res['infra'].append(str(e))
            continue
        res['evaluations'] += T * N
        res['classes']['mode_' + MODES[mode]] += 1
        res['classes']['build_' + build] += 1
        if case.get('imported'):
            res['classes']['stress_imported_memory'] += 1
        if inter:
            res['classes']['interleaved'] += 1
            res['nontrivial'].add(f1.hx((mode, fl, T, N, build)))
        if ci < 2:
            res['samples'].append({'mode': MODES[mode], 'flavour': '%s.atomic.rmw%s' % SHAPES[fl][:2], 'T': T, 'N': N, 'build': build})
        if sig and len(res['violations']) < 2:
            res['violations'].append({'signature': 'c16:' + sig, 'summary': msg[:600], 'replay': {'kind': 'stress', 'case': case, 'message': msg[:1500]}})
    return res


def dispatch(wid, seed, params):
    if params.get('big'):
        # atomic stores / loads in pages that another thread's memory.grow has just added (the large-memory harness of C18): every
        # store is read back by the storing thread
        from . import c18
        r = c18.big_task(wid, seed, params)
        for v in r['violations']:
            v['signature'] = v['signature'].replace('c18:', 'c16:')
        r['classes'] = collections.Counter(dict(('atomics_during_grow_' + k, n) for k, n in r['classes'].items()))
        return r
    if params.get('stress'):
        return stress_task(wid, seed, params)
    return f1.case_task(wid, seed, params)


def replay(rp):
    if rp.get('kind') == 'big':
        from . import c18
        return c18.replay(rp)
    if rp.get('kind') == 'stress':
        for _ in range(5):          # concurrency failures are probabilistic: several attempts
            if run_stress(rp['case'])[0]:
                return True
        return False
    return f1.case_replay(rp)


def plan(tier, seed):
    if tier == 'quick':
        seq = [{'maker': 'c16_seq', 'ncases': 12, 'ccs': ['gcc-O0', 'clang-O2', 'gcc-O2', 'clang-O0', 'clang-O1-san', 'gcc-O1-be', 'clang-O2-be'], 'nsteps': 160,
                'shrink_budget': 20, 'reduce_budget': 10} for _ in range(8)]
        st = [{'stress': True, 'ncases': 14, 'builds': ['gcc-O2', 'clang-O2', 'clang-tsan', 'gcc-O0', 'gcc-O2-ndebug', 'clang-tsan-ndebug', 'gcc-O2-be', 'clang-O2-be', 'clang-tsan-be']} for _ in range(8)]
        return seq + st + [{'big': True, 'ncases': 3, 'builds': ['clang-tsan', 'gcc-O2', 'clang-asan']} for _ in range(2)]
    seq = [{'maker': 'c16_seq', 'ncases': 200, 'ccs': ['gcc-O0', 'clang-O2', 'gcc-O2', 'clang-O0', 'clang-O1-san', 'gcc-O3', 'clang-O3', 'gcc-O1-be', 'clang-O2-be', 'gcc-O0-be'],
            'nsteps': 400, 'shrink_budget': 30, 'reduce_budget': 20} for _ in range(24)]
    st = [{'stress': True, 'ncases': 300, 'builds': ['gcc-O2', 'clang-O2', 'clang-tsan', 'gcc-O0', 'gcc-O2-ndebug', 'clang-tsan-ndebug', 'gcc-O2-be', 'clang-O2-be', 'clang-tsan-be']} for _ in range(16)]
    return seq + st + [{'big': True, 'ncases': 30, 'builds': ['clang-tsan', 'gcc-O2', 'clang-asan']} for _ in range(4)]


def run(tier, seed):
    return f1.standard_run(ID, LEVEL, RULE, ASSUME, plan(tier, seed), dispatch, replay, tier, seed)
