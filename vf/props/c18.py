"""C18 — growing a shared memory from several threads is linearizable and race-free."""
import collections
import os
import subprocess

from .. import f1, sched, cexec, wasm
from ..choice import Chooser
from . import c17

ID = 'C18'
LEVEL = 'exploration'
RULE = ('(a) vsched harness (see C17): 2-6 threads on one shared memory (min 1, max 6 pages; defined by the module or imported from the embedder), generated lists of memory.grow(delta '
        'in {0,1,2,3,5, 2^32-1}), memory.size, atomic loads/stores, and the other users of the mutex of the memory: notify with any count (nobody waits: result 0) and waits that do not block; the scheduler (which reports an unlock by a thread that does not hold the mutex) yields at every mutex operation, so a thread can be '
        'preempted between looking at the size and taking the lock; several generated decision strings per program. Oracle: '
        'successful grows ordered by their acquisition of the memory mutex must each return the page count produced by their '
        'predecessors (one sequential order, all old sizes distinct), never exceed the maximum, final pages/size = initial + sum '
        'of successful deltas, failed grows only when the size at their start or end does not allow the delta, memory.size = the '
        'count at that point of the order, a successful grow of a shared memory takes the mutex. (b) real threads: the same '
        'module under ThreadSanitizer with concurrent grow / size / load / store must produce no race report on the memory '
        'descriptor. Non-trivial = schedule with >= 2 successful grows, one of them preempted between its start and its lock '
        'acquisition by the other, or a failing grow; distinct by (programs, decision string). Large memories: a shared memory '
        'with a maximum of 9000-33000 pages is grown from 1 page to its maximum in generated steps (1-16383 pages) by 1-3 threads '
        'while 1-3 others store / load / fill in the first page and in the newest page memory.size reports (real threads; ThreadSanitizer, AddressSanitizer and optimised '
        'builds): no report, every store read back, grow results form one chain, final size = 1 + successful deltas. Thread creation '
        'faults: threads started through wasi thread-spawn with every n-th pthread_create failing - the shared memory descriptor '
        'stays as it was (ASan / TSan builds). A third of the ThreadSanitizer runs use a module translated with -f 1 (every function compiled in a C file of its own).')
ASSUME = ['linearization point = acquisition of the memory mutex, the mechanism the property names', 'schedules are sampled']


def gen_case(ch, params):
    T = 2 + ch.below(5)
    threads = {}
    for t in range(1, T + 1):
        ops = []
        for _ in range(1 + ch.below(params.get('maxops', 5))):
            k = ch.below(10)
            if k < 6:
                ops.append([5, ch.pick((1, 1, 1, 2, 2, 3, 0, 5, 0xffffffff)), 0, 0])
            elif k < 8:
                ops.append([6, 0, 0, 0])
            elif k < 9:
                ops.append([3, ch.pick((0, 64, 4096)), ch.below(100), 0])
            elif ch.below(2):
                ops.append([7, ch.pick((0, 64, 4096)), 0, 0])
            elif ch.below(2):
                # the other users of the memory's mutex: notify (nobody ever waits in these programs: it finds no one, whatever
                # its count) and a wait whose expected value differs from the cell (address 128 is never written: returns 1 at once)
                ops.append([2, ch.pick((128, 64, 1152)), ch.pick((0, 0, 1, 2, 0xffffffff)), 0])
            else:
                ops.append([0, 128, 1 + ch.below(5), ch.pick((-1, 0, 1000))])
        threads[str(t)] = ops
    nd = ch.pick((0, 8, 40, 120))
    return {'threads': threads, 'addrs': [], 'decisions': bytes(ch.below(256) for _ in range(nd)).hex(), 'spurious': 0,
            'imported': ch.below(3) == 0, 'ndebug': ch.below(4) == 0}


def evaluate(case):
    st, events, extra = sched.run_case(case)
    if st == 'timeout':
        return ('timeout', 'harness did not finish'), set()
    if st == 'deadlock':
        return ('deadlock', 'scheduler-detected deadlock (a path that does not release the memory mutex?): ' + extra.get('stderr', '')[-300:]), set()
    if st != 'ok':
        key = ([l for l in extra.get('stderr', '').splitlines() if 'ERROR' in l or 'runtime error' in l or 'VSCHED' in l] or [st])[0]
        return ('crash:' + f1.normalize_diag(key), 'harness %s: %s' % (st, extra.get('stderr', '')[:900])), set()
    for e in events:
        if e.op == 2 and e.tid != 0 and e.res != 0:
            return ('notify-count', 'thread %d: notify(%d, %d) returned %d although no thread ever waits' % (e.tid, e.a, e.b, e.res)), set()
        if e.op == 0 and e.res != 1:
            return ('wait-result', 'thread %d: wait32 on a cell that differs from the expected value returned %d, not 1' % (e.tid, e.res)), set()
    v, classes = sched.check_grow(case, events, extra)
    if any(op[0] in (0, 2) for ops in case['threads'].values() for op in ops):
        classes = set(classes) | {'grow_next_to_wait_notify'}
    return v, classes


TSAN_DRIVER = r'''
#include <stdio.h>
#include <stdlib.h>
#include <pthread.h>
#include "m.h"
void trap(Trap t) { fprintf(stderr, "trap %d\n", (int)t); abort(); }
#ifdef VF_IMPORTED_MEMORY
#include <string.h>
static wasmMemory* vf_shared;
static void* vf_resolve(const char* module, const char* name) {
    (void)module;
    if (strcmp(name, "memory") == 0) { if (!vf_shared) vf_shared = wasmMemoryAllocate(1, VF_IMPORTED_MEMORY, true); return vf_shared; }
    return NULL;
}
#define VF_RESOLVER vf_resolve
#else
#define VF_RESOLVER NULL
#endif
static mInstance root;
static int N;
static pthread_barrier_t bar;
static void* grower(void* p) { mInstance* i = (mInstance*)p; int k; pthread_barrier_wait(&bar); for (k = 0; k < N; k++) { (void)m_grow(i, (U32)(k % 3 == 0)); (void)m_size(i); } return NULL; }
/* child instances created WHILE other threads are inside memory.grow / memory.size (what thread-spawn does): creating one must not
 * touch the state of the shared memory's descriptor */
static void* spawner(void* p) { int k; (void)p; pthread_barrier_wait(&bar); for (k = 0; k < N / 4 + 1; k++) { mInstance* c = (mInstance*)root.common.newChild((wasmModuleInstance*)&root); (void)m_size(c); } return NULL; }
/* bulk data accesses (memory.init from a passive segment, memory.fill, memory.copy) inside page 0 while other threads grow */
static int bulkno;
static void* bulk(void* p) { mInstance* i = (mInstance*)p; int k; U32 base = 60000 + 1000 * (U32)__sync_fetch_and_add(&bulkno, 1);   /* a region of its own: the guest program itself is race-free */
    pthread_barrier_wait(&bar); for (k = 0; k < N; k++) { m_init(i, base + (U32)(k % 4) * 16, (U32)(k % 8), 8); m_fill(i, base + 100, (U32)k, 32); m_copy(i, base + 200, base + 100, 32); } return NULL; }
static void* user(void* p) { mInstance* i = (mInstance*)p; int k; U32 acc = 0; pthread_barrier_wait(&bar); for (k = 0; k < N; k++) { m_store32(i, 64, (U32)k); acc += m_load32(i, 64); acc += m_size(i); } return (void*)(size_t)acc; }
int main(int argc, char** argv) {
    pthread_t th[8]; int t, T = atoi(argv[1]); N = atoi(argv[2]); (void)argc;
    mInstantiate(&root, VF_RESOLVER);
    pthread_barrier_init(&bar, NULL, (unsigned)T);
    for (t = 0; t < T; t++) pthread_create(&th[t], NULL, t == 3 ? spawner : (t % 4 == 2 ? bulk : (t % 2 && t != 7 ? user : grower))   /* one spawner: every child creation copies the active segment again */, root.common.newChild((wasmModuleInstance*)&root));
    for (t = 0; t < T; t++) pthread_join(th[t], NULL);
    printf("pages %u\n", m_memory(&root)->pages);
    return 0;
}
'''
_tsan = {}


def tsan_binary(imported=False, ndebug=False, split=False):
    """split=True: the module is translated with -f 1 (documented separate compilation: every function in a file of its own, each
    including the runtime header), so that grow, size and the data accesses of one memory are compiled in different C files"""
    key = (imported, ndebug, split)
    if key in _tsan and os.path.exists(_tsan[key]):
        return _tsan[key]
    d = cexec.new_dir('tg')
    tr = cexec.translate(wasm.encode(sched.harness_module(imported)), d, 'm', ('-f', '1') if split else (), 'plain')
    if tr.rc != 0:
        raise cexec.InfraError('translate failed')
    parts = sorted(f for f in os.listdir(d) if f.endswith('.c') and f != 'm.c')
    open(os.path.join(d, 'drv.c'), 'w').write(TSAN_DRIVER)
    cmd = ['clang', '-O1', '-g', '-w', '-fsanitize=thread'] + (['-DVF_IMPORTED_MEMORY=%d' % sched.MAXPAGES] if imported else []) + (['-DNDEBUG'] if ndebug else []) + ['-DWASM_THREADS_PTHREADS', '-I', os.path.join(cexec.REPO, 'w2c2'),
           '-I', os.path.join(cexec.REPO, 'futex'), 'drv.c', 'm.c'] + parts + [os.path.join(cexec.REPO, 'futex', f) for f in cexec.FUTEX_SRCS] + \
        ['-o', 'tg', '-lpthread', '-lm']
    r = cexec.run(cmd, cwd=d)
    if r.returncode != 0:
        raise cexec.InfraError('building the TSan grow harness failed: %s' % r.stderr.decode(errors='replace')[-1200:])
    _tsan[key] = os.path.join(d, 'tg')
    return _tsan[key]


def run_tsan(case):
    exe = tsan_binary(bool(case.get('imported')), bool(case.get('ndebug')), bool(case.get('split')))
    env = dict(os.environ)
    env['TSAN_OPTIONS'] = 'exitcode=96:report_thread_leaks=0'
    try:
        r = subprocess.run([exe, str(case['T']), str(case['N'])], stdout=subprocess.PIPE, stderr=subprocess.PIPE, env=env, timeout=300)
    except subprocess.TimeoutExpired:
        return ('timeout', 'TSan harness did not finish')
    if r.returncode != 0:
        err = r.stderr.decode(errors='replace')
        locs = [l.strip() for l in err.splitlines() if l.strip().startswith('#0')][:2]
        return ('tsan:' + f1.normalize_diag(' '.join(locs))[:80], 'ThreadSanitizer: %s' % err[:1500])
    return None


# ------------------------------------------------------------------------------------------------ large shared memories
# A shared memory whose declared maximum is gigabytes (16500 ... 33000 pages): growers take it from 1 page up to the maximum in
# generated steps (1 ... 16383 pages at a time) WHILE other threads load, store and fill in the first page.  However the runtime
# manages the reservation, the data of a shared memory must stay where the other threads are using it: ThreadSanitizer / ASan builds
# must stay silent, every store must be read back, and the grow results must form one chain.
BIG_DRIVER = r'''
#include <stdio.h>
#include <stdlib.h>
#include <string.h>
#include <pthread.h>
#include <sched.h>
#include "m.h"
void trap(Trap t) { fprintf(stderr, "trap %d\n", (int)t); _exit(70); }
#ifdef VF_IMPORTED_MEMORY
static wasmMemory* vf_shared;
static void* vf_resolve(const char* module, const char* name) {
    (void)module;
    if (strcmp(name, "memory") == 0) { if (!vf_shared) vf_shared = wasmMemoryAllocate(1, VF_IMPORTED_MEMORY, true); return vf_shared; }
    return NULL;
}
#define VF_RESOLVER vf_resolve
#else
#define VF_RESOLVER NULL
#endif
static mInstance root;
static int ND; static unsigned deltas[256]; static unsigned results[256]; static int nextd;
static volatile int done; static unsigned long progress; static unsigned long mism; static int K;
static pthread_barrier_t bar;
static void* grower(void* p) {
    mInstance* i = (mInstance*)p; int j;
    pthread_barrier_wait(&bar);
    while ((j = __sync_fetch_and_add(&nextd, 1)) < ND) {
        /* grow number j happens after the users have made j*K accesses: the grows are spread over the users' activity */
        while (__atomic_load_n(&progress, __ATOMIC_RELAXED) < (unsigned long)j * (unsigned long)K) sched_yield();
        results[j] = m_grow(i, deltas[j]);
    }
    return NULL;
}
static int userno;
static void* user(void* p) {
    mInstance* i = (mInstance*)p; unsigned k = 0; int id = __sync_fetch_and_add(&userno, 1); U32 cell = 4096 + 64 * (U32)id;
    pthread_barrier_wait(&bar);
    while (!__atomic_load_n(&done, __ATOMIC_RELAXED)) {
        k++;
        /* every second user works at the frontier: in the newest page memory.size reports (a page another thread's grow has just
           added is as much part of the memory as the first one) */
        if (id % 2 == 1) cell = (m_size(i) - 1) * 65536u + 1024u + 64u * (U32)id;
        m_store32(i, cell, k);
        if (m_load32(i, cell) != k) __sync_fetch_and_add(&mism, 1);
        if ((k & 63) == 0) { m_fill(i, (id % 2 == 1 ? 4096u + 64u * (U32)id : cell) + 16384, k, 32); (void)m_size(i); }
        __sync_fetch_and_add(&progress, 1);
    }
    return NULL;
}
int main(int argc, char** argv) {
    pthread_t th[8]; int t, G = atoi(argv[1]), U = atoi(argv[2]), j;
    K = atoi(argv[3]);
    for (j = 4; j < argc && ND < 256; j++) deltas[ND++] = (unsigned)strtoul(argv[j], NULL, 10);
    mInstantiate(&root, VF_RESOLVER);
    pthread_barrier_init(&bar, NULL, (unsigned)(G + U));
    for (t = 0; t < G + U; t++) pthread_create(&th[t], NULL, t < G ? grower : user, root.common.newChild((wasmModuleInstance*)&root));
    for (t = 0; t < G; t++) pthread_join(th[t], NULL);
    __atomic_store_n(&done, 1, __ATOMIC_RELAXED);
    for (t = G; t < G + U; t++) pthread_join(th[t], NULL);
    for (j = 0; j < ND; j++) printf("G %u %u\n", deltas[j], results[j]);
    printf("P %u\nM %lu\nA %lu\n", m_memory(&root)->pages, mism, progress);
    return 0;
}
'''
_big = {}
BIG_BUILDS = {'clang-tsan': ['clang', '-O1', '-g', '-w', '-fsanitize=thread'], 'clang-asan': ['clang', '-O1', '-g', '-w', '-fsanitize=address'],
              'gcc-O2': ['gcc', '-O2', '-w']}


def big_binary(build, maxpages, imported):
    key = (build, maxpages, imported)
    if key in _big and os.path.exists(_big[key]):
        return _big[key]
    d = cexec.new_dir('bg')
    tr = cexec.translate(wasm.encode(sched.harness_module(imported, maxpages)), d, 'm', (), 'plain')
    if tr.rc != 0:
        raise cexec.InfraError('translate failed')
    open(os.path.join(d, 'drv.c'), 'w').write(BIG_DRIVER)
    cmd = BIG_BUILDS[build] + (['-DVF_IMPORTED_MEMORY=%d' % maxpages] if imported else []) + ['-DWASM_THREADS_PTHREADS', '-I', os.path.join(cexec.REPO, 'w2c2'),
           '-I', os.path.join(cexec.REPO, 'futex'), 'drv.c', 'm.c'] + [os.path.join(cexec.REPO, 'futex', f) for f in cexec.FUTEX_SRCS] + \
        ['-o', 'bg', '-lpthread', '-lm']
    r = cexec.run(cmd, cwd=d)
    if r.returncode != 0:
        raise cexec.InfraError('building the large-memory grow harness failed: %s' % r.stderr.decode(errors='replace')[-1200:])
    _big[key] = os.path.join(d, 'bg')
    return _big[key]


def run_big(case):
    exe = big_binary(case['build'], case['maxpages'], bool(case.get('imported')))
    env = dict(os.environ)
    env['TSAN_OPTIONS'] = 'exitcode=96:report_thread_leaks=0'
    env['ASAN_OPTIONS'] = 'detect_leaks=0:exitcode=99:allocator_may_return_null=1'
    try:
        r = subprocess.run([exe, str(case['G']), str(case['U']), str(case['K'])] + [str(x) for x in case['deltas']],
                           stdout=subprocess.PIPE, stderr=subprocess.PIPE, env=env, timeout=600)
    except subprocess.TimeoutExpired:
        return ('timeout', 'large-memory harness did not finish')
    err = r.stderr.decode(errors='replace')
    if r.returncode == 70 and 'trap 4' in err:          # trapAllocationFailed
        return None         # the host could not provide the reservation at instantiation: nothing to decide
    if r.returncode != 0:
        locs = [l.strip() for l in err.splitlines() if l.strip().startswith('#0') or 'ERROR: AddressSanitizer' in l][:2]
        return ('big:' + f1.normalize_diag(' '.join(locs) or 'exit %d' % r.returncode)[:80],
                'shared memory with a maximum of %d pages, growers %d, users %d (%s): exit %d: %s' % (case['maxpages'], case['G'], case['U'], case['build'], r.returncode, cexec.san_head(err, 1500)))
    grows, pages, mism = [], None, None
    for ln in r.stdout.decode().splitlines():
        p = ln.split()
        if p[0] == 'G':
            grows.append((int(p[1]), int(p[2])))
        elif p[0] == 'P':
            pages = int(p[1])
        elif p[0] == 'M':
            mism = int(p[1])
    if mism:
        return ('big:readback', 'shared memory with a maximum of %d pages (%s): %d stores were not read back by the storing thread while other threads grew the memory' % (case['maxpages'], case['build'], mism))
    ok = sorted((old, d) for d, old in grows if old != 0xffffffff)
    cur = 1
    for old, d in ok:
        if old != cur:
            return ('big:chain', 'grow results do not form one chain from 1 page: %r' % (ok[:12],))
        cur += d
    if cur > case['maxpages'] or pages != cur:
        return ('big:final', 'final size %r pages, successful grows add up to %d (maximum %d)' % (pages, cur, case['maxpages']))
    return None


def big_task(wid, seed, params):
    res = {'evaluations': 0, 'nontrivial': set(), 'classes': collections.Counter(), 'samples': [], 'violations': [],
           'infra': [], 'extra': {}}
    for ci in range(params['ncases']):
        ch = Chooser(seed * 1000003 + ci)
        maxpages = ch.pick((16500, 20000, 33000, 9000))
        deltas, tot = [], 1
        while tot < maxpages + 2000 and len(deltas) < 200:
            d = ch.pick((1, 2, 100, 1000, 1023, 1024, 1025, 4096, 8191, 8192, 16383, 1 + ch.below(3000)))
            deltas.append(d)
            tot += d
        case = {'kind': 'big', 'build': params['builds'][(wid + ci) % len(params['builds'])], 'maxpages': maxpages, 'G': ch.pick((1, 2, 3)),
                'U': ch.pick((1, 2, 2, 3)), 'K': ch.pick((20, 200, 1000)), 'deltas': deltas, 'imported': ch.below(3) == 0}
        try:
            bad = run_big(case)
        except cexec.InfraError as e:
            res['infra'].append(str(e))
            break
        res['evaluations'] += 1
        res['classes']['large_shared_memory_' + case['build']] += 1
        res['nontrivial'].add(f1.hx(repr(case)))
        if ci < 1:
            res['samples'].append({'large shared memory: maximum': maxpages, 'growers': case['G'], 'users': case['U'], 'build': case['build'], 'deltas': deltas[:10]})
        if bad and not res['violations']:
            res['violations'].append({'signature': 'c18:' + bad[0], 'summary': bad[1][:900], 'replay': {'kind': 'big', 'case': case, 'message': bad[1][:2500]}})
    return res


def spawnfail_task(wid, seed, params):
    """threads started through wasi thread-spawn (the harness of C15) on a module that DEFINES its shared memory, with every n-th
    thread creation failing: a spawn that fails leaves the shared memory descriptor alone - page count and data as before, no
    sanitizer report from the threads that keep using it"""
    from . import c15
    res = {'evaluations': 0, 'nontrivial': set(), 'classes': collections.Counter(), 'samples': [], 'violations': [],
           'infra': [], 'extra': {}}
    for ci in range(params['ncases']):
        ch = Chooser(seed * 1000003 + ci)
        case = {'kind': 'spawn', 'T': ch.pick((1, 2, 4)), 'K': ch.pick((2, 4, 8)), 'export': True, 'tsan': bool(ci % 2), 'imported': ch.below(4) == 0,
                'depth': 0, 'decoys': 0, 'fail_every': ch.pick((2, 3, 5))}
        try:
            bad = c15.run_spawn(case)
        except cexec.InfraError as e:
            res['infra'].append(str(e))
            break
        res['evaluations'] += case['T'] * case['K']
        res['classes']['thread_spawn_with_failing_thread_creation'] += 1
        res['nontrivial'].add(f1.hx(repr(case)))
        if bad and not res['violations']:
            res['violations'].append({'signature': 'c18:spawnfail:' + bad[0], 'summary': 'thread-spawn with failing thread creation on a shared memory: ' + bad[1][:900],
                                      'replay': {'kind': 'spawnfail', 'case': case, 'message': bad[1][:2500]}})
    return res


def task(wid, seed, params):
    res = {'evaluations': 0, 'nontrivial': set(), 'classes': collections.Counter(), 'samples': [], 'violations': [],
           'infra': [], 'extra': {}}
    if params.get('spawnfail'):
        return spawnfail_task(wid, seed, params)
    if params.get('big'):
        return big_task(wid, seed, params)
    if params.get('tsan'):
        for ci in range(params['ncases']):
            ch = Chooser(seed * 1000003 + ci)
            case = {'kind': 'tsan', 'T': ch.pick((2, 4, 6, 8)), 'N': ch.pick((200, 2000, 20000)), 'imported': bool(ci % 2),
                    'ndebug': bool((ci // 2) % 2)}
            if (ci + wid) % 3 == 0:
                case['split'] = True
            try:
                bad = run_tsan(case)
            except cexec.InfraError as e:
                res['infra'].append(str(e))
                break
            res['evaluations'] += 1
            res['classes']['tsan_run'] += 1
            if case.get('split'):
                res['classes']['tsan_separately_compiled_functions'] += 1
            res['classes']['tsan_imported_memory' if case['imported'] else 'tsan_defined_memory'] += 1
            res['nontrivial'].add(f1.hx(repr(case)))
            if bad and not res['violations']:
                res['violations'].append({'signature': 'c18:' + bad[0], 'summary': bad[1][:900], 'replay': {'kind': 'tsan', 'case': case, 'message': bad[1][:2500]}})
        res['samples'].append('ThreadSanitizer runs of concurrent grow/size/load/store')
        return res
    for ci in range(params['ncases']):
        ch = Chooser(seed * 1000003 + ci)
        case = gen_case(ch, params)
        for si in range(params['schedules']):
            if si:
                c2 = Chooser(seed * 7919 + ci * 131 + si)
                case = dict(case)
                case['decisions'] = bytes(c2.below(256) for _ in range(c2.pick((8, 40, 120, 300)))).hex()
            try:
                bad, classes = evaluate(case)
            except cexec.InfraError as e:
                res['infra'].append(str(e))
                break
            res['evaluations'] += 1
            for c in classes:
                res['classes'][c] += 1
            res['classes']['imported_shared_memory' if case.get('imported') else 'defined_shared_memory'] += 1
            if case.get('ndebug'):
                res['classes']['compiled_with_NDEBUG'] += 1
            if classes & {'several_successful_grows', 'preempted_between_read_and_lock', 'failing_grow'}:
                res['nontrivial'].add(f1.hx(repr(case)))
            if ci < 1 and si < 2:
                res['samples'].append({'threads': case['threads'], 'decisions': case['decisions'][:40], 'classes': sorted(classes)})
            if bad and len(res['violations']) < 2:
                sig, msg = bad
                old_eval = c17.evaluate
                c17.evaluate = evaluate
                try:
                    case = c17.minimise(case, sig)
                finally:
                    c17.evaluate = old_eval
                b2, _ = evaluate(case)
                if b2:
                    msg = b2[1]
                res['violations'].append({'signature': 'c18:' + sig, 'summary': msg[:700], 'replay': {'kind': 'sched', 'case': case, 'message': msg[:2000]}})
                break
    return res


def replay(rp):
    if rp.get('kind') == 'spawnfail':
        from . import c15
        for _ in range(3):
            if c15.run_spawn(rp['case']):
                return True
        return False
    if rp.get('kind') == 'big':
        for _ in range(3):
            if run_big(rp['case']):
                return True
        return False
    if rp.get('kind') == 'tsan':
        for _ in range(3):
            if run_tsan(rp['case']):
                return True
        return False
    bad, _ = evaluate(rp['case'])
    return bad is not None


def plan(tier, seed):
    if tier == 'quick':
        return [{'ncases': 60, 'schedules': 12, 'maxops': 5} for _ in range(30)] + [{'tsan': True, 'ncases': 6} for _ in range(2)] + [{'big': True, 'ncases': 3, 'builds': ['clang-tsan', 'clang-asan', 'gcc-O2']} for _ in range(3)] + [{'spawnfail': True, 'ncases': 6}]
    return [{'ncases': 1200, 'schedules': 25, 'maxops': 7} for _ in range(60)] + [{'tsan': True, 'ncases': 60} for _ in range(4)] + [{'big': True, 'ncases': 40, 'builds': ['clang-tsan', 'clang-asan', 'gcc-O2']} for _ in range(6)] + [{'spawnfail': True, 'ncases': 60} for _ in range(2)]


def run(tier, seed):
    return f1.standard_run(ID, LEVEL, RULE, ASSUME, plan(tier, seed), task, replay, tier, seed)
