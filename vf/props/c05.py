"""C05 — linear-memory instructions read and write the specified bytes."""
from .. import f1, gen, e2e, wasm, pools
from ..wasm import I32, I64, F32, F64, Module, Func, LOADS, STORES, natural_align

ID = 'C05'
LEVEL = 'exploration'
RULE = ('generated mem-mode module (accessor function per load/store flavour x static offset x alignment hint, memory.size/'
        'grow/copy/fill/init, active + passive data segments; memory defined or imported, with/without maximum incl. max=min=0, '
        'occasionally shared) driven by a generated history of 30-150 calls whose addresses are constructed in bounds from the '
        'tracked size: all widths/signedness at every byte alignment, pool + random values, grow deltas {0,1,2,to-max,max+1,'
        '65535,65536,2^31,2^32-1,random}, overlapping copies in both directions, zero lengths. Oracle = bytearray model of the '
        'reference interpreter: after EVERY call the call result and (pages, CRC32 of the whole memory) read through the '
        'exported-memory accessor must match, plus byte dumps around written regions. Non-trivial = history with an unaligned '
        'multi-byte access, a sign-extending load of a value with the sign bit set, a grow after a store, an overlapping copy '
        'or a failing grow; distinct by (module, history). A second generator (c05_bigmem) uses a memory of just over 2 GiB so '
        'that effective addresses with the sign bit set, base + static offset crossing 2^31 and data segments at such offsets are in '
        'bounds (sparse model memory; plain builds only). A third (c05_hostlimit) lowers the address-space limit of the driver process: grows of gigabytes then fail with -1 and must change nothing (size, contents, the old size reported next). NOT decided: the no-32-bit-wrap clause of the effective address '
        '(unobservable in bounds, DESIGN section 8). Segment contents include bytes that mean something inside C literals (trigraphs, quotes, backslashes, escapes followed by digits) and segments of boundary sizes (2^k, 32767, 65535 and multiples); one compile cell is strict -std=c89.')
ASSUME = ['reference interpreter calibrated against the spec-suite expectations (memory_copy/fill/init/grow suites included)',
          'under an address-space limit of N pages an allocation of 2N pages fails and grows of a few pages succeed',
          'grows that the specification allows to fail for lack of memory are only generated up to 64 pages total',
          'addresses are in bounds by construction (w2c2 performs no bounds check)']

OFFSETS = (0, 1, 2, 3, 4, 7, 8, 15, 16, 100, 255, 4096, 65535, 65536, 70000)


def build_module(ch):
    m = Module()
    shape = ch.below(10)
    mn = ch.pick((1, 1, 1, 2, 0, 3))
    mx = ch.pick((None, None, mn, mn + 1, mn + 3, 0 if mn == 0 else mn + 8, 16, 65536))
    if mx is not None and mx < mn:
        mx = mn
    shared = False
    if shape == 0:
        shared = True
        if mx is None or mx > 32:
            mx = mn + 4
    imported = shape in (1, 2)
    if imported:
        m.imports.append((b'env', b'memory', 'memory', (mn, mx, shared)))
    else:
        m.memory = (mn, mx, shared)
    m.exports.append((b'mem', 'memory', 0))
    acc = []      # (kind, export index, details)

    def add(name, ps, rs, body, kind, det):
        m.funcs.append(Func(m.type_index(ps, rs), [], body))
        m.exports.append((name, 'func', len(m.funcs) - 1))
        acc.append((kind, len(acc), det))

    for n, (_, t, nb, signed) in sorted(LOADS.items()):
        for _ in range(2):
            off = ch.pick(OFFSETS)
            al = ch.below(natural_align(nb) + 1)
            add(b'ld%d' % len(acc), (I32,), (t,), [('local.get', 0), (n, al, off)], 'load', (n, t, nb, signed, off))
    for n, (_, t, nb) in sorted(STORES.items()):
        for _ in range(2):
            off = ch.pick(OFFSETS)
            al = ch.below(natural_align(nb) + 1)
            add(b'st%d' % len(acc), (I32, t), (), [('local.get', 0), ('local.get', 1), (n, al, off)], 'store', (n, t, nb, off))
    add(b'size', (), (I32,), [('memory.size',)], 'size', None)
    add(b'grow', (I32,), (I32,), [('local.get', 0), ('memory.grow',)], 'grow', None)
    add(b'copy', (I32, I32, I32), (), [('local.get', 0), ('local.get', 1), ('local.get', 2), ('memory.copy',)], 'copy', None)
    add(b'fill', (I32, I32, I32), (), [('local.get', 0), ('local.get', 1), ('local.get', 2), ('memory.fill',)], 'fill', None)
    # data segments
    nact = ch.below(4) if mn > 0 else 0
    for s in range(nact):
        ln = ch.below(40)
        off = ch.below(mn * 65536 - ln + 1) if ch.below(2) else ch.below(64)
        data = bytes((s * 37 + i * 11 + 1) & 0xff for i in range(ln))
        if s and ch.below(2):
            off = max(m.datas[-1][1][1] + ch.below(9) - 4, 0) if m.datas[-1][1] is not None else off      # overlap the previous one
            off = min(off, mn * 65536 - ln)
        if ch.below(3) == 0 and ln > 1:
            z = 1 + ch.below(ln - 1)
            data = data[:ln - z] + bytes(z)                                 # trailing zero bytes
        elif ch.below(6) == 0:
            data = bytes(ln)
        elif ch.below(4) == 0:
            data = pools.segment_text(ch, ln)                               # bytes that mean something inside a C literal
        if ch.below(10) == 0:
            big = pools.segment_big(ch, mn * 65536 - 64, s)
            if big:
                ln, data = big
                off = ch.pick((0, 16, mn * 65536 - ln))
        m.datas.append(('active', ('i32.const', off), data))
    npas = ch.below(3)
    for s in range(npas):
        ln = ch.below(64)
        k = len(m.datas)
        pdata = bytes((0xc0 + s * 5 + i) & 0xff for i in range(ln))
        if ch.below(3) == 0:
            pdata = pools.segment_text(ch, ln)
        elif ch.below(8) == 0:
            big = pools.segment_big(ch, 140000, s)
            if big:
                ln, pdata = big
        m.datas.append(('passive', None, pdata))
        add(b'init%d' % k, (I32, I32, I32), (), [('local.get', 0), ('local.get', 1), ('local.get', 2), ('memory.init', k)],
            'init', (k, ln))
    # a store followed by a grow followed by a load in ONE function: contents must survive the realloc inside a body
    add(b'sgl', (I32, I64, I32), (I64,),
        [('local.get', 0), ('local.get', 1), ('i64.store', 0, 0), ('local.get', 2), ('memory.grow',), ('drop',),
         ('local.get', 0), ('i64.load', 0, 0)], 'sgl', None)
    return m, acc, (mn, mx, shared, imported)


@f1.maker('c05_history')
def make_history(ch, params):
    m, acc, (mn, mx, shared, imported) = build_module(ch)
    script = e2e.default_setup(m, 1)
    pages = mn
    lim = mx if mx is not None else 65536
    n = 30 + ch.below(params.get('nsteps', 120))
    classes = {}
    stored = False
    regions = []

    def note(k):
        classes[k] = classes.get(k, 0) + 1

    by_kind = {}
    for a in acc:
        by_kind.setdefault(a[0], []).append(a)
    script.append(('mem', 0))
    for step in range(n):
        size = pages * 65536
        kind = ch.weighted([(6, 'store'), (6, 'load'), (2, 'grow'), (1, 'size'), (2, 'copy'), (1, 'fill'), (1, 'init'), (1, 'sgl')])
        if kind in ('load', 'store'):
            a = ch.pick(by_kind[kind])
            det = a[2]
            nb, off = det[2], det[-1]
            room = size - off - nb
            if room < 0:
                continue
            if regions and ch.below(2):
                # revisit a written region (so loads see stored data), at any alignment
                base = max(min(ch.pick(regions) - off + ch.below(9) - 4, room), 0)
            else:
                base = ch.pick((0, room, ch.below(room + 1), ch.below(min(room, 64) + 1)))
            if (base + off) % nb:
                note('unaligned_multibyte' if nb > 1 else 'byte')
            if kind == 'store':
                v = gen.gen_args(ch, [det[1]])[0]
                script.append(('call', 0, a[1], [base, v]))
                stored = True
                regions.append(base + off)
                if len(regions) > 8:
                    regions.pop(0)
            else:
                script.append(('call', 0, a[1], [base]))
                if det[3]:
                    note('signed_load')
        elif kind == 'grow':
            a = by_kind['grow'][0]
            room = lim - pages
            d = ch.pick((0, 1, 2, max(room, 0), max(room, 0) + 1, 65535, 65536, 0x80000000, 0xffffffff, ch.below(5),
                         ch.bits(32)))
            new = pages + d
            ok = new <= lim and new <= 65536
            if ok and new > 64:
                d = 1 if pages + 1 <= lim and pages + 1 <= 64 else 0       # keep successful grows small (<= 64 pages)
                new = pages + d
                ok = new <= lim
            script.append(('call', 0, a[1], [d]))
            if ok:
                pages = new
                if stored and d:
                    note('grow_after_store')
            else:
                note('failing_grow')
        elif kind == 'size':
            script.append(('call', 0, by_kind['size'][0][1], []))
        elif kind == 'copy':
            if size == 0:
                script.append(('call', 0, by_kind['copy'][0][1], [0, 0, 0]))
                continue
            ln = ch.pick((0, 1, 2, 7, 8, 9, 64, ch.below(300)))
            ln = min(ln, size)
            s = ch.below(size - ln + 1)
            mode = ch.below(4)
            if mode == 0:
                d = min(s + ch.below(ln + 1), size - ln)        # overlapping, destination above source
                note('overlap_copy_up' if d != s and d < s + ln else 'copy')
            elif mode == 1:
                d = max(s - ch.below(ln + 1), 0)
                note('overlap_copy_down' if d != s and d + ln > s else 'copy')
            else:
                d = ch.below(size - ln + 1)
            script.append(('call', 0, by_kind['copy'][0][1], [d, s, ln]))
            regions.append(d)
        elif kind == 'fill':
            if size == 0:
                continue
            ln = min(ch.pick((0, 1, 3, 8, 100, ch.below(400))), size)
            d = ch.below(size - ln + 1)
            script.append(('call', 0, by_kind['fill'][0][1], [d, ch.bits(32) if ch.below(2) else ch.below(256), ln]))
            regions.append(d)
        elif kind == 'init' and 'init' in by_kind:
            a = ch.pick(by_kind['init'])
            k, seglen = a[2]
            ln = ch.below(seglen + 1)
            s = ch.below(seglen - ln + 1)
            if size < ln:
                continue
            d = ch.below(size - ln + 1)
            script.append(('call', 0, a[1], [d, s, ln]))
            regions.append(d)
            note('memory_init')
        elif kind == 'sgl':
            if size < 8:
                continue
            base = ch.below(size - 8 + 1)
            d = 1 if pages + 1 <= lim and pages + 1 <= 64 else 0
            script.append(('call', 0, by_kind['sgl'][0][1], [base, ch.bits(64), d]))
            pages += d
            note('store_grow_load_in_one_body')
        else:
            continue
        script.append(('mem', 0))
        if regions and ch.below(4) == 0 and pages:
            r = max(min(regions[-1], pages * 65536 - 16), 0)
            script.append(('dump', 0, r, min(16, pages * 65536 - r)))
    if pages:
        script.append(('dump', 0, 0, 64))
        script.append(('dump', 0, pages * 65536 - 64, 64))
    interesting = [k for k in classes if k in ('unaligned_multibyte', 'signed_load', 'grow_after_store', 'overlap_copy_up',
                                                'overlap_copy_down', 'failing_grow', 'store_grow_load_in_one_body')]
    cls = dict(classes)
    cls['mem_shared' if shared else ('mem_imported' if imported else 'mem_defined')] = 1
    cls['max_' + ('none' if mx is None else ('zero' if mx == 0 else 'set'))] = 1

    def nt(m_, script_, model, meta):
        if not interesting:
            return []
        return [(f1.hx((wasm.encode(m_), repr(script_))), [])]
    meta = {'nontrivial_fn': nt, 'ninst': 1, 'classes': cls}
    if len(m.datas) >= 2 and ch.below(4) == 0:
        # the same memory behaviour is required when the data segments are kept outside the C source (external blob)
        meta['w2c2_options'] = ('-d', 'gnu-ld')
        cls['external_data_segments'] = 1
    return m, script, meta


@f1.maker('c05_bigmem')
def make_bigmem(ch, params):
    """a memory of just over 2 GiB: effective addresses at and beyond 2^31 (sign bit of the 32-bit address set, base + static offset
    crossing 2^31, data segments whose i32.const offset is negative when read as signed) are in bounds and must behave like any other"""
    m = Module()
    pages = 32768 + 2 + ch.below(3)
    size = pages * 65536
    m.memory = (pages, ch.pick((None, pages, 65536)))
    m.exports.append((b'mem', 'memory', 0))
    acc = []

    def add(name, ps, rs, body, kind, det):
        m.funcs.append(Func(m.type_index(ps, rs), [], body))
        m.exports.append((name, 'func', len(m.funcs) - 1))
        acc.append((kind, len(acc), det))
    offs = (0, 16, 65535, 0x7ffffff0, 0x7fffffff, 0x80000000, 0x80000004)
    loads = sorted(LOADS.items())
    stores = sorted(STORES.items())
    for n, (_, t, nb, signed) in [loads[ch.below(len(loads))] for _ in range(8)]:
        off = ch.pick(offs)
        add(b'ld%d' % len(acc), (I32,), (t,), [('local.get', 0), (n, 0, off)], 'load', (n, t, nb, signed, off))
    for n, (_, t, nb) in [stores[ch.below(len(stores))] for _ in range(8)]:
        off = ch.pick(offs)
        add(b'st%d' % len(acc), (I32, t), (), [('local.get', 0), ('local.get', 1), (n, 0, off)], 'store', (n, t, nb, off))
    add(b'size', (), (I32,), [('memory.size',)], 'size', None)
    add(b'copy', (I32, I32, I32), (), [('local.get', 0), ('local.get', 1), ('local.get', 2), ('memory.copy',)], 'copy', None)
    add(b'fill', (I32, I32, I32), (), [('local.get', 0), ('local.get', 1), ('local.get', 2), ('memory.fill',)], 'fill', None)
    segs = [0x7ffffffc, 0x80000000 + 64 * (1 + ch.below(8)), size - 8]
    for k, off in enumerate(segs[:1 + ch.below(3)]):
        m.datas.append(('active', ('i32.const', off), bytes((0x51 + k * 16 + i) & 0xff for i in range(8))))
    script = e2e.default_setup(m, 1)
    for md, off, data in m.datas:
        script.append(('dump', 0, off[1] - 8, min(24, size - off[1] + 8)))
    hot = [0x7ffffffc, 0x7fffffff, 0x80000000, 0x80000001, 0x80000100, 0x8000fff8, size - 8, size - 1, 0x7fff0000, 0x10]
    by_kind = {}
    for a in acc:
        by_kind.setdefault(a[0], []).append(a)
    n_high = 0
    for step in range(30 + ch.below(30)):
        kind = ch.weighted([(5, 'store'), (5, 'load'), (1, 'fill'), (1, 'copy'), (1, 'size')])
        if kind in ('load', 'store'):
            a = ch.pick(by_kind[kind])
            det = a[2]
            nb, off = det[2], det[-1]
            ea = ch.pick(hot) + ch.below(9) - 4
            ea = max(off, min(ea, size - nb))
            if ea + nb > 0x80000000:
                n_high += 1
            if kind == 'store':
                script.append(('call', 0, a[1], [ea - off, gen.gen_args(ch, [det[1]])[0]]))
            else:
                script.append(('call', 0, a[1], [ea - off]))
            lo = max(ea - 8, 0)
            script.append(('dump', 0, lo, min(24, size - lo)))
        elif kind == 'fill':
            d = min(ch.pick(hot), size - 64)
            script.append(('call', 0, by_kind['fill'][0][1], [d, ch.below(256), ch.below(48)]))
            script.append(('dump', 0, max(d - 8, 0), 64))
        elif kind == 'copy':
            d, s_ = min(ch.pick(hot), size - 64), min(ch.pick(hot), size - 64)
            script.append(('call', 0, by_kind['copy'][0][1], [d, s_, ch.below(48)]))
            script.append(('dump', 0, max(d - 8, 0), 64))
        else:
            script.append(('call', 0, by_kind['size'][0][1], []))
    script.append(('mem', 0))

    def nt(m_, script_, model, meta):
        return [(f1.hx((wasm.encode(m_), repr(script_))), [])] if n_high else []
    return m, script, {'nontrivial_fn': nt, 'ninst': 1, 'classes': {'address>=2^31': n_high, 'mem_2GiB': 1}}


@f1.maker('c05_hugegrow')
def make_hugegrow(ch, params):
    """one memory.grow that would make the memory huge (up to the 65536-page limit of the specification): it may succeed or fail
    for lack of memory - either way the bytes stored before must still be there afterwards, and the process must stay sane"""
    m = Module()
    mx = ch.pick((None, None, 65536, 65535, 40000))
    m.memory = (1, mx)
    m.exports.append((b'mem', 'memory', 0))
    T = m.type_index
    m.funcs.append(Func(T((I32,), (I32,)), [], [('local.get', 0), ('memory.grow',)]))
    m.funcs.append(Func(T((I32, I64), ()), [], [('local.get', 0), ('local.get', 1), ('i64.store', 0, 0)]))
    m.funcs.append(Func(T((I32,), (I64,)), [], [('local.get', 0), ('i64.load', 0, 0)]))
    m.funcs.append(Func(T((I32, I32), ()), [], [('local.get', 0), ('local.get', 1), ('i32.store8', 0, 0)]))
    m.funcs.append(Func(T((I32,), (I32,)), [], [('local.get', 0), ('i32.load8_u', 0, 0)]))
    for i, n in enumerate((b'grow', b'st', b'ld', b'st8', b'ld8')):
        m.exports.append((n, 'func', i))
    script = e2e.default_setup(m, 1) + [('mayfail',)]
    spots = [0, 8, 1000, 4096, 65528, 65535 - 7, 32768]
    vals = {}
    for _ in range(4 + ch.below(6)):
        a = ch.pick(spots)
        v = ch.bits(64)
        vals[a] = v
        script.append(('call', 0, 1, [a, v]))
    script.append(('call', 0, 3, [65535, 0xa7]))
    lim = mx if mx is not None else 65536
    delta = ch.pick((65535, 65535, lim - 1, 65534, 32767, 39999, 49151))
    script.append(('call', 0, 0, [delta]))
    for a in sorted(vals):
        script.append(('call', 0, 2, [a]))
    script.append(('call', 0, 4, [65535]))
    script.append(('dump', 0, 0, 32))
    script.append(('dump', 0, 65536 - 32, 32))
    # the old page is still writable and readable
    for _ in range(3):
        a = ch.pick(spots)
        v = ch.bits(64)
        script += [('call', 0, 1, [a, v]), ('call', 0, 2, [a])]

    def nt(m_, script_, model, meta):
        return [(f1.hx(repr(script_)), [])]
    return m, script, {'nontrivial_fn': nt, 'ninst': 1, 'classes': {'grow_towards_4GiB': 1, 'grow_to_exactly_65536_pages': 1 if 1 + delta == 65536 else 0}}


@f1.maker('c05_hostlimit')
def make_hostlimit(ch, params):
    """memory.grow on a host that cannot provide the memory: the driver lowers its address-space limit, small grows still succeed,
    a grow of gigabytes (allowed by the declared maximum) fails with -1 - and then nothing may have changed: memory.size, the
    contents, the old size the next grow reports"""
    m = Module()
    mx = ch.pick((None, None, 65536, 60000))
    m.memory = (1 + ch.below(2), mx)
    m.exports.append((b'mem', 'memory', 0))
    T = m.type_index
    m.funcs.append(Func(T((I32,), (I32,)), [], [('local.get', 0), ('memory.grow',)]))
    m.funcs.append(Func(T((I32, I64), ()), [], [('local.get', 0), ('local.get', 1), ('i64.store', 0, 0)]))
    m.funcs.append(Func(T((I32,), (I64,)), [], [('local.get', 0), ('i64.load', 0, 0)]))
    m.funcs.append(Func(T((), (I32,)), [], [('memory.size',)]))
    for i, n in enumerate((b'grow', b'st', b'ld', b'size')):
        m.exports.append((n, 'func', i))
    limit = ch.pick((4096, 8192))                      # 256 / 512 MiB
    script = e2e.default_setup(m, 1) + [('hostlimit', limit)]
    spots = [0, 8, 4096, 65528]
    for a in spots:
        script.append(('call', 0, 1, [a, ch.bits(64)]))
    for step in range(3 + ch.below(5)):
        k = ch.below(4)
        if k == 0:
            script.append(('call', 0, 0, [ch.pick((0, 1, 2, 3))]))                    # succeeds
        else:
            script.append(('call', 0, 0, [ch.pick((2 * limit, 2 * limit + 1, 30000, 40000, 50000, 65535 - 8))]))      # the host cannot
        script.append(('call', 0, 3, []))
        a = ch.pick(spots)
        script += [('call', 0, 2, [a]), ('call', 0, 1, [a, ch.bits(64)]), ('call', 0, 2, [a])]
    script.append(('call', 0, 0, [1]))
    script.append(('call', 0, 3, []))
    script.append(('mem', 0))

    def nt(m_, script_, model, meta):
        return [(f1.hx(repr(script_)), [])]
    return m, script, {'nontrivial_fn': nt, 'ninst': 1, 'classes': {'grow_refused_by_the_host': 1}}


def plan(tier, seed):
    hostlimit = {'maker': 'c05_hostlimit', 'ccs': ['gcc-O0', 'clang-O2', 'gcc-O2', 'clang-O0'], 'shrink_budget': 4, 'reduce_budget': 4,
                 'encoding_knobs': False}
    big = {'maker': 'c05_bigmem', 'ccs': ['gcc-O0', 'clang-O2', 'gcc-O2', 'clang-O0'], 'shrink_budget': 6, 'reduce_budget': 6}
    huge = {'maker': 'c05_hugegrow', 'ccs': ['gcc-O0', 'clang-O2', 'gcc-O2', 'clang-O1-san'], 'shrink_budget': 4, 'reduce_budget': 4,
            'encoding_knobs': False}
    if tier == 'quick':
        return plan_histories(tier) + [dict(big, ncases=2) for _ in range(4)] + [dict(huge, ncases=4) for _ in range(2)] + [dict(hostlimit, ncases=6) for _ in range(2)]
    return plan_histories(tier) + [dict(big, ncases=12) for _ in range(8)] + [dict(huge, ncases=30) for _ in range(4)] + [dict(hostlimit, ncases=60) for _ in range(4)]


def plan_histories(tier):
    if tier == 'quick':
        ccs = ['gcc-O0', 'clang-O2', 'gcc-O2-gnu89', 'clang-O0', 'clang-O1-san', 'gcc-O1-san', 'clang-O2-uchar', 'gcc-O0-c89']
        return [{'maker': 'c05_history', 'ncases': 25, 'ccs': ccs, 'nsteps': 120, 'shrink_budget': 25, 'reduce_budget': 30}
                for _ in range(32)]
    ccs = ['gcc-O0', 'clang-O2', 'gcc-O2', 'clang-O0', 'gcc-O3', 'clang-O3', 'gcc-O0-gnu89', 'clang-O2-gnu89', 'clang-O1-san',
           'gcc-O1-uchar', 'clang-O2-uchar', 'gcc-O0-c89', 'clang-O2-c89']
    return [{'maker': 'c05_history', 'ncases': 250, 'ccs': ccs, 'nsteps': 300, 'shrink_budget': 40, 'reduce_budget': 40}
            for _ in range(64)]


def replay(rp):
    return f1.case_replay(rp)


def run(tier, seed):
    return f1.standard_run(ID, LEVEL, RULE, ASSUME, plan(tier, seed), f1.case_task, replay, tier, seed)
