"""C12 — WASI file I/O returns the bytes, counts and offsets a POSIX file would."""
import os

from hypothesis import strategies as st
from hypothesis.stateful import RuleBasedStateMachine, Bundle, rule, consumes, multiple, precondition, initialize

from .. import f1, wasifs, wasihyp
from ..wasi import Violation, AgentDied

ID = 'C12'
LEVEL = 'exploration'
RULE = ('Hypothesis RuleBasedStateMachine over an agent process that links /repo/wasi/wasi.c under ASan+UBSan and declares the '
        'WASI imports with their witx signatures: rules path_open (create/excl/trunc/directory/append x read/write rights, '
        'existing/missing/symlinked targets), fd_write / fd_pwrite / fd_read / fd_pread with 0-6 iovecs (zero-length segments), '
        'offsets from {0..4096, 2^31-1, 2^31, 2^32-1, 2^32, 2^32+5, 2^33}, fd_seek with every whence value in both ABI encodings '
        'and negative/huge offsets, fd_tell, fd_filestat_get in both layouts, fd_fdstat_get on live descriptors (type, append flag, exact 24-byte record), fd_close; writes under a soft file-size limit placed around the current size (short write / EFBIG); descriptors on host-created FIFOs opened read+write (ESPIPE from every seeking / positional call, bytes through the pipe, fill modelled per FIFO). Oracle (differential): every operation '
        'is also executed as the corresponding POSIX call (os.open/readv/writev/preadv/pwritev/lseek/fstat) on a mirror tree that '
        'started byte-identical; compared after every step: errno (host errno mapped by the WASI witx table), byte counts and '
        '64-bit offsets stored in guest memory, bytes read, untouched canaries around every result, file position, file sizes; '
        'at the end the two trees and the extents of sparse files. Non-trivial = history with a positional op followed by a '
        'sequential op on the same fd, an iovec list with >= 2 segments one of them empty, an offset >= 2^32, append mode, or an '
        'unstable-ABI seek; distinct by history. Descriptors 0-2 are files here (0 read-only, 1 and 2 write-only): writes to 0 and reads from 1 or 2 are BADF as writev / readv say.')
ASSUME = ['Linux tmpfs semantics of the POSIX mirror calls are the reference ("the corresponding POSIX operations")',
          'rights are mapped to open(2) access modes as wasi.c documents (read|write -> O_RDWR, write -> O_WRONLY, else O_RDONLY)']

NONTRIVIAL = ('positional_then_sequential', 'multi_iovec_with_empty', 'offset>=2^32', 'offset>=2^63', 'append', 'unstable_seek', 'filestat_of_renamed_or_unlinked_open_file',
              'write_at_file_size_limit', 'fifo_descriptor')
OFFSETS = st.one_of(st.integers(0, 4096), st.sampled_from([0, 1, 99, (1 << 31) - 1, 1 << 31, (1 << 32) - 1, 1 << 32, (1 << 32) + 5,
                                                          1 << 33, 1 << 40, (1 << 63) - 1,
                                                          # the full 64-bit range: as off_t these are negative (POSIX: EINVAL)
                                                          1 << 63, (1 << 63) + 1, (1 << 64) - 4096, (1 << 64) - 2, (1 << 64) - 1]))
BUFS = st.lists(st.binary(min_size=0, max_size=48), min_size=0, max_size=6)
LENS = st.lists(st.sampled_from([0, 1, 2, 7, 16, 100]), min_size=0, max_size=6)


class C12Machine(RuleBasedStateMachine):
    fds = Bundle('fds')

    def __init__(self):
        super().__init__()
        self.ex = None

    @initialize(mode=st.sampled_from([0, 0, 1, 2, 3, 5, 7]), variant=st.just('default'))
    def start(self, mode, variant):
        self.ex = wasifs.FsExecutor(npreopen=1, variant=variant)
        self.ex.set_edge(mode)

    @rule(target=fds, name=st.sampled_from(wasifs.FILE_NAMES), creat=st.booleans(), excl=st.booleans(), trunc=st.booleans(),
          directory=st.sampled_from([False, False, False, True]), read=st.booleans(), write=st.booleans(),
          append=st.sampled_from([False, False, True]))
    def path_open(self, name, creat, excl, trunc, directory, read, write, append):
        oflags = (1 if creat else 0) | (2 if directory else 0) | (4 if excl else 0) | (8 if trunc else 0)
        fd = self.ex.path_open(self.ex.preopens[0], name, oflags, read, write, append)
        return fd if fd is not None else multiple()

    @rule(target=fds, idx=st.integers(0, 2))
    def open_fifo(self, idx):
        # a descriptor that is not seekable (ESPIPE from every positional / seeking call), obtained like any other
        fd = self.ex.open_fifo(self.ex.preopens[0], idx)
        return fd if fd is not None else multiple()

    @rule(fd=fds, bufs=BUFS)
    def fd_write(self, fd, bufs):
        self.ex.fd_write(fd, bufs)

    @rule(fd=fds, bufs=BUFS, offset=OFFSETS)
    def fd_pwrite(self, fd, bufs, offset):
        self.ex.fd_pwrite(fd, bufs, offset)

    @rule(fd=fds, n=st.sampled_from([1000, 1023, 1024, 1025, 1026, 1100, 2048, 2049, 3000]), every=st.integers(1, 9),
          how=st.sampled_from(['write', 'pwrite', 'read', 'pread']), offset=st.sampled_from([0, 1, 7, 100, 5000]))
    def many_vectors(self, fd, n, every, how, offset):
        # scatter/gather lists around and beyond the host's IOV_MAX (1024): most segments empty, every `every`-th one a single
        # byte, so the transfer itself is small.  The corresponding readv / writev / preadv / pwritev call decides (EINVAL above the
        # limit), and nothing is transferred in that case
        self.ex.flags.add('vector_count_around_IOV_MAX')
        if how in ('write', 'pwrite'):
            bufs = [bytes([0x41 + i % 26]) if i % every == 0 else b'' for i in range(n)]
            if how == 'write':
                self.ex.fd_write(fd, bufs)
            else:
                self.ex.fd_pwrite(fd, bufs, offset)
        else:
            lens = [1 if i % every == 0 else 0 for i in range(n)]
            if how == 'read':
                self.ex.fd_read(fd, lens)
            else:
                self.ex.fd_pread(fd, lens, offset)

    @rule(fd=fds, bufs=st.lists(st.binary(min_size=0, max_size=48), min_size=1, max_size=4), positional=st.booleans(),
          offset=st.integers(0, 200), rel=st.integers(-40, 60), absolute=st.sampled_from([None, None, 0, 1, 50, 100]))
    def limited_write(self, fd, bufs, positional, offset, rel, absolute):
        # a write that meets a hard boundary (the process's file-size limit): limit placed around the file's current size
        ex = self.ex
        d = ex.fds.get(fd)
        if d is None or d['closed'] or d['kind'] != 'file' or d['mfd'] is None:
            return
        try:
            size = os.fstat(d['mfd']).st_size
        except OSError:
            return
        limit = absolute if absolute is not None else max(0, size + rel)
        ex.limited_write(fd, bufs, offset if positional else None, limit)

    @rule(fd=fds, lens=LENS)
    def fd_read(self, fd, lens):
        self.ex.fd_read(fd, lens)

    @rule(which=st.sampled_from([0, 1, 2]), bufs=BUFS, lens=LENS, write=st.booleans())
    def std_stream_io(self, which, bufs, lens, write):
        # descriptors 0-2 are the host's standard streams (files here: 0 read-only, 1 and 2 write-only): the transfers that work
        # and the ones POSIX refuses (write to 0, read from 1 / 2: EBADF)
        if write:
            self.ex.fd_write(which, bufs)
        else:
            self.ex.fd_read(which, lens)

    @rule(fd=fds, lens=LENS, offset=OFFSETS)
    def fd_pread(self, fd, lens, offset):
        self.ex.fd_pread(fd, lens, offset)

    @rule(fd=fds, offset=st.one_of(st.integers(-50, 300), st.sampled_from([0, -1, 1 << 31, 1 << 32, (1 << 32) + 7, -(1 << 40), 1 << 62])),
          whence=st.sampled_from([0, 1, 2, 0, 1, 2, 3, 255, 256, 257, 0x10002, 0x80000000, 0xffffff00, 0xffffffff]), unstable=st.booleans())
    def fd_seek(self, fd, offset, whence, unstable):
        self.ex.fd_seek(fd, offset & 0xffffffffffffffff, whence, unstable)

    @rule(fd=fds)
    def fd_tell(self, fd):
        self.ex.fd_tell(fd)

    @rule(fd=fds, unstable=st.booleans())
    def fd_filestat_get(self, fd, unstable):
        self.ex.fd_filestat_get(fd, unstable)

    @rule(fd=fds, unstable=st.booleans())
    def fd_fdstat_get(self, fd, unstable):
        self.ex.fd_fdstat_get(fd, unstable)

    @rule(op=st.sampled_from(['unlink_file', 'rename', 'rename+recreate']), name=st.sampled_from(wasifs.FILE_NAMES), unstable=st.booleans())
    def name_changes(self, op, name, unstable):
        # the NAME of a (possibly open) file goes away or is taken over by another file: open descriptors keep denoting the file
        ex = self.ex
        root = ex.preopens[0]
        if op == 'unlink_file':
            ex.path_op('unlink_file', root, name)
        else:
            ex.path_op('rename', root, name, name + '.old', root)
            if op == 'rename+recreate':
                fd = ex.path_open(root, name, 1, True, True, False)
                if fd is not None:
                    ex.fd_write(fd, [b'new file under the old name'])
                    ex.fd_close(fd)
        for fd in ex.live_file_fds():
            ex.fd_filestat_get(fd, unstable)

    @rule(fd=consumes(fds))
    def fd_close(self, fd):
        self.ex.fd_close(fd)

    def teardown(self):
        if self.ex is None:
            return
        try:
            self.ex.final_check()
        finally:
            wasihyp.note_history(self.ex, NONTRIVIAL)
            self.ex.close()


def task(wid, seed, params):
    return wasihyp.run_machine(C12Machine, seed, params['examples'], params['steps'])


def replay(rp):
    r = wasifs.replay_history(rp['history'], rp.get('npreopen', 1))
    return r is not None


def plan(tier, seed):
    if tier == 'quick':
        return [{'examples': 800, 'steps': 30} for _ in range(16)]
    return [{'examples': 6000, 'steps': 50} for _ in range(32)]


def run(tier, seed):
    return f1.standard_run(ID, LEVEL, RULE, ASSUME, plan(tier, seed), task, replay, tier, seed)
