"""C01 — integer instruction semantics and integer traps survive translation."""
import time

from .. import f1, gen, runner, e2e
from ..wasm import I32, I64

ID = 'C01'
LEVEL = 'exploration'
RULE = ('flat: every integer operator x (boundary pool x boundary pool, exhaustive) + seeded random operands, each under '
        'several compilers/-O levels and with the builtin and the fallback bit-counting paths; expr: random integer '
        'expression trees (select, local.tee, nested operators, wrap/extend) as exported functions called with pool '
        'and random arguments, plus constant-operand instruction windows (const a; op1; const b; op2 for the shift / rotate / mask / '
        'multiply-divide pairs toolchains emit as idioms, equal immediates at every count, and arbitrary operator pairs) and divisions / '
        'remainders whose result is dropped or never read (the trap must still happen). Non-trivial = the evaluation hits a hazard class (shift/rotate count 0 or >= width, '
        'divisor 0 or -1, dividend INT_MIN, clz/ctz/popcnt of 0 or all-ones, sign bit set in a signed '
        'comparison/shift/extension, carry out of the top bit) or traps; distinct by (operator or body, operands).')
ASSUME = ['reference interpreter calibrated against the spec-suite expectations in /repo/tests/gen (vf.spec)',
          'host C compilers gcc 12 / clang 14 on x86-64 are correct for the emitted C',
          'w2c2 is rebuilt from /repo working tree (gcc -O1) for every distinct source hash']

INT_FEAT = gen.Features(ops=gen.INT_OPS, types=(I32, I64), max_depth=6)


@f1.maker('c01_expr')
def make_expr(ch, params):
    nf = 8 + ch.below(params.get('nfuncs', 24))
    m = gen.expr_module(ch, INT_FEAT, nf)
    # idioms in which the RESULT of an operation at one of its boundary operands is consumed inside the same body, so that the C
    # compiler's value-range reasoning about the helper's result meets the boundary: (clz x) >> 5 as "x == 0", (ctz x) == width,
    # clz / ctz / popcnt of a literal 0 or -1, rotate and shift by a literal multiple of the width, division by a literal -1
    from ..wasm import Func
    idioms = []
    for t, w, sh in ((I32, 32, 5), (I64, 64, 6)):
        c = lambda v, t=t: ('%s.const' % t, v & ((1 << (32 if t == I32 else 64)) - 1))
        for op in ('clz', 'ctz'):
            idioms.append((t, [('local.get', 0), ('%s.%s' % (t, op),), c(sh), ('%s.shr_u' % t,)]))
            idioms.append((t, [('local.get', 0), ('%s.%s' % (t, op),), c(w), ('%s.eq' % t,)] + ([('i64.extend_i32_u',)] if t == I64 else [])))
            idioms.append((t, [c(0), ('%s.%s' % (t, op),), ('local.get', 0), ('%s.add' % t,)]))
        idioms.append((t, [c(-1), ('%s.popcnt' % t,), ('local.get', 0), ('%s.xor' % t,)]))
        idioms.append((t, [('local.get', 0), ('%s.clz' % t,), ('local.get', 0), ('%s.ctz' % t,), ('%s.add' % t,), c(2 * w), ('%s.ge_u' % t,)] + ([('i64.extend_i32_u',)] if t == I64 else [])))
        idioms.append((t, [('local.get', 0), c(w * ch.pick((0, 1, 2))), ('%s.%s' % (t, ch.pick(('rotl', 'rotr', 'shl', 'shr_s'))),)]))
        idioms.append((t, [('local.get', 0), c(-1), ('%s.%s' % (t, ch.pick(('rem_s', 'div_u', 'rem_u'))),)]))
    for k in range(6):
        t, body = idioms[ch.below(len(idioms))]
        m.funcs.append(Func(m.type_index((t,), (t,)), [], body))
        m.exports.append((b'idiom%d' % k, 'func', len(m.funcs) - 1))
    # instruction windows a translator may recognise and rewrite as a whole: local.get; const a; op1; const b; op2 - above all the
    # pairs that toolchains emit as idioms (shl n / shr_s n = sign extension of the low width-n bits, shl n / shr_u n, shr_u / shl,
    # rotl / rotr, add / sub, xor / xor, and / or masks, mul / div_u, mul / shr) with EQUAL immediates at every count 1..width-1,
    # then arbitrary operator pairs and unequal immediates; immediates are encoded in the shortest form (single bytes up to 63)
    PAIRS = (('shl', 'shr_s'), ('shl', 'shr_u'), ('shr_u', 'shl'), ('shr_s', 'shl'), ('rotl', 'rotr'), ('rotr', 'rotl'), ('add', 'sub'),
             ('sub', 'add'), ('xor', 'xor'), ('and', 'or'), ('or', 'and'), ('mul', 'div_u'), ('mul', 'shr_u'), ('shl', 'div_u'), ('shl', 'rem_u'))
    BIN = ('add', 'sub', 'mul', 'and', 'or', 'xor', 'shl', 'shr_s', 'shr_u', 'rotl', 'rotr', 'div_u', 'rem_u', 'div_s', 'rem_s')
    for k in range(8):
        t, w = ch.pick(((I32, 32), (I64, 64)))
        op1, op2 = ch.pick(PAIRS) if ch.below(4) else (ch.pick(BIN), ch.pick(BIN))
        a = ch.pick([8, 16, 24, 32, 40, 48, 56][:3 if w == 32 else 7]) if ch.below(2) else 1 + ch.below(w - 1)
        b = a if ch.below(4) else 1 + ch.below(w - 1)
        body = [('local.get', 0), ('%s.const' % t, a), ('%s.%s' % (t, op1),), ('%s.const' % t, b), ('%s.%s' % (t, op2),)]
        m.funcs.append(Func(m.type_index((t,), (t,)), [], body))
        m.exports.append((b'peep%d' % k, 'func', len(m.funcs) - 1))
    # an operator fed by an immediate that is (or looks like) its identity / absorbing element: x+0, x|0, x<<0, x*1, x&-1, x/1, x/-1,
    # x%1, x%-1, x*0, x&0, x<<width, comparisons against 0 / -1 / MIN / MAX - the windows a size optimisation would fold
    for k in range(10):
        t, w = ch.pick(((I32, 32), (I64, 64)))
        cv = ch.pick((0, 0, 1, -1, -1, w, w - 1, 1 << (w - 1), (1 << (w - 1)) - 1, 2))
        op = ch.pick(BIN + ('eq', 'ne', 'lt_s', 'lt_u', 'gt_s', 'gt_u', 'le_s', 'le_u', 'ge_s', 'ge_u'))
        cmpop = op in ('eq', 'ne') or op[:2] in ('lt', 'gt', 'le', 'ge')
        c = ('%s.const' % t, cv & ((1 << w) - 1))
        body = [('local.get', 0), c, ('%s.%s' % (t, op),)] if ch.below(3) else [c, ('local.get', 0), ('%s.%s' % (t, op),)]
        if ch.below(4) == 0:
            body += [('i32.eqz',) if (cmpop or t == I32) else ('i64.eqz',)]
            cmpop = True
        m.funcs.append(Func(m.type_index((t,), (I32 if cmpop else t,)), [], body))
        m.exports.append((b'ident%d' % k, 'func', len(m.funcs) - 1))
    # operations whose result is thrown away (drop, or a local that is never read): the instruction still traps when the
    # specification says so - an optimising C compiler may only remove what has no effect
    for k in range(4):
        t = ch.pick((I32, I64))
        op = ch.pick(('div_s', 'div_u', 'rem_s', 'rem_u'))
        how = ch.below(3)
        body = [('local.get', 0), ('local.get', 1), ('%s.%s' % (t, op),)]
        locs = []
        if how == 0:
            body += [('drop',)]
        elif how == 1:
            locs = [t]
            body += [('local.set', 2)]
        else:
            body += [('local.get', 0), ('%s.%s' % (t, ch.pick(('div_s', 'rem_u'))),), ('drop',)]
        body += [('%s.const' % t, 7)]
        m.funcs.append(Func(m.type_index((t, t), (t,)), locs, body))
        m.exports.append((b'dead%d' % k, 'func', len(m.funcs) - 1))
    # many operands pending at once (x op (c1 op (c2 op ... ))): the operand stack is 60 ... 300 values deep, mixed i32 / i64
    for k in range(2):
        n = ch.pick((40, 62, 63, 64, 65, 66, 70, 100, 127, 128, 129, 200, 255, 256, 257, 300))
        t = ch.pick((I32, I64))
        body = [('local.get', 0)]
        ops = []
        for i in range(n):
            if t == I64 and i % 3 == 1:
                body += [('i32.const', i * 7 + 1), ('i64.extend_i32_u',)]
            else:
                body.append(('%s.const' % t, i * 2654435761 % 1000003))
            ops.append('%s.%s' % (t, ('add', 'xor', 'sub', 'add', 'or')[i % 5]))
        body += [(o,) for o in reversed(ops)]
        m.funcs.append(Func(m.type_index((t,), (t,)), [], body))
        m.exports.append((b'deepstack%d' % k, 'func', len(m.funcs) - 1))
    script = [('inst', 0)]
    fex = [(n, i) for n, kd, i in m.exports if kd == 'func']
    for e, (n, fi) in enumerate(fex):
        ps = m.func_type(fi)[0]
        for _ in range(params.get('nargs', 12) if ps else 1):
            script.append(('call', 0, e, gen.gen_args(ch, ps)))
        if n.startswith(b'ident'):
            wbits = 32 if ps[0] == I32 else 64
            for v in (0, 1, 2, (1 << wbits) - 1, 1 << (wbits - 1), (1 << (wbits - 1)) - 1, (1 << (wbits - 1)) + 1, wbits, 0x0123456789abcdef):
                script.append(('call', 0, e, [v & ((1 << wbits) - 1)]))
        if n.startswith(b'peep'):
            wbits = 32 if ps[0] == I32 else 64
            for v in (0x80, 0x100, 0x8000, 0x10000, 0x800000, 0x1000000, 0x7f, 0xff, 0xffff, 1 << (wbits - 1), (1 << wbits) - 1, 0x0123456789abcdef):
                script.append(('call', 0, e, [v & ((1 << wbits) - 1)]))
        if n.startswith(b'dead'):
            wbits = 32 if ps[0] == I32 else 64
            mn = 1 << (wbits - 1)
            for a, b in ((5, 0), (0, 0), (mn, (1 << wbits) - 1), (mn, 0), (7, 1), ((1 << wbits) - 1, (1 << wbits) - 1), (mn, 1)):
                script.append(('call', 0, e, [a, b]))
        if n.startswith(b'idiom'):
            script.append(('call', 0, e, [0]))
            script.append(('call', 0, e, [(1 << (32 if ps[0] == I32 else 64)) - 1]))
            script.append(('call', 0, e, [1 << (31 if ps[0] == I32 else 63)]))
    return m, script, {'nontrivial_fn': f1.hazards_nontrivial, 'ninst': 1, 'independent': True}


def plan(tier, seed):
    ops = gen.INT_OPS
    jobs = []
    if tier == 'quick':
        flat_ccs = ['gcc-O0-gnu89', 'clang-O2', 'gcc-O1-nobuiltin', 'clang-O1-nobuiltin', 'gcc-O1-uchar']
        nrandom, full = 3000, True
        nslices = 8
        ncases, nexpr = 60, 32
        expr_ccs = ['gcc-O0', 'clang-O2-gnu89', 'gcc-O2', 'clang-O0', 'gcc-O1-uchar']
    else:
        flat_ccs = ['gcc-O0', 'gcc-O2', 'gcc-O3', 'clang-O0', 'clang-O2', 'clang-O3', 'gcc-O1-nobuiltin',
                    'clang-O1-nobuiltin', 'gcc-O2-gnu89', 'gcc-O1-uchar', 'clang-O2-uchar']
        nrandom, full = 150000, True
        nslices = 16
        ncases, nexpr = 300, 32
        expr_ccs = ['gcc-O0', 'clang-O2', 'gcc-O2', 'clang-O0', 'gcc-O3', 'clang-O3', 'gcc-O0-gnu89', 'clang-O2-gnu89']
    if f1.cpu_has_lzcnt_bmi():
        flat_ccs = flat_ccs + ['gcc-O2-lzcnt', 'clang-O2-lzcnt']
        expr_ccs = expr_ccs + ['clang-O2-lzcnt', 'gcc-O2-lzcnt']
    # flat: slices of the operator list; each slice under every compiler of the tier (quick: nobuiltin only for bit ops)
    slices = [ops[i::nslices] for i in range(nslices)]
    for cc in flat_ccs:
        for sl in slices:
            if tier == 'quick' and 'nobuiltin' in cc:
                sl = [o for o in sl if o.split('.')[1] in ('clz', 'ctz', 'popcnt', 'rotl', 'rotr')]
            if 'uchar' in cc:
                sl = [o for o in sl if 'extend' in o or 'wrap' in o]
            if 'lzcnt' in cc:
                sl = [o for o in sl if o.split('.')[1] in ('clz', 'ctz', 'popcnt')]
            if sl:
                jobs.append(('flat', {'ops': sl, 'cc': cc, 'nrandom': nrandom, 'full_pairs': full}))
    for i in range(nexpr):
        jobs.append(('case', {'maker': 'c01_expr', 'ncases': ncases, 'ccs': expr_ccs, 'nfuncs': 24, 'nargs': 12}))
    return jobs


def task(wid, seed, params):
    kind, p = params
    if kind == 'flat':
        return f1.flat_task(wid, seed, p)
    return f1.case_task(wid, seed, p)


def replay(rp):
    if rp.get('kind') == 'flat':
        return f1.flat_replay(rp)
    return f1.case_replay(rp)


def run(tier, seed):
    return f1.standard_run(ID, LEVEL, RULE, ASSUME, plan(tier, seed), task, replay, tier, seed)
