"""C01 — integer instruction semantics and integer traps survive translation."""
import time

from .. import f1, gen, runner, e2e
from ..wasm import I32, I64

ID = 'C01'
LEVEL = 'exploration'
RULE = ('flat: every integer operator x (boundary pool x boundary pool, exhaustive) + seeded random operands, each under '
        'several compilers/-O levels and with the builtin and the fallback bit-counting paths; expr: random integer '
        'expression trees (select, local.tee, nested operators, wrap/extend) as exported functions called with pool '
        'and random arguments. Non-trivial = the evaluation hits a hazard class (shift/rotate count 0 or >= width, '
        'divisor 0 or -1, dividend INT_MIN, clz/ctz/popcnt of 0 or all-ones, sign bit set in a signed '
        'comparison/shift/extension, carry out of the top bit) or traps; distinct by (operator or body, operands).')
ASSUME = ['reference interpreter calibrated against the spec-suite expectations in /repo/tests/gen (vf.spec)',
          'host C compilers gcc 12 / clang 14 on x86-64 are correct for the emitted C',
          'w2c2 is rebuilt from /repo working tree (gcc -O1) for every distinct source hash']

INT_FEAT = gen.Features(ops=gen.INT_OPS, types=(I32, I64), max_depth=6)


@f1.maker('c01_expr')
def make_expr(ch, params):
    nf = 8 + ch.below(params.get('nfuncs', 24))
    m = gen.expr_module(ch, INT_FEAT, nf)
    script = [('inst', 0)]
    fex = [(n, i) for n, kd, i in m.exports if kd == 'func']
    for e, (n, fi) in enumerate(fex):
        ps = m.func_type(fi)[0]
        for _ in range(params.get('nargs', 12) if ps else 1):
            script.append(('call', 0, e, gen.gen_args(ch, ps)))
    return m, script, {'nontrivial_fn': f1.hazards_nontrivial, 'ninst': 1, 'independent': True}


def plan(tier, seed):
    ops = gen.INT_OPS
    jobs = []
    if tier == 'quick':
        flat_ccs = ['gcc-O0-gnu89', 'clang-O2', 'gcc-O1-nobuiltin', 'clang-O1-nobuiltin', 'gcc-O1-uchar']
        nrandom, full = 3000, True
        nslices = 8
        ncases, nexpr = 60, 32
        expr_ccs = ['gcc-O0', 'clang-O2-gnu89', 'gcc-O2', 'clang-O0', 'gcc-O1-uchar']
    else:
        flat_ccs = ['gcc-O0', 'gcc-O2', 'gcc-O3', 'clang-O0', 'clang-O2', 'clang-O3', 'gcc-O1-nobuiltin',
                    'clang-O1-nobuiltin', 'gcc-O2-gnu89', 'gcc-O1-uchar', 'clang-O2-uchar']
        nrandom, full = 150000, True
        nslices = 16
        ncases, nexpr = 300, 32
        expr_ccs = ['gcc-O0', 'clang-O2', 'gcc-O2', 'clang-O0', 'gcc-O3', 'clang-O3', 'gcc-O0-gnu89', 'clang-O2-gnu89']
    # flat: slices of the operator list; each slice under every compiler of the tier (quick: nobuiltin only for bit ops)
    slices = [ops[i::nslices] for i in range(nslices)]
    for cc in flat_ccs:
        for sl in slices:
            if tier == 'quick' and 'nobuiltin' in cc:
                sl = [o for o in sl if o.split('.')[1] in ('clz', 'ctz', 'popcnt', 'rotl', 'rotr')]
            if 'uchar' in cc:
                sl = [o for o in sl if 'extend' in o or 'wrap' in o]
            if sl:
                jobs.append(('flat', {'ops': sl, 'cc': cc, 'nrandom': nrandom, 'full_pairs': full}))
    for i in range(nexpr):
        jobs.append(('case', {'maker': 'c01_expr', 'ncases': ncases, 'ccs': expr_ccs, 'nfuncs': 24, 'nargs': 12}))
    return jobs


def task(wid, seed, params):
    kind, p = params
    if kind == 'flat':
        return f1.flat_task(wid, seed, p)
    return f1.case_task(wid, seed, p)


def replay(rp):
    if rp.get('kind') == 'flat':
        return f1.flat_replay(rp)
    return f1.case_replay(rp)


def run(tier, seed):
    return f1.standard_run(ID, LEVEL, RULE, ASSUME, plan(tier, seed), task, replay, tier, seed)
