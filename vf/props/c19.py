"""C19 — linear memory is little-endian regardless of host byte order."""
import collections
import struct

from .. import f1, gen, e2e, wasm, cexec, pools
from ..choice import Chooser
from ..wasm import I32, I64, F32, F64, Module, Func
from . import c05, c16  # noqa: F401 (makers reused)

ID = 'C19'
LEVEL = 'exploration'
RULE = ('no big-endian host, cross compiler or emulator exists in this sandbox, so the property is decided in the observation '
        'frame it names: WASM_ENDIAN forced to each setting on this little-endian host. (a) runtime: the mem-mode histories of '
        'C05 (all 23 plain load/store flavours at every alignment, memory.copy/fill/init, data segments) and the atomic histories '
        'of C16 (14 atomic loads/stores, 49 RMW/cmpxchg flavours; shared memory, so the mutex-based big-endian variants are '
        'compiled) are built with -DWASM_ENDIAN=0 and with -DWASM_ENDIAN=1 by gcc and clang. A host that believes it is '
        'big-endian applies its swap to natively little-endian accesses, hence in the forced build every 16/32/64-bit store must '
        'leave exactly the byte-reversed image over exactly its width, 8-bit accesses and bulk copies identical bytes, and every '
        'load/RMW must return the value whose big-endian encoding is in memory: the byte-array model is run with the byte order as '
        'a parameter and each build must match its model after EVERY call (result, CRC of the whole memory, byte dumps). (b) '
        'translator: w2c2 itself built with -DWASM_ENDIAN=1 must emit bswap(c) for every f32/f64 immediate (function bodies and global initialisers) and leave integer '
        'immediates unchanged. Non-trivial = history with a 16/32/64-bit store followed by a narrower or unaligned load of the '
        'same bytes, an RMW/cmpxchg narrower than 64 bits, a float access, or a float immediate whose byte-reversal differs from '
        'itself; distinct by (module, history, byte order). WASI host: the histories of C12-C15 (state machines and case generators of those checks, their oracles unchanged) run against an agent built with -DWASM_ENDIAN=1; the executor reads and writes iovec arrays, result cells, stat / fdstat / prestat records, directory entries and pointer arrays in the mirrored layout, byte buffers unchanged; non-trivial by the rules of those checks. Contended big-endian read-modify-writes incl. a ThreadSanitizer build for the add-loop / drain-loop mode.')
ASSUME = ['contended big-endian read-modify-writes are sampled by stress runs with real threads (C16 stress modes on the forced big-endian builds), not enumerated',
          'compiler/ABI effects of a real big-endian target are out of reach; UBSan alignment checks are off for the forced '
          'builds (the big-endian paths dereference cast pointers)']

BE_CCS = ['gcc-O1-be', 'clang-O2-be', 'gcc-O0-be', 'clang-O0-be']
BE_OPT_CCS = ['gcc-O2-be', 'clang-O2-be', 'gcc-O3-be', 'clang-O3-be', 'gcc-O1-be']
LE_CCS = ['gcc-O1-le', 'clang-O2-le']


def bswap(v, nbytes):
    return int.from_bytes(v.to_bytes(nbytes, 'little'), 'big')


def const_case(ch, n=200):
    m = Module()
    expect = []
    for i in range(n):
        t = ch.pick((F32, F64, F32, F64, I32, I64))
        v = pools.draw_const(ch, t)
        # a third of the immediates sit in global initialisers (constant expressions are decoded by the reader AND by the writer)
        src = [('%s.const' % t, v)]
        if ch.below(3) == 0:
            m.globals.append((t, bool(ch.below(2)), ('%s.const' % t, v)))
            src = [('global.get', len(m.globals) - 1)]
        if t in (F32, F64):
            it = I32 if t == F32 else I64
            if ch.below(2):
                m.funcs.append(Func(m.type_index((), (it,)), [], src + [('%s.reinterpret_%s' % (it, t),)]))
            else:
                m.funcs.append(Func(m.type_index((), (t,)), [], src))
            nb = 4 if t == F32 else 8
            expect.append((t, v, bswap(v, nb)))
        else:
            m.funcs.append(Func(m.type_index((), (t,)), [], src))
            expect.append((t, v, v))
        m.exports.append((b'c%d' % i, 'func', i))
    return m, expect


def const_task(wid, seed, params):
    """translator built with WASM_ENDIAN=1: float immediates come out byte-reversed, integer immediates unchanged"""
    res = {'evaluations': 0, 'nontrivial': set(), 'classes': collections.Counter(), 'samples': [], 'violations': [],
           'infra': [], 'extra': {}}
    for ci in range(params['ncases']):
        ch = Chooser(seed * 1000003 + ci)
        m, expect = const_case(ch, params.get('nconst', 200))
        ccname = ('gcc-O0', 'clang-O2')[(wid + ci) % 2]
        cc, cflags = f1.CC[ccname]
        b = e2e.Built(m, cc=cc, cflags=cflags, ninst=1, w2c2_variant='bigendian')
        try:
            if b.error:
                res['violations'].append({'signature': 'be-translator-' + b.error[0], 'summary': 'big-endian-configured translator: %s failed: %s' % (b.error[0], b.error[1][-300:]),
                                          'replay': {'kind': 'c19-const', 'module_hex': b.wasm.hex(), 'cc': ccname}})
                continue
            lines = ['I 0'] + ['C 0 %d' % i for i in range(len(expect))]
            rc, actual, err = b.run(lines)
            for i, (t, v, want) in enumerate(expect):
                res['evaluations'] += 1
                w = 8 if t in (I32, F32) else 16
                exp_line = 'R %0*x' % (w, want)
                act = actual[i + 1] if i + 1 < len(actual) else '<missing>'
                if want != v:
                    res['nontrivial'].add(f1.hx((t, v)))
                    res['classes']['float_immediate_reversed'] += 1
                elif t in (I32, I64):
                    res['classes']['integer_immediate'] += 1
                ok = act == exp_line
                if not ok and t in (F32, F64) and '.reinterpret' not in repr(m.funcs[i].body):
                    # returned as a C float: a reversed pattern that is a signalling NaN may come back quieted; compare as NaN class
                    isn = (lambda x: (x & 0x7fffffff) > 0x7f800000) if t == F32 else (lambda x: (x & 0x7fffffffffffffff) > 0x7ff0000000000000)
                    try:
                        ok = isn(want) and isn(int(act[2:], 16))
                    except ValueError:
                        ok = False
                if not ok and len(res['violations']) < 2:
                    mm = Module()
                    f = m.funcs[i]
                    ft = m.types[f.type]
                    mm.funcs.append(Func(mm.type_index(ft[0], ft[1]), [], f.body))
                    mm.globals = list(m.globals)
                    mm.exports.append((b'c0', 'func', 0))
                    res['violations'].append({'signature': 'be-translator-const:%s' % t,
                                              'summary': 'translator built with WASM_ENDIAN=1: %s.const 0x%x came out as %s, expected %s' % (t, v, act, exp_line),
                                              'replay': {'kind': 'c19-const', 'module_hex': wasm.encode(mm).hex(), 'cc': ccname,
                                                         'expected': exp_line, 'type': t, 'value': v}})
            if ci < 1:
                t, v, want = expect[0]
                res['samples'].append('translator WASM_ENDIAN=1: %s.const 0x%x -> bits 0x%x' % (t, v, want))
        finally:
            b.close()
    return res


def nt_be(m, script, model, meta):
    return [(f1.hx((wasm.encode(m), repr(script), 'be')), [])]


@f1.maker('c19_mem')
def make_mem(ch, params):
    m, script, meta = f1.MAKERS['c05_history'](ch, params)
    meta = dict(meta)
    meta['nontrivial_fn'] = nt_be
    return m, script, meta


@f1.maker('c19_atomic')
def make_atomic(ch, params):
    m, script, meta = f1.MAKERS['c16_seq'](ch, params)
    meta = dict(meta)
    meta['nontrivial_fn'] = nt_be
    return m, script, meta


@f1.maker('c19_width')
def make_width(ch, params):
    """store of one width, loads of every width/offset over the same 8 bytes: pins 'exactly one reversal of exactly that width'"""
    m = Module()
    m.memory = (1, None)
    m.exports.append((b'mem', 'memory', 0))
    acc = []
    for n, (c, t, nb) in sorted(wasm.STORES.items()):
        m.funcs.append(Func(m.type_index((I32, t), ()), [], [('local.get', 0), ('local.get', 1), (n, 0, 0)]))
        m.exports.append((b's%d' % len(acc), 'func', len(m.funcs) - 1))
        acc.append(('store', len(acc), t, nb))
    for n, (c, t, nb, sg) in sorted(wasm.LOADS.items()):
        m.funcs.append(Func(m.type_index((I32,), (t,)), [], [('local.get', 0), (n, 0, 0)]))
        m.exports.append((b'l%d' % len(acc), 'func', len(m.funcs) - 1))
        acc.append(('load', len(acc), t, nb))
    script = [('inst', 0)]
    for _ in range(30 + ch.below(60)):
        base = 64 + ch.below(32)
        st = ch.pick([a for a in acc if a[0] == 'store'])
        v = gen.gen_args(ch, [st[2]])[0]
        script.append(('call', 0, st[1], [base, v]))
        script.append(('dump', 0, base - 4, 20))
        for _ in range(3):
            ld = ch.pick([a for a in acc if a[0] == 'load'])
            script.append(('call', 0, ld[1], [base + ch.below(max(st[3] - ld[3], 0) + 1)]))
    return m, script, {'nontrivial_fn': nt_be, 'ninst': 1, 'classes': {'width_probe': 1}}


@f1.maker('c19_mixed')
def make_mixed(ch, params):
    """several stores and loads of DIFFERENT widths over the same few bytes inside ONE function body, so that the C compiler sees
    them together (a runtime that reaches memory through incompatible pointer types gets its accesses reordered or dropped
    there at -O2): linear memory must behave as one array of bytes"""
    m = Module()
    m.memory = (1, None)
    m.exports.append((b'mem', 'memory', 0))
    stores = sorted(wasm.STORES.items())
    loads = sorted(wasm.LOADS.items())
    script = [('inst', 0)]
    nf = 10 + ch.below(8)
    for fi in range(nf):
        body = []
        nst = 2 + ch.below(3)
        params_t = [I32]
        for k in range(nst):
            n, (c, t, nb) = stores[ch.below(len(stores))]
            params_t.append(t)
            body += [('local.get', 0), ('local.get', len(params_t) - 1), (n, 0, ch.below(9 - nb))]
        # loads of other widths over the 8 bytes just written, folded into one i64 result
        body += [('i64.const', 0)]
        for k in range(2 + ch.below(3)):
            n, (c, t, nb, sg) = loads[ch.below(len(loads))]
            if t not in (I32, I64):
                continue
            body += [('local.get', 0), (n, 0, ch.below(9 - nb))]
            if t == I32:
                body += [('i64.extend_i32_u',)]
            body += [('i64.const', 7), ('i64.rotl',), ('i64.xor',)]
        m.funcs.append(Func(m.type_index(tuple(params_t), (I64,)), [], body))
        m.exports.append((b'm%d' % fi, 'func', fi))
        for _ in range(3):
            base = 64 + 16 * ch.below(8) + ch.below(8)
            script.append(('call', 0, fi, [base] + gen.gen_args(ch, params_t[1:])))
            script.append(('dump', 0, base - 4, 20))
    return m, script, {'nontrivial_fn': nt_be, 'ninst': 1, 'classes': {'mixed_widths_in_one_body': 1}, 'independent': True}


def _wasi_module(name):
    from . import c12, c13, c14, c15
    return {'C12': c12, 'C13': c13, 'C14': c14, 'C15': c15}[name]


def wasi_task(wid, seed, params):
    """the WASI host on the forced big-endian runtime: wasi.c moves every structured value (iovec arrays, result cells, stat / fdstat /
    prestat records, directory entries, argument pointer arrays, clock values) through the runtime's accessors, so the histories
    of C12-C15 must give the same results when every agent is built with -DWASM_ENDIAN=1 and the executor reads and writes guest
    structures in the mirrored layout (byte buffers - file data, names - unchanged).  A host-side struct copied into guest memory,
    a field stored with the wrong width or a swap applied to a byte buffer shows up as a wrong field value or a wrong byte."""
    from .. import wasi as W
    mod = _wasi_module(params['wasi'])
    W.FORCE_VARIANT = 'be'
    try:
        r = mod.task(wid, seed, params['inner'])
    finally:
        W.FORCE_VARIANT = None
    for v in r['violations']:
        v['signature'] = 'c19-wasi:' + v['signature']
        v['summary'] = '[WASI host of %s on the forced big-endian runtime] %s' % (params['wasi'], v['summary'])
        v['replay'] = {'kind': 'c19-wasi', 'wasi': params['wasi'], 'inner': v['replay']}
    r['classes'] = collections.Counter(dict(('be_wasi_' + k, n) for k, n in r['classes'].items()))
    r['nontrivial'] = set('be-wasi:' + str(h) for h in r['nontrivial'])
    return r


def dispatch(wid, seed, params):
    if params.get('wasi'):
        return wasi_task(wid, seed, params)
    if params.get('const'):
        return const_task(wid, seed, params)
    if params.get('stress'):
        # the contended paths of the big-endian read-modify-writes (retry loops, emulation under the memory's mutex) only run when
        # threads collide: C16's stress modes on the forced big-endian builds, whose oracles (no update lost, returned old values
        # form one chain) fail as soon as a value is combined, compared or written back in the wrong byte order
        from . import c16
        r = c16.stress_task(wid, seed, params)
        for v in r['violations']:
            v['signature'] = v['signature'].replace('c16:', 'c19:')
        r['classes'] = collections.Counter(dict(('be_contended_' + k, n) for k, n in r['classes'].items()))
        return r
    return f1.case_task(wid, seed, params)


def replay(rp):
    if rp.get('kind') == 'c19-wasi':
        from .. import wasi as W
        W.FORCE_VARIANT = 'be'
        try:
            return _wasi_module(rp['wasi']).replay(rp['inner'])
        finally:
            W.FORCE_VARIANT = None
    if rp.get('kind') == 'c19-const':
        wb = bytes.fromhex(rp['module_hex'])
        m = wasm.decode(wb)
        cc, cflags = f1.CC[rp['cc']]
        b = e2e.Built(m, wasm_bytes=wb, cc=cc, cflags=cflags, ninst=1, w2c2_variant='bigendian')
        try:
            if b.error:
                return True
            if 'expected' not in rp:
                return False
            rc, actual, err = b.run(['I 0', 'C 0 0'])
            return len(actual) < 2 or actual[1] != rp['expected']
        finally:
            b.close()
    if rp.get('kind') == 'stress':
        from . import c16
        return c16.replay(rp)
    return f1.case_replay(rp)


WASI_JOBS_QUICK = [{'wasi': 'C12', 'inner': {'examples': 250, 'steps': 30}} for _ in range(3)] + \
    [{'wasi': 'C13', 'inner': {'examples': 200, 'steps': 30}} for _ in range(2)] + \
    [{'wasi': 'C14', 'inner': {'examples': 300, 'steps': 25}} for _ in range(3)] + \
    [{'wasi': 'C15', 'inner': {'ncases': 100, 'kinds': ['args', 'misc']}} for _ in range(2)]
WASI_JOBS_THOROUGH = [{'wasi': 'C12', 'inner': {'examples': 3000, 'steps': 50}} for _ in range(6)] + \
    [{'wasi': 'C13', 'inner': {'examples': 3000, 'steps': 50}} for _ in range(4)] + \
    [{'wasi': 'C14', 'inner': {'examples': 3000, 'steps': 50}} for _ in range(6)] + \
    [{'wasi': 'C15', 'inner': {'ncases': 2000, 'kinds': ['args', 'misc']}} for _ in range(4)]


def plan(tier, seed):
    if tier == 'quick':
        n1, n2 = 24, 24
        jobs = [{'maker': 'c19_mem', 'ncases': n1, 'ccs': BE_CCS + LE_CCS, 'nsteps': 100, 'shrink_budget': 20, 'reduce_budget': 10} for _ in range(10)]
        jobs += [{'maker': 'c19_atomic', 'ncases': n2, 'ccs': BE_CCS + LE_CCS, 'nsteps': 120, 'shrink_budget': 20, 'reduce_budget': 10} for _ in range(10)]
        jobs += [{'maker': 'c19_width', 'ncases': 24, 'ccs': BE_CCS, 'shrink_budget': 20, 'reduce_budget': 10} for _ in range(6)]
        jobs += [{'const': True, 'ncases': 6, 'nconst': 300} for _ in range(6)]
        jobs += [{'maker': 'c19_mixed', 'ncases': 10, 'ccs': BE_OPT_CCS, 'shrink_budget': 20, 'reduce_budget': 20} for _ in range(6)]
        jobs += [{'stress': True, 'ncases': 8, 'builds': ['gcc-O2-be', 'clang-O2-be', 'clang-tsan-be']} for _ in range(4)]
        jobs += WASI_JOBS_QUICK
        return jobs
    jobs = [{'maker': 'c19_mem', 'ncases': 150, 'ccs': BE_CCS + LE_CCS, 'nsteps': 300, 'shrink_budget': 30, 'reduce_budget': 20} for _ in range(20)]
    jobs += [{'maker': 'c19_atomic', 'ncases': 150, 'ccs': BE_CCS + LE_CCS, 'nsteps': 300, 'shrink_budget': 30, 'reduce_budget': 20} for _ in range(20)]
    jobs += [{'maker': 'c19_width', 'ncases': 150, 'ccs': BE_CCS, 'shrink_budget': 30, 'reduce_budget': 20} for _ in range(12)]
    jobs += [{'const': True, 'ncases': 100, 'nconst': 600} for _ in range(12)]
    jobs += [{'maker': 'c19_mixed', 'ncases': 150, 'ccs': BE_OPT_CCS + LE_CCS, 'shrink_budget': 30, 'reduce_budget': 30} for _ in range(12)]
    jobs += [{'stress': True, 'ncases': 100, 'builds': ['gcc-O2-be', 'clang-O2-be', 'clang-tsan-be']} for _ in range(8)]
    jobs += WASI_JOBS_THOROUGH
    return jobs


def run(tier, seed):
    return f1.standard_run(ID, LEVEL, RULE, ASSUME, plan(tier, seed), dispatch, replay, tier, seed)
