"""C13 — WASI descriptors: unique while open, invalid after close, host memory stays safe."""
from hypothesis import strategies as st
from hypothesis.stateful import RuleBasedStateMachine, Bundle, rule, consumes, multiple, initialize

from .. import f1, wasifs, wasihyp
from ..wasi import Violation, AgentDied, E, ename, RES, DATA, put_iovs

ID = 'C13'
LEVEL = 'exploration'
RULE = ('Hypothesis RuleBasedStateMachine over the ASan+UBSan agent with 1-3 pre-opened directories: path_open (files and '
        'directories), fd_close, repeated fd_close, and EVERY descriptor-taking call of both ABI generations (fd_write, fd_read, '
        'fd_pwrite, fd_pread, fd_seek, fd_tell, fd_close, fd_filestat_get, fd_fdstat_get, fd_prestat_get, fd_prestat_dir_name, '
        'fd_readdir, fd_sync, fd_datasync, path_open, path_filestat_get, path_create_directory, path_remove_directory, '
        'path_unlink_file, path_rename (old and new side), path_symlink, path_readlink) on closed, never-issued and huge '
        'descriptor numbers; I/O through descriptors 0-2; fd_prestat_get / fd_prestat_dir_name on the pre-opens. Oracle = model '
        'of the descriptor table: a new descriptor is never in the live set; 0-2 reach the prepared standard-stream files; '
        'pre-opens report their path (length and bytes); closed / never-issued descriptors give EBADF from every call; any '
        'AddressSanitizer report (double free, use after free) or agent death is a violation. Non-trivial = history that uses a '
        'descriptor after closing it, closes twice, or uses a closed descriptor as a directory handle; distinct by history. Many-descriptors job: up to 131080 descriptors issued in one process (opened and closed in turn, a last batch kept open; counts around table sizes 2^k and 65536), then never-issued numbers behind the last one and at the next powers of two are BADF for every call, closed ones are BADF, live ones work and stay alive when their neighbours are closed; every case is non-trivial. Transfers POSIX refuses on the standard streams (write to 0, read from 1 or 2) are BADF.')
ASSUME = ['descriptor numbers are issued by wasi.c; the model only requires freshness, not a particular numbering']

NONTRIVIAL = ('use_after_close', 'double_close', 'closed_as_directory', 'never_issued', 'listed_before_close', 'readdir_on_vanished_directory', 'closed_standard_stream')
DIR_CALLS = ('path_open', 'path_filestat_get', 'path_create_directory', 'path_remove_directory', 'path_unlink_file',
             'path_rename_old', 'path_rename_new', 'path_symlink', 'path_readlink', 'fd_readdir')


class C13Machine(RuleBasedStateMachine):
    live = Bundle('live')
    closed = Bundle('closed')

    def __init__(self):
        super().__init__()
        self.ex = None

    @initialize(npre=st.integers(1, 3), mode=st.sampled_from([0, 0, 1, 2, 3, 5, 7]), variant=st.just('default'))
    def start(self, npre, mode, variant):
        self.ex = wasifs.FsExecutor(npreopen=npre, variant=variant)
        wasihyp.LAST['npreopen'] = npre
        self.ex.set_edge(mode)

    @rule(target=live, name=st.sampled_from(['a', 'b.txt', 'dir1', 'dir1/x', 'new1', 'emptydir', 'dir2/sub', 'devfull', 'devfull']),
          directory=st.booleans(), write=st.booleans(), pre=st.integers(0, 2))
    def path_open(self, name, directory, write, pre):
        ex = self.ex
        dirfd = ex.preopens[0]
        fd = ex.path_open(dirfd, name, (2 if directory else 0) | (1 if write and not directory else 0), True, write and not directory, False)
        return fd if fd is not None else multiple()

    @rule(target=closed, fd=consumes(live))
    def close(self, fd):
        self.ex.fd_close(fd)
        return fd

    @rule(fd=closed, fn=st.sampled_from(wasifs.FsExecutor.BAD_CALLS), unstable=st.booleans(), absolute=st.booleans(),
          extreme=st.sampled_from([0, 0, 0, 1, 2, 3, 4, 5, 6]))
    def use_closed(self, fd, fn, unstable, absolute, extreme):
        self.ex.flags.add('double_close' if fn == 'fd_close' else ('closed_as_directory' if fn in DIR_CALLS else 'use_after_close'))
        self.ex.bad_fd_call(fn, fd, unstable, absolute, extreme)

    @rule(fd=st.one_of(st.integers(40, 400), st.sampled_from([0x7fffffff, 0x80000000, 0xffffffff, 0xfffffffe, 1 << 20])),
          fn=st.sampled_from(wasifs.FsExecutor.BAD_CALLS), unstable=st.booleans(), absolute=st.booleans(),
          extreme=st.sampled_from([0, 0, 0, 1, 2, 3, 4, 5, 6]))
    def use_never_issued(self, fd, fn, unstable, absolute, extreme):
        self.ex.flags.add('never_issued')
        self.ex.bad_fd_call(fn, fd, unstable, absolute, extreme)

    @rule(delta=st.integers(0, 3), fn=st.sampled_from(wasifs.FsExecutor.BAD_CALLS), unstable=st.booleans())
    def use_next_unissued(self, delta, fn, unstable):
        # the number just past the highest one issued so far (the next path_open would return it) and its neighbours
        self.ex.flags.add('never_issued')
        self.ex.bad_fd_call(fn, max(self.ex.fds) + 1 + delta, unstable)

    @rule(fd=live, bufs=st.lists(st.binary(max_size=16), max_size=3))
    def write_live(self, fd, bufs):
        self.ex.fd_write(fd, bufs)

    @rule(fd=live, bufsize=st.sampled_from([64, 256, 4096]))
    def list_live(self, fd, bufsize):
        # listing a directory descriptor gives it host-side state (an open directory stream) that fd_close has to release too
        if self.ex.fds[fd]['kind'] == 'dir':
            self.ex.flags.add('listed_before_close')
            self.ex.readdir(fd, bufsize, None, False)

    @rule(target=closed, name=st.sampled_from(['vd1', 'vd2', 'emptydir']), how=st.sampled_from(['remove_directory', 'rename']),
          relist=st.integers(1, 2), bufsize=st.sampled_from([64, 256]))
    def vanish(self, name, how, relist, bufsize):
        # a directory that disappears (removed / renamed away) while a descriptor with an open listing refers to it: the descriptor
        # stays valid, restarting the listing must stay memory-safe, and fd_close must release the host-side state exactly once
        ex = self.ex
        dirfd = ex.preopens[0]
        ex.path_op('create_directory', dirfd, name)
        fd = ex.open_dir(dirfd, name)
        if fd is None:
            return multiple()
        ex.readdir(fd, bufsize, None, False)
        if how == 'rename':
            ex.path_op('rename', dirfd, name, name + '.moved', dirfd)
        else:
            ex.path_op('remove_directory', dirfd, name)
        for _ in range(relist):
            ex.readdir(fd, bufsize, None, False)
        ex.flags.add('listed_before_close')
        ex.fd_close(fd)
        return fd

    @rule(fd=live, lens=st.lists(st.sampled_from([1, 8]), min_size=1, max_size=2))
    def read_live(self, fd, lens):
        self.ex.fd_read(fd, lens)

    @rule(fd=live, unstable=st.booleans())
    def stat_live(self, fd, unstable):
        self.ex.fd_filestat_get(fd, unstable)

    @rule(which=st.sampled_from([1, 2, 1, 0]), bufs=st.lists(st.binary(min_size=1, max_size=20), min_size=1, max_size=3))
    def write_std(self, which, bufs):
        self.ex.flags.add('stdio')
        self.ex.fd_write(which, bufs)

    @rule(target=closed, name=st.sampled_from(['rn1', 'rn2']), isdir=st.booleans(),
          longer=st.sampled_from(['x', '.renamed-to-a-much-longer-name-than-before-so-that-any-stored-copy-has-to-grow', '-2']),
          bufsize=st.sampled_from([64, 256]))
    def rename_open(self, name, isdir, longer, bufsize):
        # the entry a live descriptor was opened on is renamed (to a shorter / longer name): the descriptor stays valid; whatever
        # the implementation remembers about it must survive its own bookkeeping (no stale or freed path)
        ex = self.ex
        root = ex.preopens[0]
        if isdir:
            ex.path_op('create_directory', root, name)
            fd = ex.open_dir(root, name)
        else:
            fd = ex.path_open(root, name, 1, True, True, False)
        if fd is None:
            return multiple()
        ex.path_op('rename', root, name, name + longer, root)
        if isdir:
            ex.readdir(fd, bufsize, None, False)
            ex.path_op('filestat_get', fd, 'x')
            ex.path_op('create_directory', fd, 'sub')
        else:
            ex.fd_write(fd, [b'still writable'])
            ex.fd_filestat_get(fd, False)
        ex.flags.add('listed_before_close')
        ex.fd_close(fd)
        return fd

    @rule(target=closed, which=st.sampled_from([1, 1, 2]))
    def close_std(self, which):
        # from here on the number joins the closed ones: every call on it must answer BADF, also after later opens
        self.ex.close_std(which)
        return which

    @rule(lens=st.lists(st.sampled_from([1, 3, 8]), min_size=1, max_size=2), which=st.sampled_from([0, 0, 0, 1, 2]))
    def read_stdin(self, lens, which):
        self.ex.flags.add('stdio')
        self.ex.fd_read(which, lens)

    @rule(i=st.integers(0, 2))
    def prestat(self, i):
        ex = self.ex
        ex.prestat(ex.preopens[i % len(ex.preopens)])

    def teardown(self):
        if self.ex is None:
            return
        try:
            self.ex.final_check()
        finally:
            wasihyp.note_history(self.ex, NONTRIVIAL)
            self.ex.close()


# ------------------------------------------------------------------------------------------------ many descriptors
# A long-running guest issues tens of thousands of descriptors (numbers are never reused).  Whatever the size of the table and however
# it grows: every number handed out is new, the issued ones work, numbers beyond the last issued one - in particular those just
# behind it and at the next powers of two - are BADF for every call, and closing some leaves their neighbours alone.
def case_many(ch):
    n = ch.pick((60, 250, 1000, 4090, 4100, 16380, 16390, 32760, 32770, 65520, 65530, 65540, 66000, 70000, 131080,
                 (1 << (6 + ch.below(11))) + ch.below(8) - 4, 1 + ch.below(70000)))
    return {'kind': 'many', 'n': n, 'unstable': bool(ch.below(4) == 0), 'close_first': ch.pick((0, 0, 10, 1000)),
            'files': bool(ch.below(3) == 0), 'probe': [ch.below(1 << 16) for _ in range(6)]}


def run_many(case):
    import os
    from .. import cexec
    from .. import wasi as W
    BADF = W.E['BADF']
    d = cexec.new_dir('mf')
    try:
        root = os.path.join(d, 'root')
        os.makedirs(os.path.join(root, 'sub'))
        open(os.path.join(root, 'f'), 'wb').write(b'data')
        ag = W.Agent(d, pages=64, cwd=d)
        try:
            ag.init([b'p'], [])
            ok, pre = ag.preopen('root')
            u = case['unstable']
            ag.poke(W.PATHBUF, b'sub#')
            ag.poke(W.PATHBUF2, b'f#')
            RES = W.RES
            # every open descriptor holds a host descriptor, so the bulk is opened and closed in turn (numbers are not reused) and
            # a last batch stays open
            n = case['n']
            first = last = None
            done = 0
            popen = (pre, 0, W.PATHBUF2, 1, 0, 2, 2, 0, RES) if case['files'] else (pre, 0, W.PATHBUF, 3, 2, 0x4002, 0x4002, 0, RES)
            keep = min(n, 40)
            n_dirs = keep
            if n - keep > 0:
                r0 = ag.repeat(n - keep, RES, 'path_open', u, *popen, close=True)
                if r0['dups']:
                    return 'many-alias', '%d of %d path_open calls returned a number that was not larger than the one before' % (r0['dups'], n - keep)
                if r0['ok']:
                    first, last, done = r0['first'], r0['last'], r0['ok']
                    for fd in sorted(set([first, last, (first + last) // 2] + [first + p % (last - first + 1) for p in case['probe']])):
                        got = ag._call('fd_fdstat_get', u, fd, W.STATBUF)
                        if got != BADF:
                            return 'many-closed', 'fd_fdstat_get(%d) returned %s after the descriptor was closed (%d descriptors issued and closed so far)' % (fd, W.ename(got), done)
            r = ag.repeat(keep, RES, 'path_open', u, *popen)
            if r['dups']:
                return 'many-alias', '%d of %d path_open calls returned a number that was not larger than the one before' % (r['dups'], keep)
            if r['ok']:
                if last is not None and r['first'] <= last:
                    return 'many-alias', 'path_open handed out %d after %d' % (r['first'], last)
                first = r['first'] if first is None else first
                last = r['last']
            # a failing open (host limits) is not a violation by itself; the numbers are judged by what was issued
            if last is None:
                return None
            live_lo = last - (r['ok'] if n_dirs else 0) + 1 if n_dirs and r['ok'] else None

            def expect(fd, fn, args, want, what):
                got = ag._call(fn, u, *args)
                if got != want:
                    return 'many-%s' % what, ('%s(%d) returned %s, expected %s: %d descriptors were issued in this process (numbers %d..%d), %s'
                                              % (fn, fd, W.ename(got), W.ename(want), done + (r['ok'] if n_dirs else 0), first, last, what))
                return None
            never = sorted(set([last + 1, last + 2, last + 3, last + 17, last + 1000, 1 << (last.bit_length()), (1 << last.bit_length()) + 1,
                                65536, 65537, 65540, 70000, 1 << 17, 0x7fffffff, 0x80000000, 0xffffffff] + [last + 1 + p for p in case['probe']]))
            never = [f for f in never if f > last]
            for fd in never:
                for fn, args in (('fd_fdstat_get', (fd, W.STATBUF)), ('fd_tell', (fd, RES)), ('fd_filestat_get', (fd, W.STATBUF)),
                                 ('path_create_directory', (fd, W.PATHBUF, 3)), ('fd_close', (fd,))):
                    bad = expect(fd, fn, args, BADF, 'never-issued')
                    if bad:
                        return bad
            if live_lo is not None:
                lives = sorted(set([live_lo, live_lo + 1, last, last - 1, (live_lo + last) // 2] +
                                   [f for f in (4095, 4096, 4097, 16383, 16384, 32767, 32768, 65535) if live_lo <= f <= last] +
                                   [live_lo + p % (last - live_lo + 1) for p in case['probe']]))
                for fd in lives:
                    bad = expect(fd, 'fd_fdstat_get', (fd, W.STATBUF), 0, 'live')
                    if bad:
                        return bad
                    if ag.peek(W.STATBUF, 1) != (b'\x04' if case['files'] else b'\x03'):
                        return 'many-live', 'fd_fdstat_get(%d): file type %r of the descriptor' % (fd, ag.peek(W.STATBUF, 1))
                closing = lives[::2]
                for fd in closing:
                    bad = expect(fd, 'fd_close', (fd,), 0, 'live')
                    if bad:
                        return bad
                for fd in lives:
                    want = BADF if fd in closing else 0
                    bad = expect(fd, 'fd_fdstat_get', (fd, W.STATBUF), want, 'closed' if fd in closing else 'neighbour-of-closed')
                    if bad:
                        return bad
                for fd in closing:
                    bad = expect(fd, 'fd_close', (fd,), BADF, 'closed')
                    if bad:
                        return bad
                # and the table still hands out new numbers
                r2 = ag.repeat(3, RES, 'path_open', u, *popen)
                if r2['ok'] and (r2['dups'] or r2['first'] <= last):
                    return 'many-alias', 'after %d descriptors path_open handed out %d (last issued before: %d)' % (n, r2['first'], last)
            return None
        finally:
            ag.close()
    finally:
        cexec.rm(d)


def many_task(wid, seed, params):
    import collections
    from ..choice import Chooser
    res = {'evaluations': 0, 'nontrivial': set(), 'classes': collections.Counter(), 'samples': [], 'violations': [],
           'infra': [], 'extra': {}}
    for ci in range(params['ncases']):
        case = case_many(Chooser(seed * 1000003 + ci))
        try:
            bad = run_many(case)
        except AgentDied as e:
            bad = ('many-agent-died:' + f1.normalize_diag(([l for l in e.stderr.splitlines() if 'ERROR' in l or 'runtime error' in l] or [''])[0]),
                   '%s\n%s' % (e, cexec_san(e.stderr)))
        res['evaluations'] += 1
        res['classes']['descriptors_issued>=65536' if case['n'] >= 65536 else 'descriptors_issued>=4096' if case['n'] >= 4096 else 'descriptors_issued<4096'] += 1
        res['nontrivial'].add(f1.hx(repr(case)))
        if not res['samples']:
            res['samples'].append('%d descriptors issued in one process, then never-issued / live / closed numbers probed' % case['n'])
        if bad:
            res['violations'].append({'signature': bad[0], 'summary': bad[1][:900], 'replay': {'kind': 'wasi-many', 'case': case, 'message': bad[1][:3000]}})
            break
    return res


def cexec_san(err):
    from .. import cexec
    return cexec.san_head(err, 1200)


def task(wid, seed, params):
    if params.get('many'):
        return many_task(wid, seed, params)
    return wasihyp.run_machine(C13Machine, seed, params['examples'], params['steps'])


def replay(rp):
    if rp.get('kind') == 'wasi-many':
        try:
            return run_many(rp['case']) is not None
        except AgentDied:
            return True          # the agent died under a sanitizer report: that is the failure being replayed
    return wasifs.replay_history(rp['history'], rp.get('npreopen', 1)) is not None


def plan(tier, seed):
    if tier == 'quick':
        return [{'examples': 500, 'steps': 30} for _ in range(16)] + [{'many': True, 'ncases': 4} for _ in range(8)]
    return [{'examples': 10000, 'steps': 50} for _ in range(32)] + [{'many': True, 'ncases': 60} for _ in range(16)]


def run(tier, seed):
    return f1.standard_run(ID, LEVEL, RULE, ASSUME, plan(tier, seed), task, replay, tier, seed)
