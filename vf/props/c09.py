"""C09 — output options and worker scheduling never change what the program does."""
import collections
import os
import re
import subprocess

from .. import f1, f2, gen, wasm, cexec, e2e
from ..choice import Chooser
from ..wasm import Func
from . import c16  # noqa: F401  (registers the c16_seq maker used by the ThreadSanitizer job)

ID = 'C09'
LEVEL = 'exploration'
RULE = ('module M (4-40 functions, data segments incl. passive ones + memory.init, imports, name section) x generated option '
        'sets over {-p} x {-f N, N in 0..#f+1} x {-t N in 1,2,3,8,64} x {-m} x {-g} x {-d arrays|gnu-ld} x {-r R, R = M with a '
        'generated subset of bodies changed/removed/duplicated} and the translator build variants HAS_PTHREAD=0, HAS_GETOPT=0, '
        'HAS_LIBGEN=0, HAS_STRDUP=0 (built from /repo). Oracle per variant: exit 0; file set = {out.c, out.h, [sd]<10 digits>.c, '
        'datasegments}; every defined function is DEFINED EXACTLY ONCE across main/s*/d* files; every emitted .c compiles on its '
        'own against the header; all files linked with the driver (gnu-ld: plus ld -r -b binary datasegments) reproduce the '
        'interpreter transcript of the call script; for equal formatting options the multiset of function texts equals the '
        'single-file -t 1 output; a function sits in an s* file only if R contains a byte-identical body; reruns and all thread '
        'counts give byte-identical files, also when the output directory already holds the files of an earlier run with other '
        'options (no -c); all translator build variants give byte-identical files; modules with nesting depths of 1500-8000 blocks '
        'translate into several files (-f, -t, -r) whenever they translate into one, with the same function texts. Non-trivial = variant with '
        '>= 2 implementation files, both static and dynamic functions, >= 2 worker threads with >= 3 files, or >= 3 options; '
        'distinct by (module, option set). Name sections carry demangled-style names (blanks, parentheses, angle brackets, quotes, backslashes), names that look like the escapes of the translator and families of different names that differ only outside [A-Za-z0-9_], the latter on internal functions.')
ASSUME = ['command lines put options before the two positional arguments; -t is never passed to a HAS_PTHREAD=0 build',
          'producer/worker interleavings: real threads (1-64 workers, byte-identical results) plus generated schedules of the '
          'vsched-linked translator (evidence key schedules_explored); both are samples, not an enumeration']

IMPL = re.compile(r'^[sd][0-9]{10}\.c$')
FDEF = re.compile(r'^(?:U32|U64|F32|F64|void) (f\d+)\([^;]*\)(?: __asm__\(.*\))? ?\{$', re.M)
FDEF_M = re.compile(r'^(?:U32|U64|F32|F64|void) m_(f\d+)\([^;]*\)(?: __asm__\(.*\))? ?\{$', re.M)


def fdefs(text, prefixed=False):
    """{fname: [definition text]} for the definitions of functions fN in a generated .c file (brace matching)"""
    out = collections.defaultdict(list)
    rx = FDEF_M if prefixed else FDEF
    lines = text.split('\n')
    i = 0
    while i < len(lines):
        mt = rx.match(lines[i])
        if not mt:
            i += 1
            continue
        depth = 0
        j = i
        while j < len(lines):
            body = lines[j] if j > i else lines[j][lines[j].rfind('{'):]
            depth += body.count('{') - body.count('}')
            if depth == 0:
                break
            j += 1
        out[mt.group(1)].append('\n'.join(l.strip() for l in lines[i:j + 1]))
        i = j + 1
    return out


def translate_to(wb, opts, variant, refb=None):
    d = cexec.new_dir('o')
    if refb is not None:
        with open(os.path.join(d, 'ref.wasm'), 'wb') as f:
            f.write(refb)
    tr = cexec.translate(wb, d, 'm', opts, variant)
    return d, tr


def read_outputs(d):
    files = {}
    for f in sorted(os.listdir(d)):
        if f.endswith('.wasm') or f == 'driver.c' or f == 'drv' or f.endswith('.o'):
            continue
        files[f] = open(os.path.join(d, f), 'rb').read()
    return files


SWAP_LAST = {}
for _t in ('i32', 'i64', 'f32', 'f64'):
    for _a, _b in (('add', 'sub'), ('sub', 'add'), ('mul', 'add'), ('eq', 'ne'), ('ne', 'eq')):
        SWAP_LAST['%s.%s' % (_t, _a)] = '%s.%s' % (_t, _b)
for _t in ('i32', 'i64'):
    for _a, _b in (('and', 'or'), ('or', 'xor'), ('xor', 'and'), ('shl', 'shr_u'), ('shr_u', 'shl'), ('lt_s', 'gt_s'), ('lt_u', 'gt_u'), ('gt_s', 'lt_s'), ('gt_u', 'lt_u')):
        SWAP_LAST['%s.%s' % (_t, _a)] = '%s.%s' % (_t, _b)


def make_ref(ch, m):
    """reference module: copy of m with some bodies changed / removed / duplicated; returns (bytes, set of identical bodies)"""
    import copy
    r = copy.deepcopy(m)
    r.func_names = None
    same = set()
    enc = wasm.Encoder()
    keep = []
    padded = getattr(m, 'block_padded', ())
    for i, f in enumerate(r.funcs):
        k = ch.below(4)
        if i in padded and k != 3:
            # body of k*64 bytes whose counterpart differs in its last block only (the constant of the padding's `i32.const 0; drop`)
            assert f.body[-2] == ('i32.const', 0) and f.body[-1] == ('drop',)
            keep.append(Func(f.type, f.locals, list(f.body[:-2]) + [('i32.const', 1), ('drop',)]))
        elif k == 0:
            rs = r.types[f.type][1]
            keep.append(Func(f.type, f.locals, list(f.body) + ([('drop',), ('%s.const' % rs[0], 7)] if rs else [('nop',)])))
        elif k == 1 and f.body and len(f.body[-1]) == 1 and f.body[-1][0] in SWAP_LAST:
            # same length, same locals, different only in the very last byte in front of the final `end`
            keep.append(Func(f.type, f.locals, list(f.body[:-1]) + [(SWAP_LAST[f.body[-1][0]],)]))
        elif k == 1 and f.body and f.body[-1][0].endswith('.const') and f.body[-1][0][0] == 'i' and 0 <= f.body[-1][1] < 32:
            keep.append(Func(f.type, f.locals, list(f.body[:-1]) + [(f.body[-1][0], f.body[-1][1] ^ 1)]))
        else:
            keep.append(f)
    r.funcs = keep
    return wasm.encode(r)


def pad_to_blocks(ch, m):
    """pads one or two bodies at their end (nop ... i32.const 0, drop) so that the hashed byte range (locals + code) is an exact multiple
    of the hash function's 64-byte block and at least two blocks long; make_ref then changes only the last block"""
    m.block_padded = set()
    if not m.funcs:
        return
    for _ in range(1 + ch.below(2)):
        i = ch.below(len(m.funcs))
        if i in m.block_padded:
            continue
        f = m.funcs[i]
        L = len(body_bytes(m)[i]) + 3
        need = (-L) % 64
        if L + need < 128:
            need += 64
        need += 64 * ch.below(3)
        m.funcs[i] = Func(f.type, f.locals, list(f.body) + [('nop',)] * need + [('i32.const', 0), ('drop',)])
        assert len(body_bytes(m)[i]) % 64 == 0 and len(body_bytes(m)[i]) >= 128
        m.block_padded.add(i)


def body_bytes(m):
    """raw code-section entries (locals + expr) per defined function, as the translator hashes them"""
    enc = wasm.Encoder()
    out = []
    for f in m.funcs:
        groups = []
        for t in f.locals:
            if groups and groups[-1][1] == t:
                groups[-1][0] += 1
            else:
                groups.append([1, t])
        code = enc.vec([enc.u(n) + bytes([wasm.VT_BYTE[t]]) for n, t in groups]) + enc.expr(f.body)
        out.append(code)
    return out


FN_EXPORT = re.compile(rb'^f[0-9]+$')
EXCLUDED = {'m_with_fN_export': 0}


def variant_options(ch, nf, with_ref, m=None):
    opts = []
    if ch.below(3) == 1:
        opts.append('-p')
    if ch.below(4) != 0:
        opts += ['-f', str(ch.pick((1, 2, 3, max(nf - 1, 1), nf, nf + 1, 0)))]
    if ch.below(2) == 1:
        opts += ['-t', str(ch.pick((1, 2, 3, 8, 64)))]
    if ch.below(4) == 1:
        if m is not None and any(FN_EXPORT.match(n) for n, kd, i in m.exports if kd == 'func'):
            EXCLUDED['m_with_fN_export'] += 1       # known finding C09-m-export-named-fN
        else:
            opts.append('-m')
    if ch.below(3) == 1:
        opts.append('-g')
    if ch.below(3) == 1:
        opts += ['-d', ch.pick(('gnu-ld', 'arrays'))]
    if with_ref and ch.below(2) == 1:
        opts += ['-r', 'ref.wasm']
    return opts


def fmt_key(opts):
    return ('-p' in opts, '-g' in opts, '-m' in opts)


def check_variant(m, model, wb, opts, refb, base_defs, ninst, res, cc='gcc'):
    """returns list of problem strings for one option set"""
    problems = []
    d, tr = translate_to(wb, opts, 'plain', refb)
    try:
        if tr.rc != 0:
            return ['translator exit %r: %s' % (tr.rc, tr.err.decode(errors='replace')[-200:])], None
        files = read_outputs(d)
        names = set(files)
        impl = sorted(n for n in names if IMPL.match(n))
        for n in names:
            if n not in ('m.c', 'm.h', 'datasegments', 'ref.wasm') and not IMPL.match(n):
                problems.append('unexpected output file %s' % n)
        if 'gnu-ld' in opts and 'datasegments' not in names and m.datas:
            problems.append('gnu-ld mode without datasegments file')
        # each function exactly once
        counts = collections.Counter()
        where = {}
        texts = collections.Counter()
        for n in ['m.c'] + impl:
            for fn, defs in fdefs(files[n].decode(errors='replace'), '-m' in opts).items():
                counts[fn] += len(defs)
                where[fn] = n
                for t in defs:
                    texts[t] += 1
        ni = m.n_imported_funcs()
        for i in range(len(m.funcs)):
            c = counts.get('f%d' % (ni + i), 0)
            if c != 1:
                problems.append('function f%d defined %d times across %s' % (ni + i, c, ['m.c'] + impl))
        if fmt_key(opts) == (False, False, False) and base_defs is not None and texts != base_defs:
            a = list((base_defs - texts).elements())[:1]
            b = list((texts - base_defs).elements())[:1]
            problems.append('function texts differ from the single-file output: %r vs %r' % ([x[:120] for x in a], [x[:120] for x in b]))
        # static only if reference has identical body
        if refb is not None and '-r' in opts:
            rm = wasm.decode(refb)
            rbodies = set(body_bytes(rm))
            mb = body_bytes(m)
            for i in range(len(m.funcs)):
                fn = 'f%d' % (ni + i)
                w = where.get(fn, '')
                if w.startswith('s') and mb[i] not in rbodies:
                    problems.append('function %s classified static (%s) but the reference has no identical body' % (fn, w))
                if w.startswith('d') and mb[i] in rbodies:
                    res['classes']['dynamic_although_identical'] += 1
        # every .c compiles on its own
        thr = cexec.needs_threads(m)
        for n in ['m.c'] + impl:
            cmd = [cc, '-fsyntax-only', '-w', '-I', os.path.join(cexec.REPO, 'w2c2')] + (['-DWASM_THREADS_PTHREADS'] if thr else []) + [n]
            r = cexec.run(cmd, cwd=d)
            if r.returncode != 0:
                first = [l for l in r.stderr.decode(errors='replace').splitlines() if 'error' in l][:1]
                problems.append('%s does not compile on its own: %s' % (n, first[0] if first else r.stderr.decode(errors='replace')[-200:]))
        if problems:
            return problems, files
        # link + run
        header = files['m.h'].decode(errors='replace')
        drv = cexec.gen_driver(m, 'm', header, ninst=ninst, header_name='m.h', prefix_funcs='-m' in opts)
        open(os.path.join(d, 'driver.c'), 'w').write(drv)
        extra = []
        if 'datasegments' in names:
            r = cexec.run(['ld', '-r', '-b', 'binary', 'datasegments', '-o', 'datasegments.o'], cwd=d)
            if r.returncode != 0:
                return ['ld -r -b binary datasegments failed: %s' % r.stderr.decode(errors='replace')[-200:]], files
            extra = ['datasegments.o']
        r = cexec.compile_driver(d, ['driver.c', 'm.c'] + impl, cc, ('-O0',), threads=thr, extra=extra)
        if r.returncode != 0:
            first = [l for l in r.stderr.decode(errors='replace').splitlines() if 'error' in l or 'undefined reference' in l][:1]
            return ['link failed: %s' % (first[0] if first else r.stderr.decode(errors='replace')[-300:])], files
        rc, actual, err = cexec.run_driver(d, model.script_lines, timeout=20)
        mm = e2e.first_mismatch(model.lines, actual)
        if rc != 0 or mm is not None:
            op, exp, act = f1.describe_mismatch(model, actual, mm if mm is not None else len(actual))
            problems.append('behaviour differs (rc %r) at %r: expected %r got %r' % (rc, op, exp, act))
        return problems, files
    finally:
        cexec.rm(d)


def sig_of(problem):
    p = re.sub(r'f\d+', 'fN', problem)
    p = re.sub(r'[sd]\d{10}\.c', 'IMPL.c', p)
    p = re.sub(r'\d+', 'N', p)
    return p[:90]


DEBUG_NAMES = [b'a b', b'foo(int)', b'core::fmt<T>', b'acc.1', b'acc_1', b'acc$1', b'acc 1', b'acc-1', b'a"b', b'a\\b', b'x', b'X', b'X41', b'A',
               b'operator new(unsigned long)', b'std::__1::basic_string<char>::~basic_string()', b'$_0', b'.Lanon.1', b'dup', b'dup',
               b'\xc3\xa9t\xc3\xa9', b'a__b', b'a_b', b'a___b', b'_', b'__', b'main', b'memcpy', b'trap', b'f0', b'f1', b'%s%n', b'a,b', b'a;b',
               b'a@plt', b'a*/b', b'a\nb', b"it's", b'<alloc::vec::Vec<T> as core::ops::Drop>::drop', b'legalstub$acc', b'1abc', b'0']


# families of DIFFERENT names that any lossy clean-up maps to one symbol
LOOKALIKES = [[b'acc.1', b'acc_1', b'acc$1', b'acc 1', b'acc-1', b'acc:1'], [b'a__b', b'a_b', b'a___b', b'a_X5Fb', b'aX5Fb'], [b'f(int)', b'f(int )', b'f_int_', b'f<int>'],
              [b'x', b'X', b'X78', b'x ', b' x'], [b'n\xc3\xa9', b'n\xc3\xa8', b'n__', b'nXC3XA9'], [b'A::b', b'A__b', b'A..b', b'A:_b']]


def gen_case(ch, params):
    if params.get('big'):
        # many functions (so that several files are written at the same time), atomics with static offsets included
        mk = ch.pick(('c16_seq', 'c05_history', 'c04_calls', 'c03_ctrl', 'c16_seq'))
        m, script, meta = f1.MAKERS[mk](ch, {'nfuncs': 40, 'nargs': 1, 'nsteps': 10})
    else:
        mk = ch.pick(('c05_history', 'c04_calls', 'c06_inst', 'c03_ctrl', 'c02_expr', 'c05_history', 'c16_seq'))
        m, script, meta = f1.MAKERS[mk](ch, {'nfuncs': 14, 'nargs': 3, 'nsteps': 40})
    if ch.below(2) == 0:
        pad_to_blocks(ch, m)
    wasm.validate(m)
    ni = m.n_imported_funcs()
    if m.func_names is None:
        m.func_names = {ni + i: b'fn_%d' % i for i in range(len(m.funcs)) if ch.below(4)}
        if ch.below(2):
            # what name sections of real modules hold: demangled C++ / Rust names (blanks, parentheses, angle brackets, colons),
            # compiler-generated names with dots and dollars, names that differ only in a byte outside [A-Za-z0-9_], names that
            # look like the translator's own escapes, quotes and backslashes
            pool = DEBUG_NAMES if ch.below(2) else ch.pick(LOOKALIKES)
            for i in range(len(m.funcs)):
                if ch.below(3):
                    m.func_names[ni + i] = ch.pick(pool)
                    if ch.below(4) == 0:
                        m.func_names[ni + i] += b'%d' % ch.below(3)
            if pool is not DEBUG_NAMES:
                # debug names matter for functions that are NOT exported: make sure there are some (internal helpers nobody calls
                # are valid) and that they carry different members of the family
                exported = set(i for n, kd, i in m.exports if kd == 'func')
                for _ in range(2 + ch.below(3)):
                    m.funcs.append(wasm.Func(m.type_index((), (wasm.I32,)), [], [('i32.const', len(m.funcs))]))
                internal = [ni + i for i in range(len(m.funcs)) if ni + i not in exported]
                for k, fi in enumerate(internal):
                    m.func_names[fi] = pool[(k + ch.below(2)) % len(pool)]
    return mk, m, script, meta


def task(wid, seed, params):
    res = {'evaluations': 0, 'nontrivial': set(), 'classes': collections.Counter(), 'samples': [], 'violations': [],
           'infra': [], 'extra': collections.Counter()}
    for ci in range(params['ncases']):
        ch = Chooser(seed * 1000003 + ci)
        try:
            mk, m, script, meta = gen_case(ch, params)
        except wasm.Invalid:
            res['extra']['generator_invalid_module'] += 1
            continue
        ninst = meta.get('ninst', 2)
        model = e2e.ModelRun(m, script, ninst=ninst)
        wb = wasm.encode(m)
        refb = make_ref(ch, m)
        nf = len(m.funcs)
        # baseline: single file, single thread
        d0, tr0 = translate_to(wb, ['-t', '1'], 'plain')
        try:
            if tr0.rc != 0:
                res['violations'].append({'signature': 'baseline-reject', 'summary': 'baseline translation failed: %s' % tr0.err[-200:],
                                          'replay': {'kind': 'c09', 'module_hex': wb.hex(), 'ref_hex': refb.hex(), 'options': ['-t', '1'],
                                                     'script': f1.script_to_json(script), 'ninst': ninst}})
                continue
            base_files = read_outputs(d0)
        finally:
            cexec.rm(d0)
        base_defs = collections.Counter()
        for fn, defs in fdefs(base_files['m.c'].decode(errors='replace')).items():
            for t in defs:
                base_defs[t] += 1
        optsets = [[]] + [variant_options(ch, nf, True, m) for _ in range(params['nvariants'])]
        for oi, opts in enumerate(optsets):
            res['evaluations'] += 1
            problems, files = check_variant(m, model, wb, opts, refb, base_defs, ninst, res, cc=('gcc', 'clang')[(wid + ci + oi) % 2])
            nimpl = len([n for n in (files or {}) if IMPL.match(n)])
            has_s = any(n.startswith('s') and IMPL.match(n) for n in (files or {}))
            has_d = any(n.startswith('d') and IMPL.match(n) for n in (files or {}))
            tval = int(opts[opts.index('-t') + 1]) if '-t' in opts else 0
            nopt = len([o for o in opts if o.startswith('-') and not o[1:].isdigit()])
            classes = []
            if nimpl >= 2:
                classes.append('>=2_impl_files')
            if has_s and has_d:
                classes.append('static+dynamic')
            if tval >= 2 and nimpl >= 3:
                classes.append('threads>=2_files>=3')
            if nopt >= 3:
                classes.append('>=3_options')
            if getattr(m, 'block_padded', None) and '-r' in opts:
                classes.append('-r_body_of_k*64_bytes_differs_in_last_block')
            for c in classes:
                res['classes'][c] += 1
            for o in opts:
                if o.startswith('-') and not o[1:].isdigit():
                    res['classes']['opt' + o] += 1
            if classes:
                res['nontrivial'].add(f1.hx((wb, tuple(opts))))
            # determinism: rerun + other thread counts + other translator builds must give byte-identical files
            prev = None
            if not problems and files is not None:
                alts = []
                base_opts = [o for i, o in enumerate(opts) if o != '-t' and (i == 0 or opts[i - 1] != '-t')]
                alts.append(('rerun', opts, 'plain'))
                alts.append(('-t %d' % ch.pick((1, 2, 3, 8, 64)), base_opts + ['-t', str(ch.pick((1, 2, 3, 8, 64)))], 'plain'))
                # every other translator build configuration, for every option set (a translation costs milliseconds)
                for v in ('nopthread', 'nogetopt', 'nolibgen', 'nostrdup'):
                    alts.append((v, base_opts if v == 'nopthread' else opts, v))
                # a run into a directory that already holds the output of an earlier, different run of the same module (other -f /
                # -p / -r, no -c): every file this run writes is the same as in a fresh directory (leftovers of the earlier run
                # that this run does not write are not its business)
                prev = [o for i, o in enumerate(base_opts) if o not in ('-f', '-p') and (i == 0 or base_opts[i - 1] != '-f')]
                prev = [o for i, o in enumerate(prev) if o not in ('-r', 'ref.wasm')] if ch.below(3) == 0 else prev
                prev += ['-f', str(ch.pick((1, 2, 3, 5, nf, nf + 1)))] + (['-p'] if ch.below(4) == 0 else [])
                alts.append(('used-directory', opts, 'plain'))
                for what, o2, variant in alts:
                    if what == 'used-directory':
                        d2, tr1 = translate_to(wb, prev, 'plain', refb)
                        tr2 = cexec.translate(wb, d2, 'm', o2, variant) if tr1.rc == 0 else tr1
                    else:
                        d2, tr2 = translate_to(wb, o2, variant, refb)
                    try:
                        res['evaluations'] += 1
                        res['classes']['determinism_' + (what if not what.startswith('-t') else 'thread_count')] += 1
                        f2_ = read_outputs(d2) if tr2.rc == 0 else None
                        if what == 'used-directory' and f2_ is not None:
                            f2_ = dict((n, b) for n, b in f2_.items() if n in files)
                            o2 = prev + ['then'] + list(o2)
                        if f2_ != files:
                            diff = sorted(set(files) ^ set(f2_ or {})) or [n for n in files if (f2_ or {}).get(n) != files[n]]
                            problems.append('output differs for %s (options %s): %s' % (what, ' '.join(o2), diff[:4] if f2_ is not None else 'exit %r %s' % (tr2.rc, tr2.err[-150:])))
                    finally:
                        cexec.rm(d2)
            if problems and len(res['violations']) < 2:
                sig = sig_of(problems[0])
                res['violations'].append({'signature': sig,
                                          'summary': '%s | options=%s [%s]' % ('; '.join(problems[:2]), ' '.join(opts), mk),
                                          'replay': {'kind': 'c09', 'module_hex': wb.hex(), 'ref_hex': refb.hex(), 'options': opts,
                                                     'script': f1.script_to_json(script), 'ninst': ninst, 'problems': problems[:4],
                                                     'prev_options': prev if files is not None and not any(not p_.startswith('output differs') for p_ in problems) else None,
                                                     'module_text': wasm.fmt_module(m)[:4000]}})
        if ci < 1:
            res['samples'].append({'generator': mk, 'functions': nf, 'option_sets': [' '.join(o) for o in optsets]})
    res['extra'] = dict(res['extra'])
    res['excluded'] = gen.EXCLUDED['snan_immediate'] + EXCLUDED['m_with_fN_export']
    gen.EXCLUDED['snan_immediate'] = 0
    EXCLUDED['m_with_fN_export'] = 0
    return res


def sched_task(wid, seed, params):
    """the translator's producer / worker-pool protocol under vsched: generated decision strings choose every interleaving
    step at the pthread calls; each run must terminate (no scheduler-detected deadlock), exit 0 and produce the baseline files"""
    res = {'evaluations': 0, 'nontrivial': set(), 'classes': collections.Counter(), 'samples': [], 'violations': [],
           'infra': [], 'extra': collections.Counter()}
    for ci in range(params['ncases']):
        ch = Chooser(seed * 1000003 + ci)
        try:
            mk, m, script, meta = gen_case(ch, params)
        except wasm.Invalid:
            continue
        wb = wasm.encode(m)
        nf = len(m.funcs)
        opts = ['-f', str(ch.pick((1, 2, 3))), '-t', str(ch.pick((2, 3, 4)))]
        if ch.below(3) == 1:
            opts.append('-g')
        if ch.below(3) == 1:
            opts.append('-p')
        d0, tr0 = translate_to(wb, opts, 'plain')
        try:
            if tr0.rc != 0:
                continue
            base = read_outputs(d0)
        finally:
            cexec.rm(d0)
        for si in range(params['schedules']):
            c2 = Chooser(seed * 7919 + ci * 131 + si)
            dec = bytes(c2.below(256) for _ in range(c2.pick((0, 8, 40, 150, 600)))).hex()
            d, tr = cexec.new_dir('vs'), None
            try:
                tr = cexec.translate(wb, d, 'm', opts, 'vsched', env={'VSCHED_DECISIONS': dec, 'VSCHED_SPURIOUS': str(c2.pick((0, 2, 5)))})
                res['evaluations'] += 1
                res['extra']['schedules_explored'] += 1
                files = read_outputs(d) if tr.rc == 0 else None
            finally:
                cexec.rm(d)
            nimpl = len([n for n in base if IMPL.match(n)])
            if nimpl >= 3:
                res['nontrivial'].add(f1.hx((wb, tuple(opts), dec)))
                res['classes']['schedule_threads>=2_files>=3'] += 1
            bad = None
            if tr.rc == 66:
                bad = ('sched-deadlock', 'worker pool deadlocks under a generated schedule: ' + tr.err.decode(errors='replace')[-200:])
            elif tr.rc != 0:
                bad = ('sched-exit', 'translator exit %r under a generated schedule: %s' % (tr.rc, tr.err.decode(errors='replace')[-200:]))
            elif files != base:
                diff = sorted(set(files) ^ set(base)) or [n for n in files if base.get(n) != files[n]]
                bad = ('sched-output', 'output differs under a generated schedule: %s' % diff[:4])
            if bad and len(res['violations']) < 2:
                res['violations'].append({'signature': 'c09:' + bad[0], 'summary': bad[1] + ' | options=%s decisions=%s' % (' '.join(opts), dec[:40]),
                                          'replay': {'kind': 'c09-sched', 'module_hex': wb.hex(), 'options': opts, 'decisions': dec}})
                break
        if ci < 1:
            res['samples'].append({'vsched_translator_run': ' '.join(opts), 'functions': nf, 'decision_bytes': len(dec) // 2})
    res['extra'] = dict(res['extra'])
    return res


def big_atomic_module(ch):
    """hundreds of functions full of atomic accesses with distinct static offsets: each output file takes long enough to write
    that several worker threads are inside the code generator at the same time"""
    from ..wasm import Module, I32, I64
    m = Module()
    m.memory = (1, 1, True)
    t32 = m.type_index((I32,), (I32,))
    nf = ch.pick((150, 250, 400))
    k = ch.pick((10, 20, 25))
    ops = ['i32.atomic.rmw.add', 'i32.atomic.rmw.cmpxchg', 'i32.atomic.rmw16.xor_u', 'i32.atomic.load', 'i32.atomic.rmw8.or_u', 'i32.load']
    for i in range(nf):
        body = []
        for j in range(k):
            op = ops[(i + j) % len(ops)]
            off = (4 * (i * k + j)) % 60000 + 4
            al = 2 if ('rmw.' in op or op.endswith('.load')) else (1 if '16' in op else 0)
            if 'cmpxchg' in op:
                body += [('local.get', 0), ('i32.const', 0), ('i32.const', 1), (op, al, off), ('drop',)]
            elif 'load' in op:
                body += [('local.get', 0), (op, al, off), ('drop',)]
            else:
                body += [('local.get', 0), ('i32.const', 1), (op, al, off), ('drop',)]
        body += [('local.get', 0)]
        m.funcs.append(Func(t32, [], body))
        m.exports.append((b'e%d' % i, 'func', i))
    wasm.validate(m)
    return m


def tsan_task(wid, seed, params):
    """the unmodified translator built with ThreadSanitizer, splitting the functions over several files with several worker threads:
    no data race report, exit 0, and the same files as the plain build.  (vsched switches threads only at pthread calls; a race on
    plain memory between two such calls - a static scratch buffer shared by the workers, say - needs this observer.)"""
    res = {'evaluations': 0, 'nontrivial': set(), 'classes': collections.Counter(), 'samples': [], 'violations': [],
           'infra': [], 'extra': collections.Counter()}
    for ci in range(params['ncases']):
        ch = Chooser(seed * 1000003 + ci)
        try:
            if ci % 3 == 0:
                mk, m = 'big_atomic', big_atomic_module(ch)
            else:
                mk, m, script, meta = gen_case(ch, dict(params, big=True))
        except wasm.Invalid:
            continue
        wb = wasm.encode(m)
        opts = ['-f', str(ch.pick((1, 1, 2, 3)) if mk != 'big_atomic' else ch.pick((10, 20, 40))), '-t', str(ch.pick((2, 4, 8, 16)))]
        for o in ('-g', '-p', '-m'):
            if ch.below(4) == 1 and not (o == '-m' and any(FN_EXPORT.match(n) for n, kd, i in m.exports if kd == 'func')):
                opts.append(o)
        seq_opts = [o for i, o in enumerate(opts) if o != '-t' and (i == 0 or opts[i - 1] != '-t')] + ['-t', '1']
        d0, tr0 = translate_to(wb, seq_opts, 'plain')
        try:
            if tr0.rc != 0:
                continue
            base = read_outputs(d0)
        finally:
            cexec.rm(d0)
        # plain build, several workers, several attempts: what one worker writes must never depend on what the others are doing
        bad0 = None
        for attempt in range(4 if mk == 'big_atomic' else 1):
            dp, trp = translate_to(wb, opts, 'plain')
            try:
                res['evaluations'] += 1
                fp = read_outputs(dp) if trp.rc == 0 else None
            finally:
                cexec.rm(dp)
            if fp != base:
                diff = sorted(set(fp or {}) ^ set(base)) or [n for n in base if (fp or {}).get(n) != base[n]]
                bad0 = ('threads-output', 'translation with several worker threads differs from the single-threaded one: %s' % diff[:4])
                break
        if bad0 and len(res['violations']) < 2:
            res['violations'].append({'signature': 'c09:' + bad0[0], 'summary': bad0[1] + ' | options=%s [%s]' % (' '.join(opts), mk),
                                      'replay': {'kind': 'c09-threads', 'module_hex': wb.hex(), 'options': opts}})
            continue
        d, tr = translate_to(wb, opts, 'tsan')
        try:
            res['evaluations'] += 1
            files = read_outputs(d) if tr.rc == 0 else None
        finally:
            cexec.rm(d)
        nimpl = len([n for n in base if IMPL.match(n)])
        res['classes']['tsan_translation'] += 1
        if nimpl >= 3:
            res['nontrivial'].add(f1.hx((wb, tuple(opts))))
            res['classes']['tsan_files>=3'] += 1
        err = tr.err.decode(errors='replace') if isinstance(tr.err, bytes) else str(tr.err)
        bad = None
        if 'ThreadSanitizer' in err or tr.rc == 96:
            locs = [l.strip() for l in err.splitlines() if l.strip().startswith('#0') or l.strip().startswith('#1')][:3]
            bad = ('tsan-race:' + f1.normalize_diag(' '.join(locs))[:70], 'ThreadSanitizer report in the translator: ' + err[:900])
        elif tr.rc != 0:
            bad = ('tsan-exit', 'ThreadSanitizer build of the translator exits %r: %s' % (tr.rc, err[-300:]))
        elif files != base:
            diff = sorted(set(files) ^ set(base)) or [n for n in files if base.get(n) != files[n]]
            bad = ('tsan-output', 'ThreadSanitizer build writes other files than the plain build: %s' % diff[:4])
        if bad and len(res['violations']) < 2:
            res['violations'].append({'signature': 'c09:' + bad[0], 'summary': bad[1] + ' | options=%s' % ' '.join(opts),
                                      'replay': {'kind': 'c09-tsan', 'module_hex': wb.hex(), 'options': opts}})
    res['extra'] = dict(res['extra'])
    return res


def deep_module(depth, nextra, variant=0):
    """bytes of a module whose first function is `depth` blocks / loops deep (assembled by hand: no recursion on this side), followed
    by a few small functions; variant != 0 changes the small functions only (a reference module)"""
    enc = wasm.Encoder()
    u = enc.u
    body = b'\x00' + b''.join(b'\x02\x7f' if d % 2 else b'\x03\x7f' for d in range(depth)) + b'\x20\x00' + b'\x0b' * depth + b'\x0b'
    bodies = [u(len(body)) + body]
    for k in range(nextra):
        b = b'\x00\x20\x00\x41' + bytes([(k + 1 + variant * (k % 2)) & 0x3f]) + b'\x6a\x0b'
        bodies.append(u(len(b)) + b)
    n = 1 + nextra

    def sec(i, payload):
        return bytes([i]) + u(len(payload)) + payload
    out = b'\x00asm\x01\x00\x00\x00'
    out += sec(1, u(1) + b'\x60\x01\x7f\x01\x7f')
    out += sec(3, u(n) + b'\x00' * n)
    out += sec(7, u(n) + b''.join(enc.name(b'e%d' % i) + b'\x00' + u(i) for i in range(n)))
    out += sec(10, u(n) + b''.join(bodies))
    return out


def deep_task(wid, seed, params):
    """nesting depths of several thousand blocks: what the translator can translate into one file it can translate into several
    (worker threads, static / dynamic split) - same exit status, each function once, same function texts"""
    res = {'evaluations': 0, 'nontrivial': set(), 'classes': collections.Counter(), 'samples': [], 'violations': [],
           'infra': [], 'extra': collections.Counter()}
    for ci in range(params['ncases']):
        ch = Chooser(seed * 1000003 + ci)
        depth = ch.pick((1500, 3000, 4500, 6000, 8000))
        nextra = 2 + ch.below(3)
        wb = deep_module(depth, nextra)
        refb = deep_module(depth, nextra, 1)
        base = {}
        ok = True
        for pretty in (False, True):
            d0, tr0 = translate_to(wb, ['-t', '1'] + (['-p'] if pretty else []), 'plain')
            try:
                if tr0.rc != 0:
                    ok = False
                    break
                bd = collections.Counter()
                for fn, defs in fdefs(open(os.path.join(d0, 'm.c'), errors='replace').read()).items():
                    for t in defs:
                        bd[t] += 1
                base[pretty] = bd
            finally:
                cexec.rm(d0)
        if not ok:
            res['extra']['deep_module_not_translatable_in_one_file'] += 1       # beyond what the translator handles at all
            continue
        for oi in range(params['nvariants']):
            opts = ['-f', str(ch.pick((1, 1, 2, 3)))]
            if ch.below(2):
                opts += ['-t', str(ch.pick((1, 2, 3, 8)))]
            pretty = ch.below(3) == 0
            if pretty:
                opts.append('-p')
            with_ref = ch.below(3) == 0
            if with_ref:
                opts += ['-r', 'ref.wasm']
            d, tr = translate_to(wb, opts, 'plain', refb if with_ref else None)
            res['evaluations'] += 1
            res['classes']['deep_nesting_split_output'] += 1
            res['nontrivial'].add(f1.hx((depth, nextra, tuple(opts))))
            problem = None
            try:
                if tr.rc != 0:
                    problem = 'translator exit %r with options %s on a module it translates into one file (nesting depth %d): %s' % (
                        tr.rc, ' '.join(opts), depth, tr.err.decode(errors='replace')[-160:])
                else:
                    texts = collections.Counter()
                    for n in sorted(os.listdir(d)):
                        if n == 'm.c' or IMPL.match(n):
                            for fn, defs in fdefs(open(os.path.join(d, n), errors='replace').read()).items():
                                for t in defs:
                                    texts[t] += 1
                    if texts != base[pretty]:
                        problem = 'function texts differ from the single-file output (nesting depth %d, options %s): %d vs %d definitions' % (
                            depth, ' '.join(opts), sum(texts.values()), sum(base[pretty].values()))
            finally:
                cexec.rm(d)
            if problem and not res['violations']:
                res['violations'].append({'signature': 'deep:' + sig_of(problem), 'summary': problem,
                                          'replay': {'kind': 'c09-deep', 'depth': depth, 'nextra': nextra, 'options': opts, 'pretty': pretty, 'with_ref': with_ref}})
    res['extra'] = dict(res['extra'])
    return res


def deep_replay(rp):
    wb = deep_module(rp['depth'], rp['nextra'])
    refb = deep_module(rp['depth'], rp['nextra'], 1)
    d0, tr0 = translate_to(wb, ['-t', '1'] + (['-p'] if rp['pretty'] else []), 'plain')
    try:
        if tr0.rc != 0:
            return False
        base = collections.Counter(t for fn, defs in fdefs(open(os.path.join(d0, 'm.c'), errors='replace').read()).items() for t in defs)
    finally:
        cexec.rm(d0)
    d, tr = translate_to(wb, rp['options'], 'plain', refb if rp['with_ref'] else None)
    try:
        if tr.rc != 0:
            return True
        texts = collections.Counter()
        for n in sorted(os.listdir(d)):
            if n == 'm.c' or IMPL.match(n):
                for fn, defs in fdefs(open(os.path.join(d, n), errors='replace').read()).items():
                    for t in defs:
                        texts[t] += 1
        return texts != base
    finally:
        cexec.rm(d)


def dispatch(wid, seed, params):
    if params.get('deep'):
        return deep_task(wid, seed, params)
    if params.get('sched'):
        return sched_task(wid, seed, params)
    if params.get('tsan'):
        return tsan_task(wid, seed, params)
    return task(wid, seed, params)


def replay(rp):
    if rp.get('kind') == 'c09-deep':
        return deep_replay(rp)
    if rp.get('kind') == 'c09-threads':
        wb = bytes.fromhex(rp['module_hex'])
        opts = rp['options']
        seq_opts = [o for i, o in enumerate(opts) if o != '-t' and (i == 0 or opts[i - 1] != '-t')] + ['-t', '1']
        d0, tr0 = translate_to(wb, seq_opts, 'plain')
        try:
            base = read_outputs(d0) if tr0.rc == 0 else None
        finally:
            cexec.rm(d0)
        for _ in range(25):          # depends on how the workers interleave: many cheap attempts
            d, tr = translate_to(wb, opts, 'plain')
            try:
                if tr.rc != 0 or read_outputs(d) != base:
                    return True
            finally:
                cexec.rm(d)
        return False
    if rp.get('kind') == 'c09-tsan':
        wb = bytes.fromhex(rp['module_hex'])
        d0, tr0 = translate_to(wb, rp['options'], 'plain')
        try:
            base = read_outputs(d0) if tr0.rc == 0 else None
        finally:
            cexec.rm(d0)
        for _ in range(12):         # a race report needs both accesses to happen close enough in time: several attempts
            d, tr = translate_to(wb, rp['options'], 'tsan')
            try:
                if tr.rc != 0 or read_outputs(d) != base:
                    return True
            finally:
                cexec.rm(d)
        return False
    if rp.get('kind') == 'c09-sched':
        wb = bytes.fromhex(rp['module_hex'])
        d0, tr0 = translate_to(wb, rp['options'], 'plain')
        try:
            base = read_outputs(d0) if tr0.rc == 0 else None
        finally:
            cexec.rm(d0)
        d = cexec.new_dir('vs')
        try:
            tr = cexec.translate(wb, d, 'm', rp['options'], 'vsched', env={'VSCHED_DECISIONS': rp['decisions']})
            return tr.rc != 0 or read_outputs(d) != base
        finally:
            cexec.rm(d)
    wb = bytes.fromhex(rp['module_hex'])
    refb = bytes.fromhex(rp['ref_hex'])
    m = wasm.decode(wb)
    script = f1.script_from_json(rp['script'])
    ninst = rp.get('ninst', 2)
    model = e2e.ModelRun(m, script, ninst=ninst)
    d0, tr0 = translate_to(wb, ['-t', '1'], 'plain')
    try:
        if tr0.rc != 0:
            return True
        base_files = read_outputs(d0)
    finally:
        cexec.rm(d0)
    base_defs = collections.Counter()
    for fn, defs in fdefs(base_files['m.c'].decode(errors='replace')).items():
        for t in defs:
            base_defs[t] += 1
    res = {'classes': collections.Counter()}
    problems, files = check_variant(m, model, wb, rp['options'], refb, base_defs, ninst, res)
    if problems:
        return True
    if any(p.startswith('output differs') for p in rp.get('problems', [])):
        # determinism findings: re-translate with several thread counts; a difference that depends on how the worker threads
        # interleave does not show in every run, so many (cheap) attempts are made before the finding counts as not reproduced
        for t in (1, 2, 3, 8, 64, 2, 3) * 6:
            o2 = [o for i, o in enumerate(rp['options']) if o != '-t' and (i == 0 or rp['options'][i - 1] != '-t')] + ['-t', str(t)]
            d2, tr2 = translate_to(wb, o2, 'plain', refb)
            try:
                if tr2.rc != 0 or read_outputs(d2) != files:
                    return True
            finally:
                cexec.rm(d2)
        if rp.get('prev_options') is not None:
            d2, tr1 = translate_to(wb, rp['prev_options'], 'plain', refb)
            try:
                tr2 = cexec.translate(wb, d2, 'm', rp['options'], 'plain')
                if tr1.rc != 0 or tr2.rc != 0 or dict((n, b) for n, b in read_outputs(d2).items() if n in files) != files:
                    return True
            finally:
                cexec.rm(d2)
        # ... and with the other translator build configurations
        base_opts = [o for i, o in enumerate(rp['options']) if o != '-t' and (i == 0 or rp['options'][i - 1] != '-t')]
        for v in ('nopthread', 'nogetopt', 'nolibgen', 'nostrdup'):
            d2, tr2 = translate_to(wb, base_opts if v == 'nopthread' else rp['options'], v, refb)
            try:
                if tr2.rc != 0 or read_outputs(d2) != files:
                    return True
            finally:
                cexec.rm(d2)
    return False


def plan(tier, seed):
    if tier == 'quick':
        return [{'ncases': 8, 'nvariants': 4} for _ in range(28)] + [{'sched': True, 'ncases': 6, 'schedules': 40} for _ in range(4)] + \
            [{'tsan': True, 'ncases': 12} for _ in range(4)] + [{'deep': True, 'ncases': 3, 'nvariants': 4} for _ in range(2)]
    return [{'ncases': 30, 'nvariants': 8} for _ in range(56)] + [{'sched': True, 'ncases': 40, 'schedules': 120} for _ in range(8)] + \
        [{'tsan': True, 'ncases': 150} for _ in range(8)] + [{'deep': True, 'ncases': 30, 'nvariants': 8} for _ in range(4)]


def run(tier, seed):
    return f1.standard_run(ID, LEVEL, RULE, ASSUME, plan(tier, seed), dispatch, replay, tier, seed)
