"""C07 — every constant keeps its exact bit pattern through the generated C text."""
import collections
import time

from .. import f1, gen, runner, wasm, pools, interp, e2e
from ..wasm import I32, I64, F32, F64, Module, Func

from . import c05  # noqa: F401  (registers the 2 GiB generator)

ID = 'C07'
LEVEL = 'exploration'
RULE = ('round trip constant -> C text -> compiled bits. Each module carries hundreds of constants in every position a '
        'constant may occur: t.const returned directly, f32/f64.const observed through iNN.reinterpret inside wasm, global '
        'initialisers (read by a getter function and from the instance struct), data-segment offsets (observed by where the '
        'bytes land) and element-segment offsets (observed by which table slot holds the function), and bodies with 2-6 constants '
        'stored to memory in which each constant is equal or related to its predecessor (f32 x / f64 (double)x in both orders, '
        'i32 v / i64 v, the same literal twice); data-segment offsets at and above 2^31 in memories of just over 2 GiB. Values: the boundary '
        'pools (all NaN classes incl. signalling / payload-in-low-bits / payload-in-high-bits, -0, infinities, subnormals, '
        'extremes, INT_MIN, decimal round-trip hard cases) and seeded random bit patterns. Non-trivial = NaN/inf/-0/'
        'subnormal/extreme-exponent float, a float needing >= 8 (f32) / >= 16 (f64) significant decimal digits, or an '
        'integer with the sign bit set / INT_MIN; distinct by (type, bit pattern).')
ASSUME = ['gcc/clang decimal-to-binary conversion is correctly rounded', 'driver reads float results with memcpy']


def nontrivial_const(t, v):
    if t == I32:
        return v >> 31 == 1
    if t == I64:
        return v >> 63 == 1
    if t == F32:
        e = (v >> 23) & 0xff
        if e == 0xff or e == 0 or e >= 0xf0 or e <= 0x10:
            return True
        x = interp.f32_val(v)
        return float('%.7g' % x) != x
    e = (v >> 52) & 0x7ff
    if e == 0x7ff or e == 0 or e >= 0x7f0 or e <= 0x10:
        return True
    x = interp.f64_val(v)
    return float('%.15g' % x) != x


@f1.maker('c07_consts')
def make_consts(ch, params):
    n = params.get('nconst', 300)
    m = Module()
    m.memory = (1, None)
    m.table = (64, None)
    m.exports.append((b'mem', 'memory', 0))
    # sometimes with imported globals in front: constant initialisers then belong to globals whose index is not their position
    # among the defined ones
    nimp = ch.pick((0, 0, 1, 2))
    for k in range(nimp):
        m.imports.append((b'env', b'ig%d' % k, 'global', (ch.pick((I32, I64, F32, F64)), False)))
    script = []
    keys = []
    e = 0
    nglob = 0
    for i in range(n):
        t = ch.pick((I32, I64, F32, F64))
        v = pools.draw_const(ch, t)
        keys.append((t, v))
        pos = ch.below(4)
        if pos == 0 or (pos == 1 and t in (I32, I64)):
            m.funcs.append(Func(m.type_index((), (t,)), [], [('%s.const' % t, v)]))
        elif pos == 1:
            it = I32 if t == F32 else I64
            m.funcs.append(Func(m.type_index((), (it,)), [], [('%s.const' % t, v), ('%s.reinterpret_%s' % (it, t),)]))
        else:
            g = nimp + len(m.globals)
            m.globals.append((t, bool(ch.below(2)), ('%s.const' % t, v)))
            nglob += 1
            if pos == 2 or t in (I32, I64):
                m.funcs.append(Func(m.type_index((), (t,)), [], [('global.get', g)]))
            else:
                it = I32 if t == F32 else I64
                m.funcs.append(Func(m.type_index((), (it,)), [], [('global.get', g), ('%s.reinterpret_%s' % (it, t),)]))
            if ch.below(4) == 0:
                script.append(('glob', 0, g))
        m.exports.append((b'c%d' % e, 'func', len(m.funcs) - 1))
        script.append(('call', 0, e, []))
        e += 1
    # several constants in ONE body, each stored to its own memory cell: a value next to an equal or related value of another type
    # (f32 x then f64 (double)x and the reverse, i32 v then i64 v, the same literal twice), so that whatever the translator keeps
    # from one literal to the next within a function (formatting buffers, memoised text) meets a neighbour that needs other digits
    import struct as _st

    def related(t, v):
        k = ch.below(6)
        if k == 0:
            return t, v
        if t == F32 and k < 4:
            x = _st.unpack('<f', _st.pack('<I', v))[0]
            return F64, _st.unpack('<Q', _st.pack('<d', x))[0]
        if t == F64 and k < 4:
            x = _st.unpack('<d', _st.pack('<Q', v))[0]
            try:
                return F32, _st.unpack('<I', _st.pack('<f', x))[0]
            except OverflowError:
                return F32, 0x7f7fffff
        if t == I32 and k < 4:
            return I64, v if k < 3 else (v | 0xffffffff00000000 if v >> 31 else v)
        if t == I64 and k < 4:
            return I32, v & 0xffffffff
        t2 = ch.pick((I32, I64, F32, F64))
        return t2, pools.draw_const(ch, t2)
    STORE_ALIGN = {I32: 2, I64: 3, F32: 2, F64: 3}
    for j in range(max(n // 12, 4)):
        base = 20000 + j * 64
        body = []
        t, v = ch.pick((F32, F64, F32, I32, I64)), None
        v = pools.draw_const(ch, t)
        if t in (F32, F64) and ch.below(2):
            # values whose short decimal text is not exact
            v = ch.pick((0x3dcccccd, 0x3eaaaaab, 0x7f7fffff, 0x00000001, 0xc0490fdb, 0x3f99999a) if t == F32 else
                        (0x3fb999999999999a, 0x3fd5555555555555, 0x7fefffffffffffff, 0x0000000000000001, 0x400921fb54442d18))
        for i in range(2 + ch.below(5)):
            keys.append((t, v))
            body += [('i32.const', base + 8 * i), ('%s.const' % t, v), ('%s.store' % t, STORE_ALIGN[t], 0)]
            t, v = related(t, v)
        m.funcs.append(Func(m.type_index((), ()), [], body))
        m.exports.append((b'c%d' % e, 'func', len(m.funcs) - 1))
        script.append(('call', 0, e, []))
        script.append(('dump', 0, base, 56))
        e += 1
    # segment offsets: i32 constants within range, written with their full LEB form
    nseg = 1 + ch.below(6)
    for s in range(nseg):
        off = ch.pick((0, 1, 63, 64, 127, 128, 255, 256, 8191, 8192, 16383, 16384, 65535 - 8, 12345, 40000))
        data = bytes([0xa0 + s] * (1 + ch.below(8)))
        m.datas.append(('active', ('i32.const', off), data))
        keys.append((I32, off))
    for s in range(1 + ch.below(4)):
        off = ch.pick((0, 1, 7, 31, 32, 62, 63))
        m.elems.append((('i32.const', off), [ch.below(len(m.funcs))]))
        keys.append((I32, off))
    script = e2e.default_setup(m, 1) + script
    script.append(('mem', 0))
    for off in sorted(set(o[1] for md, o, d in m.datas)):
        lo = max(off - 2, 0)
        script.append(('dump', 0, lo, min(12, 65536 - lo)))
    for off, fl in m.elems:
        script.append(('slot', 0, off[1]))

    def nt(m_, script_, model, meta):
        return [(f1.hx(k), ('const-' + k[0],)) for k in keys if nontrivial_const(*k)]
    return m, script, {'nontrivial_fn': nt, 'ninst': 1, 'evaluations': len(keys)}


def plan(tier, seed):
    if tier == 'quick':
        ccs = ['gcc-O0', 'clang-O0', 'gcc-O2-gnu89', 'clang-O2', 'gcc-O0-c89', 'clang-O2-c89']
        # segment offsets with the sign bit set (0x7ffffffc ... just below the memory's end) need a memory of more than 2 GiB: the
        # generator C05 uses for such memories, a few cases
        big = [{'maker': 'c05_bigmem', 'ncases': 2, 'ccs': ['gcc-O0', 'clang-O2'], 'shrink_budget': 5, 'encoding_knobs': False} for _ in range(3)]
        return [{'maker': 'c07_consts', 'ncases': 12, 'ccs': ccs, 'nconst': 400, 'shrink_budget': 40} for _ in range(32)] + big
    ccs = ['gcc-O0', 'clang-O0', 'gcc-O2-gnu89', 'clang-O2', 'gcc-O0-gnu89', 'clang-O0-gnu89', 'gcc-O3', 'clang-O3', 'gcc-O0-c89', 'gcc-O2-c89', 'clang-O2-c89']
    big = [{'maker': 'c05_bigmem', 'ncases': 20, 'ccs': ['gcc-O0', 'clang-O2', 'gcc-O2', 'clang-O0'], 'shrink_budget': 5, 'encoding_knobs': False} for _ in range(6)]
    return [{'maker': 'c07_consts', 'ncases': 150, 'ccs': ccs, 'nconst': 600, 'shrink_budget': 60} for _ in range(64)] + big


def replay(rp):
    return f1.case_replay(rp)


def run(tier, seed):
    return f1.standard_run(ID, LEVEL, RULE, ASSUME, plan(tier, seed), f1.case_task, replay, tier, seed)
