"""C07 — every constant keeps its exact bit pattern through the generated C text."""
import collections
import time

from .. import f1, gen, runner, wasm, pools, interp, e2e
from ..wasm import I32, I64, F32, F64, Module, Func

ID = 'C07'
LEVEL = 'exploration'
RULE = ('round trip constant -> C text -> compiled bits. Each module carries hundreds of constants in every position a '
        'constant may occur: t.const returned directly, f32/f64.const observed through iNN.reinterpret inside wasm, global '
        'initialisers (read by a getter function and from the instance struct), data-segment offsets (observed by where the '
        'bytes land) and element-segment offsets (observed by which table slot holds the function). Values: the boundary '
        'pools (all NaN classes incl. signalling / payload-in-low-bits / payload-in-high-bits, -0, infinities, subnormals, '
        'extremes, INT_MIN, decimal round-trip hard cases) and seeded random bit patterns. Non-trivial = NaN/inf/-0/'
        'subnormal/extreme-exponent float, a float needing >= 8 (f32) / >= 16 (f64) significant decimal digits, or an '
        'integer with the sign bit set / INT_MIN; distinct by (type, bit pattern).')
ASSUME = ['gcc/clang decimal-to-binary conversion is correctly rounded', 'driver reads float results with memcpy']


def nontrivial_const(t, v):
    if t == I32:
        return v >> 31 == 1
    if t == I64:
        return v >> 63 == 1
    if t == F32:
        e = (v >> 23) & 0xff
        if e == 0xff or e == 0 or e >= 0xf0 or e <= 0x10:
            return True
        x = interp.f32_val(v)
        return float('%.7g' % x) != x
    e = (v >> 52) & 0x7ff
    if e == 0x7ff or e == 0 or e >= 0x7f0 or e <= 0x10:
        return True
    x = interp.f64_val(v)
    return float('%.15g' % x) != x


@f1.maker('c07_consts')
def make_consts(ch, params):
    n = params.get('nconst', 300)
    m = Module()
    m.memory = (1, None)
    m.table = (64, None)
    m.exports.append((b'mem', 'memory', 0))
    # sometimes with imported globals in front: constant initialisers then belong to globals whose index is not their position
    # among the defined ones
    nimp = ch.pick((0, 0, 1, 2))
    for k in range(nimp):
        m.imports.append((b'env', b'ig%d' % k, 'global', (ch.pick((I32, I64, F32, F64)), False)))
    script = []
    keys = []
    e = 0
    nglob = 0
    for i in range(n):
        t = ch.pick((I32, I64, F32, F64))
        v = pools.draw_const(ch, t)
        keys.append((t, v))
        pos = ch.below(4)
        if pos == 0 or (pos == 1 and t in (I32, I64)):
            m.funcs.append(Func(m.type_index((), (t,)), [], [('%s.const' % t, v)]))
        elif pos == 1:
            it = I32 if t == F32 else I64
            m.funcs.append(Func(m.type_index((), (it,)), [], [('%s.const' % t, v), ('%s.reinterpret_%s' % (it, t),)]))
        else:
            g = nimp + len(m.globals)
            m.globals.append((t, bool(ch.below(2)), ('%s.const' % t, v)))
            nglob += 1
            if pos == 2 or t in (I32, I64):
                m.funcs.append(Func(m.type_index((), (t,)), [], [('global.get', g)]))
            else:
                it = I32 if t == F32 else I64
                m.funcs.append(Func(m.type_index((), (it,)), [], [('global.get', g), ('%s.reinterpret_%s' % (it, t),)]))
            if ch.below(4) == 0:
                script.append(('glob', 0, g))
        m.exports.append((b'c%d' % e, 'func', len(m.funcs) - 1))
        script.append(('call', 0, e, []))
        e += 1
    # segment offsets: i32 constants within range, written with their full LEB form
    nseg = 1 + ch.below(6)
    for s in range(nseg):
        off = ch.pick((0, 1, 63, 64, 127, 128, 255, 256, 8191, 8192, 16383, 16384, 65535 - 8, 12345, 40000))
        data = bytes([0xa0 + s] * (1 + ch.below(8)))
        m.datas.append(('active', ('i32.const', off), data))
        keys.append((I32, off))
    for s in range(1 + ch.below(4)):
        off = ch.pick((0, 1, 7, 31, 32, 62, 63))
        m.elems.append((('i32.const', off), [ch.below(len(m.funcs))]))
        keys.append((I32, off))
    script = e2e.default_setup(m, 1) + script
    script.append(('mem', 0))
    for off in sorted(set(o[1] for md, o, d in m.datas)):
        lo = max(off - 2, 0)
        script.append(('dump', 0, lo, min(12, 65536 - lo)))
    for off, fl in m.elems:
        script.append(('slot', 0, off[1]))

    def nt(m_, script_, model, meta):
        return [(f1.hx(k), ('const-' + k[0],)) for k in keys if nontrivial_const(*k)]
    return m, script, {'nontrivial_fn': nt, 'ninst': 1, 'evaluations': len(keys)}


def plan(tier, seed):
    if tier == 'quick':
        ccs = ['gcc-O0', 'clang-O0', 'gcc-O2-gnu89', 'clang-O2']
        return [{'maker': 'c07_consts', 'ncases': 12, 'ccs': ccs, 'nconst': 400, 'shrink_budget': 40} for _ in range(32)]
    ccs = ['gcc-O0', 'clang-O0', 'gcc-O2-gnu89', 'clang-O2', 'gcc-O0-gnu89', 'clang-O0-gnu89', 'gcc-O3', 'clang-O3']
    return [{'maker': 'c07_consts', 'ncases': 150, 'ccs': ccs, 'nconst': 600, 'shrink_budget': 60} for _ in range(64)]


def replay(rp):
    return f1.case_replay(rp)


def run(tier, seed):
    return f1.standard_run(ID, LEVEL, RULE, ASSUME, plan(tier, seed), f1.case_task, replay, tier, seed)
