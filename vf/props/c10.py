"""C10 — the translator is total and memory-safe on valid modules and on truncated files."""
import collections
import zlib
import os

from .. import f1, f2, gen, wasm, cexec, runner
from ..choice import Chooser

ID = 'C10'
LEVEL = 'exploration'
RULE = ('system under test: the unmodified w2c2 sources built with clang -O1 -fsanitize=address,undefined -fno-sanitize-recover, '
        'run out of process (so main.c option/path handling is included), and a second build under clang MemorySanitizer (every full module, a third of the truncations: uses of uninitialised memory). Inputs: valid modules from every generator mode '
        '(expr, ctrl, calls, mem, inst, consts), the valid spec-suite modules in their original encoding, names modules (long / '
        'non-ASCII / punctuation-laden import, export and function names; name sections naming all, some or no functions, '
        'duplicates) and stress shapes (thousands of functions / locals / br_table targets / data segments, nesting depth up to '
        '1500, operand stacks of 2000) x generated option sets (-p, -f N, -t N, -m, -g, -d arrays|gnu-ld, -c, -r REFERENCE with a reference module sharing some / all / no function bodies, and truncated reference files); plus, for '
        'robustness, truncations of such files: every cut 0<k<len for small modules (exhaustive) and sampled cuts for larger '
        'ones. Oracle: full module => exit 0, no signal, no sanitizer report; proper prefix => exit 0, or non-zero WITH a '
        'diagnostic on stderr, never a signal or sanitizer report. Hang guard 120 s. Non-trivial = module with an import used in '
        'a body, a name outside [A-Za-z0-9_], >= 3 sections beyond type/function/code, a run with >= 2 options, or a cut inside a '
        'section body; distinct by (file bytes, options, cut).')
ASSUME = ['AddressSanitizer/UBSan (clang 14) detect the memory errors they document; leak reports are disabled (the translator '
          'never frees by design)', 'allocation-failure paths are not injected']

SECTION_IDS_BASIC = (1, 3, 10)


def sections_of(b):
    """[(id, payload start, payload end)]"""
    out = []
    p = 8
    try:
        while p < len(b):
            sid = b[p]
            p += 1
            size = shift = 0
            while True:
                c = b[p]
                p += 1
                size |= (c & 0x7f) << shift
                shift += 7
                if not c & 0x80:
                    break
            out.append((sid, p, p + size))
            p += size
    except IndexError:
        pass
    return out


def run_w2c2(wb, opts, variant='asan', name='m', timeout=120, ref=None):
    d = cexec.new_dir('t')
    try:
        if ref is not None:
            with open(os.path.join(d, 'ref.wasm'), 'wb') as f:
                f.write(ref)
        tr = cexec.translate(wb, d, name, opts, variant, timeout=timeout)
        return tr
    finally:
        cexec.rm(d)


def check_full(tr):
    bad = f2.classify_run(tr)
    if bad:
        return bad
    if tr.rc != 0:
        return 'exit', 'exit status %r on a valid module: %s' % (tr.rc, tr.err.decode(errors='replace').strip()[:80])
    return None


def check_prefix(tr):
    bad = f2.classify_run(tr)
    if bad:
        return bad
    if tr.rc != 0 and not tr.err.strip():
        return 'silent', 'non-zero exit status %r without a diagnostic' % (tr.rc,)
    return None


def viol(kind_key, wb, opts, cut, tag, tr, ref=None, variant='asan'):
    kind, key = kind_key
    sig = '%s:%s' % (kind, key)
    return {'signature': sig,
            'summary': '%s [%s] options=%s cut=%s: %s' % (kind, tag, ' '.join(opts), cut, key),
            'replay': {'kind': 'c10', 'wasm_hex': (wb if cut is None else wb[:cut]).hex() if len(wb) < 200000 else None,
                       # large (stress) modules are kept compressed: a finding must stay replayable whatever its size
                       'wasm_zhex': zlib.compress(wb if cut is None else wb[:cut], 9).hex() if len(wb) >= 200000 else None,
                       'tag': tag, 'options': list(opts), 'cut': cut, 'signature': sig, 'variant': variant,
                       'ref_hex': ref.hex() if ref is not None and len(ref) < 200000 else None,
                       'stderr': tr.err.decode(errors='replace')[-2500:] if isinstance(tr.err, bytes) else ''}}


def minimise(wb, opts, cut, sig, is_prefix, ref=None, variant='asan'):
    """shrink the option list (and for full modules nothing else: the bytes are the reproducer)"""
    best = list(opts)
    i = 0
    flags = []
    # split into option units
    j = 0
    while j < len(best):
        if best[j] in ('-f', '-t', '-d', '-r'):
            flags.append(best[j:j + 2])
            j += 2
        else:
            flags.append([best[j]])
            j += 1
    keep = list(flags)
    for u in flags:
        trial = [x for x in keep if x is not u]
        o = [y for x in trial for y in x]
        if '-r' in o and ref is None:
            continue
        tr = run_w2c2(wb if cut is None else wb[:cut], o, variant=variant, ref=ref)
        bad = check_prefix(tr) if is_prefix else check_full(tr)
        if bad and sig in ('%s:%s' % bad, '%s:msan:%s' % bad, '%s:truncated-reference:%s' % bad):
            keep = trial
    return [y for x in keep for y in x]


def task(wid, seed, params):
    res = {'evaluations': 0, 'nontrivial': set(), 'classes': collections.Counter(), 'samples': [], 'violations': [],
           'infra': [], 'extra': collections.Counter()}
    seen = set()

    def report(bad, wb, opts, cut, tag, tr, is_prefix, ref=None, variant='asan'):
        sig = '%s:%s' % bad
        if sig in seen or len(res['violations']) >= 4:
            return
        seen.add(sig)
        try:
            opts = minimise(wb, opts, cut, sig, is_prefix, ref, variant)
        except Exception:
            pass
        res['violations'].append(viol(bad, wb, opts, cut, tag, tr, ref if '-r' in opts else None, variant))

    for ci in range(params['ncases']):
        ch = Chooser(seed * 1000003 + ci)
        try:
            m, wb, tag = f2.any_module(ch)
            if m is not None:
                wasm.validate(m)
        except wasm.Invalid:
            res['extra']['generator_invalid_module'] += 1
            continue
        nfuncs = len(m.funcs) if m is not None else 8
        opts = f2.option_set(ch, nfuncs)
        # -r REFERENCE (static/dynamic split): a reference sharing some bodies, the module itself, or an unrelated module
        ref = None
        if tag != 'stress' and ch.below(3) == 0:
            k = ch.below(4)
            if k < 2 and m is not None and m.funcs:
                from . import c09
                ref = c09.make_ref(ch, m)
                res['classes']['ref_partial'] += 1
            elif k == 2:
                ref = wb
                res['classes']['ref_identical'] += 1
            else:
                try:
                    m3, ref, _ = f2.any_module(Chooser(seed * 7919 + ci))
                except Exception:
                    ref = wb
                if len(ref) > 200000:
                    ref = wb
                res['classes']['ref_unrelated'] += 1
            opts = opts + ['-r', 'ref.wasm']
        tr = run_w2c2(wb, opts, ref=ref)
        res['evaluations'] += 1
        res['classes']['src_' + tag.split(':')[0]] += 1
        secs = sections_of(wb)
        nontriv = len(opts) >= 2 or tag in ('names', 'stress') or len([s for s in secs if s[0] not in SECTION_IDS_BASIC]) >= 3
        if nontriv:
            res['nontrivial'].add(f1.hx((wb, tuple(opts))))
        for o in opts:
            if o.startswith('-') and not o[1:].isdigit():
                res['classes']['opt' + o] += 1
        bad = check_full(tr)
        if bad:
            report(bad, wb, opts, None, tag, tr, False, ref)
            continue
        # the same run under MemorySanitizer: a read of uninitialised memory that decides a branch, an index or an output byte
        # is an undefined memory operation AddressSanitizer cannot see (absent sections, unnamed functions, unset option fields)
        if len(wb) < 400000:
            trm = run_w2c2(wb, opts, variant='msan', ref=ref)
            res['evaluations'] += 1
            res['classes']['msan_full'] += 1
            bad = check_full(trm)
            if bad:
                report((bad[0], 'msan:' + bad[1]), wb, opts, None, tag, trm, False, ref, 'msan')
                continue
        if ref is not None and len(ref) > 10 and ref is not wb:
            # robustness: the reference file itself truncated (the module stays valid)
            for k in sorted(set(1 + ch.below(len(ref) - 1) for _ in range(3))):
                tr2 = run_w2c2(wb, opts, ref=ref[:k])
                res['evaluations'] += 1
                res['classes']['truncated_reference'] += 1
                bad = check_prefix(tr2)
                if bad:
                    report((bad[0], 'truncated-reference:' + bad[1]), wb, opts, None, tag, tr2, True, ref[:k])
        if ci < 2:
            res['samples'].append({'source': tag, 'bytes': len(wb), 'options': opts, 'exit': tr.rc})
        # truncations
        if tag == 'stress' or len(wb) > 60000:
            continue
        exhaustive = len(wb) <= params['exhaustive_below'] and ci % params['exhaustive_every'] == 0
        if exhaustive:
            cuts = list(range(1, len(wb)))
            res['extra']['exhaustive_truncation_modules'] += 1
        else:
            cuts = sorted(set(1 + ch.below(len(wb) - 1) for _ in range(params['ncuts'])) | {8, 9, len(wb) - 1}) if len(wb) > 10 else []
        topts = opts if ch.below(2) else [o for o in opts if o in ('-g', '-p')]
        tref = ref if '-r' in topts else None
        for k in cuts:
            if k <= 0 or k >= len(wb):
                continue
            variant = 'msan' if (k + ci) % 3 == 0 else 'asan'
            tr = run_w2c2(wb[:k], topts, variant=variant, ref=tref)
            res['evaluations'] += 1
            res['classes']['truncation'] += 1
            res['classes']['truncation_' + variant] += 1
            inside = any(s < k < e for sid, s, e in secs)
            if inside:
                res['nontrivial'].add(f1.hx((wb[:k], tuple(topts))))
                res['classes']['cut_inside_section'] += 1
            if tr.rc == 0:
                res['classes']['prefix_accepted'] += 1
            bad = check_prefix(tr)
            if bad:
                report((bad[0], ('msan:' if variant == 'msan' else '') + bad[1]), wb, topts, k, tag, tr, True, tref, variant)
    res['extra'] = dict(res['extra'])
    return res


def replay(rp):
    if rp.get('wasm_hex') is None and rp.get('wasm_zhex') is None:
        return False
    wb = bytes.fromhex(rp['wasm_hex']) if rp.get('wasm_hex') is not None else zlib.decompress(bytes.fromhex(rp['wasm_zhex']))
    ref = bytes.fromhex(rp['ref_hex']) if rp.get('ref_hex') else None
    if '-r' in rp['options'] and ref is None:
        return False
    tr = run_w2c2(wb, rp['options'], variant=rp.get('variant', 'asan'), ref=ref)
    bad = check_prefix(tr) if rp.get('cut') is not None else check_full(tr)
    return bad is not None


def plan(tier, seed):
    if tier == 'quick':
        return [{'ncases': 40, 'ncuts': 24, 'exhaustive_below': 400, 'exhaustive_every': 6} for _ in range(32)]
    return [{'ncases': 120, 'ncuts': 64, 'exhaustive_below': 4096, 'exhaustive_every': 6} for _ in range(64)]


def run(tier, seed):
    return f1.standard_run(ID, LEVEL, RULE, ASSUME, plan(tier, seed), task, replay, tier, seed)
