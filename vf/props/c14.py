"""C14 — WASI path operations act on the resolved path; directory listings are complete."""
from hypothesis import strategies as st
from hypothesis.stateful import RuleBasedStateMachine, Bundle, rule, consumes, multiple, initialize

from .. import f1, wasifs, wasihyp, cexec
from ..wasi import Violation, AgentDied

ID = 'C14'
LEVEL = 'exploration'
RULE = ('Hypothesis RuleBasedStateMachine over the ASan+UBSan agent and a generated directory tree (files, directories, '
        'symlinks incl. dangling and directory links; FIFOs and unix sockets put there by the host): path_create_directory / remove_directory / unlink_file / rename / symlink / '
        'readlink / filestat_get (both layouts), relative to the pre-open and to directory descriptors obtained by '
        'path_open(O_DIRECTORY), with relative and absolute guest paths (inside the sandbox), guest path bytes followed by '
        'non-NUL junk, lengths 0, 1, ..., around the host limit and up to 2*PATH_MAX (built from ./ repetitions and long names), '
        'names up to 255 bytes; fd_readdir with buffer sizes 25..4096 through a standard client (consume complete entries, resume '
        'from the last complete d_next), resumption from any previously returned cookie, restart at cookie 0. Oracle: the '
        'corresponding POSIX call on a byte-identical mirror tree (errno via the witx table, final trees equal); an empty path is '
        'an error; a resolved length >= PATH_MAX is rejected without any effect and without a sanitizer report (PATH_MAX-2..-1: '
        'either); listing = os.listdir + {., ..} exactly once each with inode/type/name length of lstat; resume yields exactly the '
        'following entries; cookie 0 yields the full listing again. Non-trivial = operation through a non-pre-open directory '
        'descriptor, a path within the limit zone or beyond it, a listing needing >= 3 calls, a resume or a restart; distinct by '
        'history. Bytes delivered of a directory entry that did not fit are the beginning of the record the next call delivers. Concurrent job: 2-8 threads issue mkdir / stat / rename / symlink / readlink / unlink / rmdir rounds below their own pre-opened directories at the same time; return codes, link contents and final trees equal those of running the same scripts one after the other; every case is non-trivial.')
ASSUME = ['tmpfs directory offsets are stable while the directory is unchanged (telldir/seekdir cookies)',
          'real and mirror roots have the same path length']

NONTRIVIAL = ('non_preopen_dirfd', 'path_near_limit', 'listing_needs>=3_calls', 'resume', 'restart')
NAMES = ['a', 'b.txt', 'empty', 'dir1', 'dir1/x', 'dir2', 'dir2/sub', 'dir2/sub/y', 'emptydir', 'lnk', 'dlnk', 'dangling', 'new1', 'new2',
         'dir1/new3', 'nd', 'nd/in', 'dlnk/x', 'a/b', 'missing/z', '.', '..', 'dir1/..', './a', 'dir2//sub', 'N' * 255, 'M' * 256,
         'dir1/' + 'k' * 200, 'x y', 'éè', 'loop', 'fifo0', 'sock1', 'dir1/fifo1', 'a/', 'dir1/', 'nd/', 'emptydir//', 'lnk/', 'dlnk/', 'new1/']


def pad_path(b, total, absolute):
    """a path of (about) `total` bytes that resolves like b: './' repetitions, an odd remainder becomes a doubled slash"""
    if total == 0:
        return b''
    pad = total - len(b)
    if pad <= 0:
        return b
    k, odd = divmod(pad, 2)
    if absolute:
        return b'/' + b'./' * k + (b'/' if odd else b'') + b[1:]
    return b'./' * k + (b'/' if odd and k else b'') + b


LENGTHS = st.one_of(st.integers(0, 40), st.sampled_from([255, 256, 1000, 4000, 4060, 4070, 4080, 4090, 4093, 4094, 4095, 4096, 4097,
                                                        4100, 5000, 8192]), st.integers(4040, 4100))


class C14Machine(RuleBasedStateMachine):
    dirs = Bundle('dirs')

    def __init__(self):
        super().__init__()
        self.ex = None
        self.dirfds = []

    @initialize(mode=st.sampled_from([0, 0, 1, 2, 3, 5, 7]), variant=st.just('default'))
    def start(self, mode, variant):
        self.ex = wasifs.FsExecutor(npreopen=1, variant=variant)
        self.dirfds = [self.ex.preopens[0]]
        self.ex.set_edge(mode)

    def pick_dir(self, i):
        live = [fd for fd in self.dirfds if not self.ex.fds[fd]['closed']]
        return live[i % len(live)]

    @rule(name=st.sampled_from(['dir1', 'dir2', 'dir2/sub', 'emptydir', '.', 'dlnk', 'nd']), di=st.integers(0, 5))
    def open_dir(self, name, di):
        fd = self.ex.open_dir(self.pick_dir(di), name)
        if fd is not None and self.ex.fds[fd]['kind'] == 'dir':
            self.dirfds.append(fd)

    @rule(op=st.sampled_from(['create_directory', 'remove_directory', 'unlink_file', 'filestat_get', 'readlink']),
          name=st.sampled_from(NAMES), di=st.integers(0, 5), absolute=st.sampled_from([False, False, False, True]),
          bufsize=st.sampled_from([0, 1, 3, 8, 64, 300]), unstable=st.booleans())
    def op1(self, op, name, di, absolute, bufsize, unstable):
        dfd = self.pick_dir(di)
        if absolute:
            rel = self.ex.fds[dfd]['rel']
            name = '@REAL@/' + (rel + '/' if rel else '') + name
        self.ex.path_op(op, dfd, name, bufsize=bufsize, unstable=unstable)

    @rule(name=st.sampled_from(['sd1', 'sd2', 'emptydir']), how=st.sampled_from(['remove_directory', 'rename', 'rename+recreate']),
          ops=st.lists(st.tuples(st.sampled_from(['filestat_get', 'create_directory', 'unlink_file', 'remove_directory', 'readlink']),
                                 st.sampled_from(['.', './.', 'x', 'a', '..', '../a'])), min_size=1, max_size=4),
          unstable=st.booleans())
    def stale_directory(self, name, how, ops, unstable):
        # a directory descriptor whose path stopped naming the directory it was opened on (removed, renamed away, or replaced by a
        # new directory of the same name): every path operation through it acts on what the descriptor's PATH names now
        ex = self.ex
        root = ex.preopens[0]
        ex.path_op('create_directory', root, name)
        fd = ex.open_dir(root, name)
        if fd is None or ex.fds[fd]['kind'] != 'dir':
            return
        self.dirfds.append(fd)
        ex.readdir(fd, 64, None, False)
        if how == 'remove_directory':
            ex.path_op('remove_directory', root, name)
        else:
            ex.path_op('rename', root, name, name + '.gone', root)
            if how == 'rename+recreate':
                ex.path_op('create_directory', root, name)
        ex.flags.add('stale_directory_descriptor')
        for op, nm in ops:
            ex.path_op(op, fd, nm, unstable=unstable)

    @rule(op=st.sampled_from(['unlink_file', 'remove_directory', 'create_directory']),
          name=st.sampled_from(['/proc/version', '/proc/sys/kernel/ostype', '/proc/sys', '/proc/self/status', '/proc/no-such-entry/x']),
          di=st.integers(0, 5))
    def host_refusals(self, op, name, di):
        # absolute guest paths into procfs: the host refuses these operations with error codes a freshly generated tree never
        # produces for root (EPERM, EACCES, EROFS-like answers); both sides make the same call on the same (unchangeable) object
        self.ex.flags.add('host_refusal_errno')
        self.ex.path_op(op, self.pick_dir(di), name)

    @rule(op=st.sampled_from(['rename', 'symlink']), name=st.sampled_from(NAMES), name2=st.sampled_from(NAMES),
          di=st.integers(0, 5), di2=st.integers(0, 5))
    def op2(self, op, name, name2, di, di2):
        if op == 'symlink' and name2 == 'loop':
            name = 'loop'          # self-referencing link: later lookups through it give ELOOP
        self.ex.path_op(op, self.pick_dir(di), name, name2, self.pick_dir(di2))

    @rule(op=st.sampled_from(['create_directory', 'remove_directory', 'unlink_file', 'filestat_get', 'readlink', 'rename', 'symlink']),
          base=st.sampled_from(['a', 'dir1/x', 'new1', 'nd', 'emptydir', 'lnk']), total=LENGTHS, di=st.integers(0, 5),
          absolute=st.booleans())
    def long_path(self, op, base, total, di, absolute):
        dfd = self.pick_dir(di)
        rel = self.ex.fds[dfd]['rel']
        b = (self.ex.real + '/' + (rel + '/' if rel else '') + base).encode() if absolute else base.encode()
        nb = pad_path(b, total, absolute)
        if absolute:
            nb = nb.replace(self.ex.real.encode(), b'@REAL@', 1)
        if op in ('rename', 'symlink'):
            self.ex.path_op(op, dfd, 'a' if op == 'rename' else 'tgt', nb, dfd)
        else:
            self.ex.path_op(op, dfd, nb)

    @rule(di=st.integers(0, 5), bufsize=st.one_of(st.integers(25, 120), st.sampled_from([25, 26, 48, 64, 100, 256, 280, 512, 4096])),
          resume=st.one_of(st.none(), st.integers(0, 30)), restart=st.booleans())
    def readdir(self, di, bufsize, resume, restart):
        self.ex.readdir(self.pick_dir(di), bufsize, resume, restart)

    @rule(kinds=st.lists(st.sampled_from(['fifo', 'fifo', 'sock']), min_size=1, max_size=4), di=st.integers(0, 5),
          bufsize=st.sampled_from([64, 100, 512, 4096]))
    def host_special(self, kinds, di, bufsize):
        # entries of file types the guest cannot create (FIFO, socket: WASI type 'unknown'), several of them in one directory, then a
        # listing: every entry exactly once, with the inode / type / name length of lstat
        dfd = self.pick_dir(di)
        self.ex.host_special(dfd, kinds)
        self.ex.readdir(dfd, bufsize, None, False)

    @rule(name=st.sampled_from(['dir1', 'dir2/sub', '.', 'emptydir', 'dir1/..']), slack=st.one_of(st.integers(3, 12), st.integers(3, 300)),
          di=st.integers(0, 5), kinds=st.lists(st.sampled_from(['fifo', 'sock']), min_size=0, max_size=3),
          bufsize=st.sampled_from([64, 300, 4096]))
    def long_dir_descriptor(self, name, slack, di, kinds, bufsize):
        # a directory descriptor whose own path is only `slack` bytes short of the host limit (opened through a './'-padded guest
        # path): whatever the host later appends to it (entry names while listing, guest paths) has to fit or be refused
        dfd = self.pick_dir(di)
        total = self.ex.PATH_MAX - 1 - slack - len(self.ex.fds[dfd]['wpath']) - 1
        if total < len(name) + 2:
            return
        nb = pad_path(name.encode(), total, False)
        fd = self.ex.path_open(dfd, nb.decode(), wasifs.O_DIRECTORY, True, False, False)
        if fd is None or self.ex.fds[fd]['kind'] != 'dir':
            return
        self.dirfds.append(fd)
        self.ex.flags.add('path_near_limit')
        if kinds:
            self.ex.host_special(fd, kinds)
        self.ex.readdir(fd, bufsize, None, False)

    @rule(n=st.integers(1, 12), di=st.integers(0, 5))
    def populate(self, n, di):
        # make listings long enough to need several calls
        dfd = self.pick_dir(di)
        for i in range(n):
            self.ex.path_op('create_directory', dfd, 'p%02d_%s' % (i, 'z' * (i * 7 % 40)))

    def teardown(self):
        if self.ex is None:
            return
        try:
            self.ex.final_check()
        finally:
            wasihyp.note_history(self.ex, NONTRIVIAL)
            self.ex.close()


FZ_CMD = ['clang', '-g', '-O1', '-w', '-fsanitize=fuzzer,address,undefined', '-fno-sanitize-recover=undefined']


def fz_build():
    import os
    from ..wasi import WASI_DEFS
    return cexec.build_unit('fz_resolvepath.c', 'fz_resolvepath', FZ_CMD + WASI_DEFS,
                            extra_args=[os.path.join(cexec.REPO, 'wasi', 'wasi.c'), os.path.join(cexec.REPO, 'futex', 'futex.c'),
                                        os.path.join(cexec.REPO, 'futex', 'list.c'), os.path.join(cexec.REPO, 'futex', 'map.c')],
                            libs=['-lpthread', '-lm'])


def fz_task(wid, seed, params):
    """libFuzzer campaign on resolvePath with the join oracle inside the target (fresh corpus directory, fixed run count)"""
    import collections, os, re, subprocess
    res = {'evaluations': 0, 'nontrivial': set(), 'classes': collections.Counter(), 'samples': [], 'violations': [],
           'infra': [], 'extra': {}}
    exe = fz_build()
    d = cexec.new_dir('fz')
    corpus = os.path.join(d, 'corpus')
    os.makedirs(corpus)
    for i, (dl, pl) in enumerate(((10, 0), (10, 5), (4090, 3), (4000, 96), (100, 3995), (1, 4094), (1, 4095), (2, 8192))):
        open(os.path.join(corpus, 'seed%d' % i), 'wb').write(bytes([dl & 255, dl >> 8, pl & 255, pl >> 8]) + b'/' + b'd' * 20)
    env = dict(os.environ)
    env.update(cexec.ASAN_ENV)
    r = subprocess.run([exe, '-seed=%d' % (seed % 1000000 + 1), '-runs=%d' % params['runs'], '-max_len=12400', '-artifact_prefix=' + d + '/',
                        '-print_final_stats=1', corpus], stdout=subprocess.PIPE, stderr=subprocess.PIPE, env=env, cwd=d, timeout=3000)
    err = r.stderr.decode(errors='replace')
    mt = None
    for mt in re.finditer(r'FZ-STATS cases=(\d+) accepted=(\d+) rejected=(\d+) limit_zone=(\d+) absolute=(\d+) longer_than_limit=(\d+)', err):
        pass
    if mt:
        res['evaluations'] = int(mt.group(1))
        for k, g in (('resolvepath_accepted', 2), ('resolvepath_rejected', 3), ('resolvepath_limit_zone', 4), ('resolvepath_too_long', 6)):
            res['classes'][k] = int(mt.group(g))
        for i in range(min(int(mt.group(4)) + int(mt.group(6)), 5000)):
            res['nontrivial'].add('fz%d-%d' % (seed, i))
    arts = [f for f in os.listdir(d) if f.startswith('crash-') or f.startswith('leak-')]
    if r.returncode != 0 and arts:
        data = open(os.path.join(d, arts[0]), 'rb').read()
        why = ([l for l in err.splitlines() if 'ORACLE-FAILURE' in l or 'ERROR: AddressSanitizer' in l or 'runtime error' in l] or ['crash'])[0]
        res['violations'].append({'signature': 'fz_resolvepath:' + f1.normalize_diag(why), 'summary': 'resolvePath fuzz target: ' + why,
                                  'replay': {'kind': 'fz', 'input_hex': data.hex(), 'why': why}})
    elif r.returncode != 0:
        res['infra'].append('fz_resolvepath exited with %r without an artifact: %s' % (r.returncode, err[-400:]))
    res['samples'].append('libFuzzer resolvePath: ' + (mt.group(0) if mt else err[-200:]))
    cexec.rm(d)
    return res


# ------------------------------------------------------------------------------------------------ concurrent path calls
# A host with wasi-threads issues WASI calls from several threads.  Threads that work below different directory descriptors, with
# path strings and result buffers in different parts of guest memory, do not depend on each other: whatever the interleaving, each
# call resolves ITS path against ITS descriptor and performs ITS host operation, so return codes, link contents read back and the
# final trees equal those of running the same scripts one thread after the other (sequential behaviour is what the state machine
# above decides against the POSIX mirror).  No path_open / fd_close in the scripts: the descriptor table itself is not claimed to be
# safe against concurrent growth by any listed property.
def case_par(ch):
    K = 2 + ch.below(7)
    rounds = 15 + ch.below(50)
    threads = []
    for k in range(K):
        plen = ch.pick((1, 2, 5, 9, 14, 30))           # name lengths differ between threads
        ops = []
        for i in range(rounds):
            sel = ch.below(64)
            ops.append([sel & 1, (sel >> 1) & 1, (sel >> 2) & 1, (sel >> 3) & 1, (sel >> 4) & 1, (sel >> 5) & 1])
        threads.append({'plen': plen, 'unstable': bool(ch.below(4) == 0), 'ops': ops})
    return {'kind': 'par', 'threads': threads}


def _par_scripts(case, fds, ag):
    """lays the names of every thread into its own guest memory region and returns the call scripts"""
    scripts = []
    for k, th in enumerate(case['threads']):
        base = 0x20000 + k * 0x10000
        cur = [base]
        fd, u = fds[k], th['unstable']

        def name(txt):
            b = txt.encode()
            a = cur[0]
            ag.poke(a, b + b'#')          # not NUL-terminated in guest memory
            cur[0] += len(b) + 1
            return a, len(b)
        sc = []
        out = base + 0x8000                # result area: 64 slots of 128 bytes
        for i, o in enumerate(th['ops']):
            pad = 'x' * th['plen']
            d = name('d%s%d' % (pad, i))
            e = name('e%s%d' % (pad, i))
            l = name('l%s%d' % (pad, i))
            t = name('target-of-thread-%d-round-%d-%s' % (k, i, pad))
            slot = out + (i % 64) * 128
            sc.append(('path_create_directory', u, (fd, d[0], d[1])))
            if o[0]:
                sc.append(('path_filestat_get', u, (fd, 0, d[0], d[1], slot)))
            sc.append(('path_rename', u, (fd, d[0], d[1], fd, e[0], e[1])))
            sc.append(('path_symlink', u, (t[0], t[1], fd, l[0], l[1])))
            sc.append(('path_readlink', u, (fd, l[0], l[1], slot + 64, 60, slot + 124)))
            if o[1]:
                sc.append(('path_filestat_get', u, (fd, 0, d[0], d[1], slot)))       # gone: NOENT
            if o[2]:
                sc.append(('path_create_directory', u, (fd, e[0], e[1])))            # EXIST
            if o[3]:
                sc.append(('path_unlink_file', u, (fd, l[0], l[1])))
            if o[4]:
                sc.append(('path_remove_directory', u, (fd, e[0], e[1])))
            if o[5]:
                sc.append(('path_unlink_file', u, (fd, e[0], e[1])))                 # directory: EISDIR / PERM, or NOENT
        scripts.append(sc)
    return scripts


def _tree(root):
    import os
    out = []
    for dp, dns, fns in os.walk(root):
        for n in sorted(dns + fns):
            p = os.path.join(dp, n)
            out.append((os.path.relpath(p, root), os.readlink(p) if os.path.islink(p) else 'dir' if os.path.isdir(p) else 'file'))
    return sorted(out)


def run_par(case):
    """returns None or (signature, message)"""
    import os
    from .. import wasi as W
    d = cexec.new_dir('pp')
    obs = {}
    try:
        for mode in ('seq', 'par'):
            root = os.path.join(d, mode)
            ag = W.Agent(d, pages=64, cwd=d)
            try:
                ag.init([b'p'], [])
                fds = []
                for k in range(len(case['threads'])):
                    os.makedirs(os.path.join(root, 't%d' % k))
                    ok, fd = ag.preopen(os.path.join(mode, 't%d' % k))
                    fds.append(fd)
                ag.fill(0x20000, 0x10000 * len(case['threads']), 0)
                scripts = _par_scripts(case, fds, ag)
                if mode == 'seq':
                    rets = [[ag._call(fn, u, *a) for fn, u, a in sc] for sc in scripts]
                else:
                    rets = ag.par(scripts)
                mem = [ag.peek(0x20000 + k * 0x10000 + 0x8000 + 64, 64) for k in range(len(scripts))]
                links = [[ag.peek(0x20000 + k * 0x10000 + 0x8000 + s * 128 + 64, 64) for s in range(64)] for k in range(len(scripts))]
                obs[mode] = (rets, links, [_tree(os.path.join(root, 't%d' % k)) for k in range(len(scripts))], scripts)
            finally:
                ag.close()
        (r0, l0, t0, sc), (r1, l1, t1, _) = obs['seq'], obs['par']
        for k in range(len(sc)):
            for i, (a, b) in enumerate(zip(r0[k], r1[k])):
                if a != b:
                    return 'par-errno', ('thread %d of %d, call %d %s%r returned %s when the threads ran concurrently and %s when the same scripts '
                                         'ran one after the other (disjoint directories and guest memory)' % (k, len(sc), i, sc[k][i][0], tuple(sc[k][i][2]), W.ename(b), W.ename(a)))
            if len(r0[k]) != len(r1[k]):
                return 'par-protocol', 'thread %d: %d results instead of %d' % (k, len(r1[k]), len(r0[k]))
            if l0[k] != l1[k]:
                return 'par-readlink', 'thread %d of %d: link contents / lengths read back by path_readlink differ between the concurrent and the sequential run' % (k, len(sc))
            if t0[k] != t1[k]:
                return 'par-tree', ('directory of thread %d of %d after the concurrent run differs from the sequential run: only-concurrent %r only-sequential %r'
                                    % (k, len(sc), sorted(set(t1[k]) - set(t0[k]))[:4], sorted(set(t0[k]) - set(t1[k]))[:4]))
        return None
    finally:
        cexec.rm(d)


def par_task(wid, seed, params):
    import collections
    from ..choice import Chooser
    from ..wasi import AgentDied
    res = {'evaluations': 0, 'nontrivial': set(), 'classes': collections.Counter(), 'samples': [], 'violations': [],
           'infra': [], 'extra': {}}
    for ci in range(params['ncases']):
        case = case_par(Chooser(seed * 1000003 + ci))
        try:
            bad = run_par(case)
        except AgentDied as e:
            bad = ('par-agent-died:' + f1.normalize_diag(([l for l in e.stderr.splitlines() if 'ERROR' in l or 'runtime error' in l] or [''])[0]),
                   '%s\n%s' % (e, cexec.san_head(e.stderr, 1200)))
        res['evaluations'] += 1
        ncalls = sum(len(t['ops']) for t in case['threads'])
        res['classes']['concurrent_path_calls_threads=%d' % len(case['threads'])] += 1
        res['nontrivial'].add(f1.hx(repr(case)))
        if len(res['samples']) < 1:
            res['samples'].append('concurrent path calls: %d threads x %d rounds of mkdir / stat / rename / symlink / readlink / unlink / rmdir below their own pre-opened directories'
                                  % (len(case['threads']), ncalls // len(case['threads'])))
        if bad:
            res['violations'].append({'signature': bad[0], 'summary': bad[1][:900], 'replay': {'kind': 'wasi-par', 'case': case, 'message': bad[1][:3000]}})
            break
    return res


def task(wid, seed, params):
    if params.get('fz'):
        return fz_task(wid, seed, params)
    if params.get('par'):
        return par_task(wid, seed, params)
    return wasihyp.run_machine(C14Machine, seed, params['examples'], params['steps'])


def replay(rp):
    if rp.get('kind') == 'wasi-par':
        # an interleaving-dependent failure: the case is repeated until it shows (at most 20 times)
        for _ in range(20):
            try:
                if run_par(rp['case']) is not None:
                    return True
            except AgentDied:
                return True
        return False
    if rp.get('kind') == 'fz':
        import os, subprocess
        exe = fz_build()
        d = cexec.new_dir('fz')
        try:
            p = os.path.join(d, 'input')
            open(p, 'wb').write(bytes.fromhex(rp['input_hex']))
            env = dict(os.environ)
            env.update(cexec.ASAN_ENV)
            r = subprocess.run([exe, p], stdout=subprocess.PIPE, stderr=subprocess.PIPE, env=env, cwd=d, timeout=300)
            return r.returncode != 0
        finally:
            cexec.rm(d)
    return wasifs.replay_history(rp['history'], rp.get('npreopen', 1)) is not None


def plan(tier, seed):
    if tier == 'quick':
        return [{'fz': True, 'runs': 300000}] + [{'examples': 1000, 'steps': 25} for _ in range(15)] + [{'par': True, 'ncases': 40} for _ in range(8)]
    return [{'fz': True, 'runs': 20000000}] * 4 + [{'examples': 6000, 'steps': 50} for _ in range(28)] + [{'par': True, 'ncases': 200} for _ in range(16)]


def run(tier, seed):
    return f1.standard_run(ID, LEVEL, RULE, ASSUME, plan(tier, seed), task, replay, tier, seed)
