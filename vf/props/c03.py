"""C03 — structured control flow, operand stack and locals behave as specified."""
import time

from .. import f1, gen, runner, e2e
from ..wasm import I32, I64, F32, F64

ID = 'C03'
LEVEL = 'exploration'
RULE = ('generated modules in ctrl mode: nested block/loop/if/else with and without result types, br/br_if/br_table to any '
        'enclosing label of matching type with 0-2 extra operands below the carried value, return at depth, unreachable, '
        'valid stack-polymorphic dead code after unconditional branches (operators popping from the polymorphic stack, nested '
        'blocks with their own branches), counter-bounded loops with early exits, select/drop/nop, 0-12 extra locals of mixed '
        'types read before written, local.tee; recursive functions (self / mutual, the call last in the body, in front of return, at '
        'the end of an arm or block, or not in tail position) whose declared locals are read at entry and non-zero at the call: '
        'every activation starts with zeroed locals; groups of functions with byte-identical bodies but different signatures '
        '(type-agnostic bodies: local.get/set/tee, select, drop, return); env.trace(i32) host calls and global.set mark the executed path. Oracle = '
        'return value or trap AND the ordered host-call trace of the reference interpreter. Non-trivial = the executed path '
        'contains a value-carrying branch across >=1 enclosing label or with extra operands below the value, a br_table whose '
        'index is out of range (default), a not-taken if without else, a loop back-edge, a local read before any write, a '
        'return from nesting depth >= 2, or the function contains dead code (with nested blocks); distinct by (body, args). Switch-like functions '
        '(maker c03_switch): K nested result-typed blocks, extra operands below the carried value, br_table with 0 ... several thousand entries '
        'spread over the labels, called with indices at every boundary of the table (0, 255/256/257, N-1, N, N+1, 2^31, 2^32-2): every call is non-trivial.')
ASSUME = ['reference interpreter calibrated against the spec-suite expectations in /repo/tests/gen (vf.spec)',
          'every generated module is accepted by the independent validator in vf/wasm.py before w2c2 sees it']

FEAT = gen.Features(ops=gen.ALL_OPS, types=(I32, I64, F32, F64), control=True, dead_code=True, trace=True, stmts=True,
                    globals_=True, max_depth=5, avoid_traps=False, calls=True)

INTERESTING = ('br_value_across_labels', 'br_value_extra_operands', 'br_extra_operands', 'br_table_default_oob',
               'if_noelse_not_taken', 'loop_backedge', 'local_read_before_write', 'return_depth2', 'return_depth3')


def nontrivial(m, script, model, meta):
    out = []
    ci = 0
    fex = [(n, i) for n, kd, i in m.exports if kd == 'func']
    nimp = m.n_imported_funcs()
    stats = meta['info']['stats']
    for op, lines in model.steps:
        if op[0] != 'call':
            continue
        ev = model.call_ev[ci] if ci < len(model.call_ev) else frozenset()
        ci += 1
        fidx = fex[op[2]][1]
        classes = set(e for e in ev if e in INTERESTING)
        st = stats.get(fidx, {})
        for k in ('dead_code', 'dead_nested_block', 'extra_operands', 'br_table', 'br_outer'):
            if st.get(k):
                classes.add('static_' + k)
        if lines and lines[-1].startswith('T'):
            classes.add('trap')
        if any(l.startswith('H') for l in lines):
            classes.add('host_trace')
        if classes - {'host_trace'}:
            out.append((f1.hx((repr(m.funcs[fidx - nimp].body), tuple(op[3]))), classes))
    return out


@f1.maker('c03_ctrl')
def make_ctrl(ch, params):
    nf = 4 + ch.below(params.get('nfuncs', 20))
    m, info = gen.general_module(ch, FEAT, nfuncs=nf, with_trace=True, nglobals=ch.below(5), recursion='locals')
    script = e2e.default_setup(m, 1) + gen.call_script(ch, m, params.get('nargs', 10))
    return m, script, {'nontrivial_fn': nontrivial, 'ninst': 1, 'info': info}


def nontrivial_switch(m, script, model, meta):
    out = []
    fex = [(n, i) for n, kd, i in m.exports if kd == 'func']
    for op, lines in model.steps:
        if op[0] != 'call':
            continue
        n = meta['info']['entries'][op[2]]
        idx = op[3][0]
        classes = {'br_table_value_extra_operands'}
        if n > 256:
            classes.add('br_table_entries>256')
        if idx >= n:
            classes.add('br_table_default_oob')
        elif idx >= 256:
            classes.add('br_table_index>=256')
        out.append((f1.hx((n, fex[op[2]][0], tuple(op[3]))), classes))
    return out


@f1.maker('c03_switch')
def make_switch(ch, params):
    """switch-like functions: K nested result-typed blocks, in the innermost one 0-3 extra operands of mixed types, the carried value
    and a br_table of N entries (N from 0 to several thousand: a dense C switch compiles to such tables) whose entries are spread
    over the K labels; behind the end of label j a distinct constant is added, so the result tells which label was reached and
    whether the carried value - not an operand below it - arrived.  Called with indices at every boundary of the table."""
    from ..wasm import Module, Func
    from .. import pools
    m = Module()
    entries = []
    nf = 2 + ch.below(4)
    for fi in range(nf):
        t = ch.pick((I32, I64))
        K = 1 + ch.below(6)
        if params.get('deep') and fi == 0:
            # the shape a compiler gives a dense C switch: hundreds of nested blocks (no loops / ifs: every label of a block is a
            # plain C label), one table entry per block
            K = ch.pick((100, 200, 250, 254, 255, 256, 257, 300, 400))
        N = ch.pick((0, 1, 2, 7, 255, 256, 257, 258, 300, 511, 512, 513, 1000, 2049, 256 * (1 + ch.below(5)) + ch.below(3), ch.below(40)))
        style = ch.below(3)
        if K >= 100:
            N, style = K + ch.below(3), 3
        if style == 3:
            tl = [i % K for i in range(N)]
        elif style == 0:
            tl = [ch.below(K) for _ in range(N)]
        elif style == 1:
            tl = [(i * 7 + i // 256) % K for i in range(N)]          # differs from chunk to chunk
        else:
            tl = [(K - 1) if i >= 256 else 0 for i in range(N)]
        dflt = ch.below(K)
        inner = []
        for _ in range(ch.below(4)):
            et = ch.pick((I32, I64, F32, F64))
            inner.append(('%s.const' % et, pools.draw_const(ch, et) if et in (I32, I64) else (0x40490fdb if et == F32 else 0x400921fb54442d18)))
        inner += [('local.get', 1), ('local.get', 0), ('br_table', tl, dflt)]
        body = inner
        for j in range(K):
            body = [('block', t, body), ('%s.const' % t, (1000003 ** (j + 1)) % (1 << 31)), ('%s.add' % t,)]
        if ch.below(2) and K < 100:
            # the same switch inside a loop iteration / an if arm (label indices shift by one, the table is emitted at another depth)
            body = [('local.get', 0), ('i32.const', -1), ('i32.ne',), ('if', t, body, [('local.get', 1)])]
        m.funcs.append(Func(m.type_index((I32, t), (t,)), [], body))
        m.exports.append((b'sw%d' % fi, 'func', fi))
        entries.append(N)
    script = e2e.default_setup(m, 1)
    for fi in range(nf):
        N = entries[fi]
        t = m.func_type(fi)[0][1]
        idxs = {0, 1, 2, 254, 255, 256, 257, 258, 511, 512, 513, max(N - 1, 0), N, N + 1, 0x7fffffff, 0x80000000, 0xfffffffe}
        for _ in range(6):
            idxs.add(ch.below(N + 1))
            if N > 256:
                idxs.add(256 + ch.below(N - 255))
        for ix in sorted(idxs):
            script.append(('call', 0, fi, [ix, pools.draw_const(ch, t)]))
    return m, script, {'nontrivial_fn': nontrivial_switch, 'ninst': 1, 'info': {'entries': entries, 'stats': {}}}


def plan(tier, seed):
    if tier == 'quick':
        ccs = ['gcc-O0', 'clang-O2', 'gcc-O2', 'clang-O0']
        return [{'maker': 'c03_ctrl', 'ncases': 40, 'ccs': ccs, 'nfuncs': 20, 'nargs': 10, 'shrink_budget': 25} for _ in range(32)] + \
            [{'maker': 'c03_switch', 'ncases': 12, 'ccs': ccs, 'shrink_budget': 15, 'reduce_budget': 5} for _ in range(8)]
    ccs = ['gcc-O0', 'clang-O2', 'gcc-O2', 'clang-O0', 'gcc-O3', 'clang-O3', 'gcc-O0-gnu89', 'clang-O2-gnu89']
    return [{'maker': 'c03_ctrl', 'ncases': 400, 'ccs': ccs, 'nfuncs': 30, 'nargs': 16, 'shrink_budget': 40} for _ in range(64)] + \
        [{'maker': 'c03_switch', 'ncases': 150, 'ccs': ccs, 'shrink_budget': 20, 'reduce_budget': 5} for _ in range(16)]


def replay(rp):
    return f1.case_replay(rp)


def run(tier, seed):
    return f1.standard_run(ID, LEVEL, RULE, ASSUME, plan(tier, seed), f1.case_task, replay, tier, seed)
