"""C03 — structured control flow, operand stack and locals behave as specified."""
import time

from .. import f1, gen, runner, e2e
from ..wasm import I32, I64, F32, F64

ID = 'C03'
LEVEL = 'exploration'
RULE = ('generated modules in ctrl mode: nested block/loop/if/else with and without result types, br/br_if/br_table to any '
        'enclosing label of matching type with 0-2 extra operands below the carried value, return at depth, unreachable, '
        'valid stack-polymorphic dead code after unconditional branches (operators popping from the polymorphic stack, nested '
        'blocks with their own branches), counter-bounded loops with early exits, select/drop/nop, 0-12 extra locals of mixed '
        'types read before written, local.tee; recursive functions (self / mutual, the call last in the body, in front of return, at '
        'the end of an arm or block, or not in tail position) whose declared locals are read at entry and non-zero at the call: '
        'every activation starts with zeroed locals; groups of functions with byte-identical bodies but different signatures '
        '(type-agnostic bodies: local.get/set/tee, select, drop, return); env.trace(i32) host calls and global.set mark the executed path. Oracle = '
        'return value or trap AND the ordered host-call trace of the reference interpreter. Non-trivial = the executed path '
        'contains a value-carrying branch across >=1 enclosing label or with extra operands below the value, a br_table whose '
        'index is out of range (default), a not-taken if without else, a loop back-edge, a local read before any write, a '
        'return from nesting depth >= 2, or the function contains dead code (with nested blocks); distinct by (body, args).')
ASSUME = ['reference interpreter calibrated against the spec-suite expectations in /repo/tests/gen (vf.spec)',
          'every generated module is accepted by the independent validator in vf/wasm.py before w2c2 sees it']

FEAT = gen.Features(ops=gen.ALL_OPS, types=(I32, I64, F32, F64), control=True, dead_code=True, trace=True, stmts=True,
                    globals_=True, max_depth=5, avoid_traps=False, calls=True)

INTERESTING = ('br_value_across_labels', 'br_value_extra_operands', 'br_extra_operands', 'br_table_default_oob',
               'if_noelse_not_taken', 'loop_backedge', 'local_read_before_write', 'return_depth2', 'return_depth3')


def nontrivial(m, script, model, meta):
    out = []
    ci = 0
    fex = [(n, i) for n, kd, i in m.exports if kd == 'func']
    nimp = m.n_imported_funcs()
    stats = meta['info']['stats']
    for op, lines in model.steps:
        if op[0] != 'call':
            continue
        ev = model.call_ev[ci] if ci < len(model.call_ev) else frozenset()
        ci += 1
        fidx = fex[op[2]][1]
        classes = set(e for e in ev if e in INTERESTING)
        st = stats.get(fidx, {})
        for k in ('dead_code', 'dead_nested_block', 'extra_operands', 'br_table', 'br_outer'):
            if st.get(k):
                classes.add('static_' + k)
        if lines and lines[-1].startswith('T'):
            classes.add('trap')
        if any(l.startswith('H') for l in lines):
            classes.add('host_trace')
        if classes - {'host_trace'}:
            out.append((f1.hx((repr(m.funcs[fidx - nimp].body), tuple(op[3]))), classes))
    return out


@f1.maker('c03_ctrl')
def make_ctrl(ch, params):
    nf = 4 + ch.below(params.get('nfuncs', 20))
    m, info = gen.general_module(ch, FEAT, nfuncs=nf, with_trace=True, nglobals=ch.below(5), recursion='locals')
    script = e2e.default_setup(m, 1) + gen.call_script(ch, m, params.get('nargs', 10))
    return m, script, {'nontrivial_fn': nontrivial, 'ninst': 1, 'info': info}


def plan(tier, seed):
    if tier == 'quick':
        ccs = ['gcc-O0', 'clang-O2', 'gcc-O2', 'clang-O0']
        return [{'maker': 'c03_ctrl', 'ncases': 40, 'ccs': ccs, 'nfuncs': 20, 'nargs': 10, 'shrink_budget': 25} for _ in range(32)]
    ccs = ['gcc-O0', 'clang-O2', 'gcc-O2', 'clang-O0', 'gcc-O3', 'clang-O3', 'gcc-O0-gnu89', 'clang-O2-gnu89']
    return [{'maker': 'c03_ctrl', 'ncases': 400, 'ccs': ccs, 'nfuncs': 30, 'nargs': 16, 'shrink_budget': 40} for _ in range(64)]


def replay(rp):
    return f1.case_replay(rp)


def run(tier, seed):
    return f1.standard_run(ID, LEVEL, RULE, ASSUME, plan(tier, seed), f1.case_task, replay, tier, seed)
