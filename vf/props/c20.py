"""C20 — the translator touches only its own output files."""
import collections
import hashlib
import os
import re
import shutil
import stat
import subprocess

from .. import f1, f2, gen, wasm, cexec
from ..choice import Chooser, shrink
from ..wasm import I32, Module, Func

ID = 'C20'
LEVEL = 'exploration'
RULE = ('generated sandbox tree root/{cwd,in,out[/sub],other}; module and reference module in in/; output path relative, '
        'absolute, with ./ or sub/../ components, with/without extension; output directory names with glob / shell / printf characters next to sibling directories such a pattern would match; decoys in every directory: names matching '
        '[sd]<10 digits>.c and near misses (9/11 digits, other prefix letter, upper case, a non-digit, .h/.cc/.c~ extensions, '
        'non-empty directories and symlinks with matching names, dot files); options -c on/off x -f N x -t N x -d gnu-ld x -r x '
        '-p x -g; a quarter of the runs fail (truncated module, a body the C writer rejects, missing input). Oracle: SHA-256/type/mode snapshot of the whole tree before and after. Created or modified paths must be '
        'the output file, its header, [sd]<10 digits>.c or "datasegments", all inside dirname(output); without -c nothing is '
        'deleted; with -c the deleted set is a subset of the regular files/symlinks in the output directory that match the '
        'pattern and every such file is deleted or overwritten; symlink targets, input and reference modules never change. '
        'Non-trivial = -c with >= 3 near-miss decoys, a nested/relative output path with decoys in cwd, or gnu-ld mode; '
        'distinct by (tree, command line).')
ASSUME = ['not generated because the property does not say what should happen: a symlink or directory placed exactly at an '
          'output file name; an EMPTY directory whose name matches the pattern']

PATTERN = re.compile(r'^[sd][0-9]{10}\.c$')

NEAR_MISSES = ['s000000001.c', 's00000000001.c', 'x0000000001.c', 'S0000000001.c', 'D0000000002.c', 's00000a0001.c',
               's0000000001.h', 's0000000001.cc', 's0000000001.c~', 'd0000000003.cpp', '.s0000000001.c', 's0000000001.C',
               's 000000001.c', 's0000000001', 'd000000000x.c', 'sd000000001.c', 'keep.c', 'main.c', 'notes.txt', 's-000000001.c',
               'd+000000001.c', 's0000000001.c.bak', 'ss0000000001.c']
MATCHING_HIGH = ['s0000000123.c', 'd9999999999.c', 's4294967295.c', 'd0000077777.c']
MATCHING = ['s0000000001.c', 'd0000000001.c', 's0000000123.c', 'd9999999999.c', 's0000000000.c', 's4294967295.c']


def snapshot(root):
    snap = {}
    for dp, dns, fns in os.walk(root, followlinks=False):
        for n in dns + fns:
            p = os.path.join(dp, n)
            rel = os.path.relpath(p, root)
            st = os.lstat(p)
            if stat.S_ISLNK(st.st_mode):
                snap[rel] = ('link', os.readlink(p))
            elif stat.S_ISDIR(st.st_mode):
                snap[rel] = ('dir', stat.S_IMODE(st.st_mode))
            else:
                snap[rel] = ('file', stat.S_IMODE(st.st_mode), hashlib.sha256(open(p, 'rb').read()).hexdigest())
    return snap


def small_module(ch, nf):
    m = Module()
    t = m.type_index((I32,), (I32,))
    for i in range(nf):
        m.funcs.append(Func(t, [], [('local.get', 0), ('i32.const', ch.below(1000)), ('i32.add',)]))
        m.exports.append((b'f%d' % i, 'func', i))
    m.memory = (1, None)
    m.datas.append(('active', ('i32.const', 8), b'hello'))
    if ch.below(2):
        m.datas.append(('passive', None, b'passive'))
    m.func_names = {i: b'fun%d' % i for i in range(nf)}
    return m


def build_case(ch):
    """pure description of a case (no file system access)"""
    nf = 1 + ch.below(8)
    m = small_module(ch, nf)
    ref = None
    if ch.below(3) == 1:
        ref = small_module(Chooser(replay=list(ch.log)), nf)       # same bodies ...
        k = ch.below(nf)
        ref.funcs[k] = Func(ref.funcs[k].type, [], [('i32.const', 4242)])   # ... except one
    nested = ch.below(3) == 1
    # the output directory's own name may contain characters that mean something to glob(3), the shell or printf; siblings whose names
    # such a pattern would match hold implementation-file names too - they are other directories and must stay as they are
    outname, siblings = ch.pick((('out', ()), ('out', ()), ('out', ()), ('o[tu]t', ('out', 'ott')), ('out*', ('out', 'outer')), ('ou?', ('out', 'oux')),
                                 ('o\\ut', ('out',)), ('out dir', ('out',)), ('-out', ()), ('%sout%d', ()), ('{out,in}', ('out',)), ('out~', ()),
                                 ('[out]', ('o', 'u', 't'))))
    outdir = (outname + '/sub') if nested else outname
    form = ch.below(8)        # 6, 7: the output path names the output DIRECTORY with trailing separators ("../out/", "../out//")
    base = ch.pick(['m.c', 'm.c', 'out.c', 'noext', 'a.b.c', 'x.cc', 'module.c', 'L' * 240 + '.c', 'n' * 251, 'k' * 249 + '.c', 'q' * 200 + '.c'])
    # redundant separators behind the FILE name ("out/m.c//"): POSIX basename ignores them
    trail = ch.pick((0, 0, 0, 1, 2, 7, 20))
    decoys = {}
    for d in ('cwd', 'in', 'out', 'out/sub', 'other', '.') + tuple('sib:' + x for x in siblings):
        names = []
        for _ in range(ch.below(7)):
            names.append((ch.pick(NEAR_MISSES), 'file'))
        for _ in range(ch.below(4)):
            kind = ch.weighted([(6, 'file'), (1, 'dir'), (1, 'link')])
            # directories / symlinks only under names the translator will not write itself (file indices stay < 100)
            names.append((ch.pick(MATCHING if kind == 'file' else MATCHING_HIGH), kind))
        if d.startswith('sib:'):
            names += [(ch.pick(MATCHING), 'file'), ('s0000000000.c', 'file')]
        # neighbours of the requested output name: editor / temporary-file spellings a careless "write then rename" would hit
        if ch.below(2):
            names.append((base + ch.pick(('.tmp', '~', '.bak', '.new', '.part', '.lock')), 'file'))
        if ch.below(4) == 0:
            names.append(('.' + base + ch.pick(('.tmp', '.swp')), 'file'))
        decoys[d] = names
    opts = []
    if ch.below(2) == 1:
        opts.append('-c')
    if ch.below(2) == 1:
        opts += ['-f', str(ch.pick((0, 1, 2, 3, nf, nf + 1)))]
    if ch.below(3) == 1:
        opts += ['-t', str(ch.pick((1, 2, 4)))]
    if ch.below(3) == 1:
        opts += ['-d', ch.pick(('gnu-ld', 'gnu-ld', 'sectcreate1', 'sectcreate2'))]
    if ch.below(4) == 1:
        opts.append('-p')
    if ch.below(4) == 1:
        opts.append('-g')
    if ref is not None:
        opts += ['-r', '@REF@']
    # translator build configurations: system vs. bundled dirname/basename, getopt, strdup; with / without worker threads
    variant = ch.pick(('plain', 'plain', 'plain', 'nolibgen', 'nolibgen', 'nogetopt', 'nostrdup', 'nopthread'))
    if variant == 'nopthread' and '-t' in opts:
        i = opts.index('-t')
        del opts[i:i + 2]
    # runs that FAIL: a truncated file, a module the reader accepts but the C writer gives up on (bodies that refer to locals,
    # labels, functions or globals that do not exist - the translator does not validate), a missing input.  Whatever a failing run
    # does to the output directory, it is still a translator run: nothing outside the permitted set is created, changed or deleted
    bad = ch.weighted([(7, None), (1, 'truncated'), (3, 'invalid-body'), (1, 'missing-input')])
    mbytes = wasm.encode(m)
    if bad == 'truncated':
        mbytes = mbytes[:1 + ch.below(len(mbytes) - 1)]
    elif bad == 'invalid-body':
        k = ch.below(nf)
        m.funcs[k] = Func(m.funcs[k].type, [], ch.pick(([('local.get', 7)], [('local.get', 0), ('br', 5)], [('call', 999)], [('global.get', 3)],
                                                        [('local.get', 0), ('local.set', 9), ('i32.const', 1)], [('i32.add',)],
                                                        [('local.get', 0), ('i32.const', 1), ('call_indirect', 0)])))
        mbytes = wasm.encode(m)
    return {'module': mbytes, 'bad': bad, 'outname': outname, 'siblings': list(siblings), 'trail': trail, 'ref': wasm.encode(ref) if ref is not None else None, 'outdir': outdir, 'form': form,
            'base': base, 'decoys': decoys, 'opts': opts, 'inabs': ch.below(2) == 1, 'variant': variant}


def materialise(case, root):
    outname = case.get('outname', 'out')

    def real(d):
        if d.startswith('sib:'):
            return d[4:]
        return outname + d[3:] if (d == 'out' or d.startswith('out/')) else d
    for d in ('cwd', 'in', 'out', 'out/sub', 'other', 'target') + tuple('sib:' + x for x in case.get('siblings', ())):
        os.makedirs(os.path.join(root, real(d)), exist_ok=True)
    open(os.path.join(root, 'in', 'm.wasm'), 'wb').write(case['module'])
    if case['ref'] is not None:
        open(os.path.join(root, 'in', 'ref.wasm'), 'wb').write(case['ref'])
    open(os.path.join(root, 'target', 'precious.txt'), 'w').write('must survive\n')
    for d, names in case['decoys'].items():
        for n, kind in names:
            p = os.path.join(root, real(d), n)
            if len(n) > 255 or os.path.lexists(p):
                continue
            if kind == 'file':
                open(p, 'w').write('decoy %s/%s\n' % (d, n))
            elif kind == 'dir':
                os.mkdir(p)
                open(os.path.join(p, 'inside.txt'), 'w').write('non-empty\n')
            else:
                os.symlink(os.path.join(root, 'target', 'precious.txt'), p)
    outdir = case['outdir']
    rel_from_cwd = os.path.join('..', outdir)
    form = case['form']
    if form == 0:
        outpath = os.path.join(rel_from_cwd, case['base'])
    elif form == 1:
        outpath = os.path.join(root, outdir, case['base'])
    elif form == 2:
        outpath = './' + os.path.join(rel_from_cwd, case['base'])
    elif form == 3:
        outpath = os.path.join('..', outname, 'sub', '..', case['base']) if outdir == outname else os.path.join('..', outname, 'sub', '.', case['base'])
    elif form == 4:
        outpath = os.path.join(rel_from_cwd, '.', case['base'])
    elif form == 6:
        outpath = rel_from_cwd + '/'
    elif form == 7:
        outpath = os.path.join(root, outdir) + '//'
    else:
        outpath = os.path.join(root, 'cwd', rel_from_cwd, case['base'])
    if form not in (6, 7) and case.get('trail'):
        outpath += '/' * case['trail']
    inpath = os.path.join(root, 'in', 'm.wasm') if case['inabs'] else os.path.join('..', 'in', 'm.wasm')
    if case.get('bad') == 'missing-input':
        inpath = inpath.replace('m.wasm', 'absent.wasm')
    refpath = os.path.join(root, 'in', 'ref.wasm') if case['inabs'] else os.path.join('..', 'in', 'ref.wasm')
    opts = [refpath if o == '@REF@' else o for o in case['opts']]
    return opts + [inpath, outpath], outpath


def posix_split(path):
    """dirname / basename as POSIX defines them (trailing separators do not count)"""
    p = path.rstrip('/') or '/'
    if '/' not in p:
        return '.', p
    d, b = p.rsplit('/', 1)
    return (d.rstrip('/') or '/'), b


def check_case(case, variant=None):
    """returns (problems list, info)"""
    root = cexec.new_dir('fs')
    try:
        argv, outpath = materialise(case, root)
        before = snapshot(root)
        variant = variant or case.get('variant', 'plain')
        exe = cexec.w2c2_binary(variant)
        env = dict(os.environ)
        env.update(cexec.ASAN_ENV)
        r = subprocess.run([exe] + argv, cwd=os.path.join(root, 'cwd'), stdout=subprocess.PIPE, stderr=subprocess.PIPE,
                           timeout=120, env=env)
        after = snapshot(root)
        problems = []
        # "the directory of the output path" and the output file's name, as POSIX dirname / basename give them
        dpart, base = posix_split(outpath)
        outdir = os.path.relpath(os.path.realpath(os.path.join(root, 'cwd', dpart)), os.path.realpath(root))
        outdir = '' if outdir == '.' else outdir
        names_a_directory = os.path.isdir(os.path.join(root, outdir, base))
        header = (base.rsplit('.', 1)[0] if '.' in base else base) + '.h'
        if r.returncode != 0 and not names_a_directory and not case.get('bad'):
            problems.append('exit status %r: %s' % (r.returncode, r.stderr.decode(errors='replace')[-300:]))
        created = [p for p in after if p not in before]
        deleted = [p for p in before if p not in after]
        modified = [p for p in after if p in before and after[p] != before[p]]
        clean = '-c' in case['opts']

        def allowed(p):
            d, n = os.path.split(p)
            return d == outdir and (n in (base, header, 'datasegments') or PATTERN.match(n))
        for p in created + modified:
            if after[p][0] == 'dir' and p in modified:
                continue        # directory mode unchanged is compared; mtime is not part of the snapshot
            if not allowed(p):
                problems.append('%s outside the permitted set: %s' % ('created' if p in created else 'modified', p))
        matching = [p for p in before if os.path.dirname(p) == outdir and PATTERN.match(os.path.basename(p))
                    and before[p][0] in ('file', 'link')]
        if not clean:
            for p in deleted:
                problems.append('deleted without -c: %s' % p)
        else:
            for p in deleted:
                if p not in matching:
                    problems.append('-c deleted a file that does not match the pattern or lies elsewhere: %s' % p)
            for p in matching:
                if p in after and after[p] == before[p] and r.returncode == 0:
                    problems.append('-c left a matching file in the output directory: %s' % p)
        for p in ('in/m.wasm', 'in/ref.wasm', 'target/precious.txt'):
            if p in before and after.get(p) != before[p]:
                problems.append('input or symlink target changed: %s' % p)
        if r.returncode == 0 and not names_a_directory:
            for n in (base, header):
                if os.path.join(outdir, n) not in after:
                    problems.append('expected output %s missing in %s' % (n, outdir))
        info = {'argv': argv, 'created': sorted(created), 'deleted': sorted(deleted), 'modified': sorted(modified),
                'stderr': r.stderr.decode(errors='replace')[-400:]}
        return problems, info
    finally:
        cexec.rm(root)


def case_to_json(case):
    c = dict(case)
    c['module'] = case['module'].hex()
    c['ref'] = case['ref'].hex() if case['ref'] is not None else None
    return c


def case_from_json(c):
    c = dict(c)
    c['module'] = bytes.fromhex(c['module'])
    c['ref'] = bytes.fromhex(c['ref']) if c['ref'] else None
    c['decoys'] = {d: [tuple(x) for x in v] for d, v in c['decoys'].items()}
    return c


def sig_of(problems):
    p = problems[0]
    p = re.sub(r'[sdSDx][-+ 0-9a]{9,11}\.\S*', 'NAME', p)
    return re.sub(r'\d+', 'N', p)[:80]


def task(wid, seed, params):
    res = {'evaluations': 0, 'nontrivial': set(), 'classes': collections.Counter(), 'samples': [], 'violations': [],
           'infra': [], 'extra': {}}
    for ci in range(params['ncases']):
        ch = Chooser(seed * 1000003 + ci)
        case = build_case(ch)
        problems, info = check_case(case)
        res['evaluations'] += 1
        near = sum(1 for d in case['decoys'].values() for n, k in d if not PATTERN.match(n))
        classes = []
        if '-c' in case['opts'] and near >= 3:
            classes.append('clean_with_near_misses')
        if case['form'] != 1 and case['decoys']['cwd']:
            classes.append('relative_output_decoys_in_cwd')
        if 'gnu-ld' in case['opts'] or 'sectcreate1' in case['opts'] or 'sectcreate2' in case['opts']:
            classes.append('gnu-ld')
        if 'sectcreate1' in case['opts'] or 'sectcreate2' in case['opts']:
            classes.append('sectcreate')
        if case['outdir'] != case.get('outname', 'out'):
            classes.append('nested_output_dir')
        if case.get('outname', 'out') != 'out':
            classes.append('output_directory_name_with_special_characters')
        if case.get('variant', 'plain') != 'plain':
            classes.append('translator_build_' + case['variant'])
        if case['form'] in (6, 7):
            classes.append('output_path_with_trailing_separator')
        if case['ref'] is not None:
            classes.append('reference_module')
        if case.get('bad'):
            classes.append('failing_run_' + case['bad'])
        if len(case['base']) > 100:
            classes.append('long_output_file_name')
        if case.get('trail') and case['form'] not in (6, 7):
            classes.append('separators_behind_the_file_name')
        for c in classes:
            res['classes'][c] += 1
        if classes[:3] and any(c in classes for c in ('clean_with_near_misses', 'relative_output_decoys_in_cwd', 'gnu-ld')):
            res['nontrivial'].add(f1.hx((repr(sorted(case['decoys'].items())), case['opts'], case['form'], case['base'], case['outdir'])))
        if ci < 2:
            res['samples'].append({'argv': [a if len(a) < 60 else '...' + a[-40:] for a in info['argv']],
                                   'created': info['created'], 'deleted': info['deleted']})
        if problems and len(res['violations']) < 2:
            sig = sig_of(problems)
            log = list(ch.log)

            def still(choices):
                c2 = build_case(Chooser(replay=choices))
                p2, i2 = check_case(c2)
                return bool(p2) and sig_of(p2) == sig
            try:
                best, used = shrink(log, still, budget=60)
                c2 = build_case(Chooser(replay=best))
                p2, i2 = check_case(c2)
                if p2:
                    case, problems, info = c2, p2, i2
            except Exception:
                pass
            res['violations'].append({'signature': sig, 'summary': '; '.join(problems[:3]) + ' | argv=%s' % ' '.join(info['argv'][-6:]),
                                      'replay': {'kind': 'c20', 'case': case_to_json(case), 'problems': problems[:5],
                                                 'info': info}})
    return res


def replay(rp):
    problems, info = check_case(case_from_json(rp['case']))
    return bool(problems)


def plan(tier, seed):
    if tier == 'quick':
        return [{'ncases': 1200} for _ in range(32)]
    return [{'ncases': 15000} for _ in range(64)]


def run(tier, seed):
    return f1.standard_run(ID, LEVEL, RULE, ASSUME, plan(tier, seed), task, replay, tier, seed)
