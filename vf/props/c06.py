"""C06 — instantiation builds the specified initial state, once, per instance."""
from . import c05  # noqa: F401  (registers the c05_bigmem maker)
from .. import f1, gen, e2e, wasm, pools
from ..wasm import I32, I64, F32, F64, Module, Func

ID = 'C06'
LEVEL = 'exploration'
RULE = ('generated inst-mode module: any mix of defined/imported memory, table and globals; 0-6 data segments (active with '
        'i32.const or global.get <imported> offsets, overlapping, passive ones interleaved), 0-3 element segments, globals '
        'initialised from constants or imported globals, optional start function that reads segment bytes and globals, writes a '
        'global, stores to memory and calls env.trace; exports with identifier-safe and exotic names. History over one or two '
        'live instances: instantiate A, observe (memory CRC + dumps through the exported accessor, every global from the '
        'instance struct and through getters, every initialised table slot, start-function trace before "I ok"), mutate A, '
        'instantiate B (bound to the same or to different imported objects), observe both. Oracle = interpreter store model: '
        'defined state disjoint, imported state shared exactly when the resolver handed out the same object. Non-trivial = '
        'module with an imported memory/table that has an active segment, overlapping segments, a global initialised from an '
        'imported global, a start function, or a two-instance history; distinct by (module, history). Segment contents include bytes that mean something inside C literals and segments of boundary sizes (2^k, 32767, 65535 and multiples, hazard text around every multiple of 32767); one compile cell is strict -std=c89.')
ASSUME = ['reference interpreter calibrated against the spec-suite expectations (data/elem/start/global/imports suites)',
          'segments are in bounds by construction']

NAMES_SAFE = [b'a', b'get', b'f1', b'run_it', b'memory', b'T', b'z9']
NAMES_EXOTIC = [b'a-b', b'x.y', b'1abc', b'X', b'a__b', b'with space', b'\xc3\xa9t\xc3\xa9', b'%d%s', b'a/b', b'$', b'_', b'__',
                b'tab\there', b'{}', b'semi;colon', b'long' * 40, b'\xf0\x9f\x98\x80', b"quote'", b'a?b:c', b'#x', b'X41']


def build(ch):
    m = Module()
    cls = {}
    T = m.type_index
    m.imports.append((b'env', b'trace', 'func', T((I32,), ())))
    # import module names: one name for everything, or names that are related as strings (prefixes of each other, equal up to
    # case or a trailing character, the empty name) in any order - the resolver is asked for exactly the declared pair
    MODS = (b'env', b'env2', b'en', b'environment', b'e', b'env_', b'Env', b'host', b'hostile')
    related = ch.below(3) == 0

    def imod():
        return ch.pick(MODS) if related else b'env'
    if related:
        cls['related_import_module_names'] = 1
    imp_mem = ch.below(3) == 0
    imp_tab = ch.below(3) == 0
    nig = ch.below(3)
    has_mem = imp_mem or ch.below(5) > 0
    has_tab = imp_tab or ch.below(3) > 0
    mn = 1 + ch.below(2)
    # shared memories (threads proposal: a maximum is mandatory; the host allocates up to it, the page count starts at the minimum)
    shared_mem = ch.below(5) == 0
    # what the embedder binds to an import may be LARGER than the import's declared minimum (import matching only asks for "at
    # least"): segments are then bounded by the object actually bound, not by the declaration
    mem_extra = tab_extra = 0
    if imp_mem:
        mdesc = (mn, ch.pick((mn, mn + 2, mn + 5)), True) if shared_mem else (mn, ch.pick((None, mn, mn + 2)), False)
        m.imports.append((imod(), b'mem', 'memory', mdesc))
        mem_extra = min(ch.pick((0, 0, 1, 2)), (mdesc[1] - mn) if mdesc[1] is not None else 2)
        if mem_extra:
            cls['imported_memory_larger_than_declared'] = 1
    elif has_mem:
        m.memory = (mn, ch.pick((mn, mn + 2, mn + 5)), True) if shared_mem else (mn, ch.pick((None, mn, mn + 2)), False)
    if shared_mem and (imp_mem or has_mem):
        cls['shared_memory'] = 1
    tsize = 8 + ch.below(8)
    if imp_tab:
        tab_extra = ch.pick((0, 0, 3, 8))
        m.imports.append((imod(), b'tab', 'table', (tsize, None)))
        if tab_extra:
            cls['imported_table_larger_than_declared'] = 1
    elif has_tab:
        m.table = (tsize, ch.pick((None, tsize)))
    igt = []
    for g in range(nig):
        t = I32 if g == 0 else ch.pick((I32, I64, F32, F64))
        m.imports.append((imod(), b'ig%d' % g, 'global', (t, False)))
        igt.append(t)
    # defined globals
    ng = ch.below(5)
    for g in range(ng):
        t = ch.pick((I32, I64, F32, F64))
        cands = [i for i, it in enumerate(igt) if it == t]
        if cands and ch.below(2):
            m.globals.append((t, bool(ch.below(2)), ('global.get', ch.pick(cands))))
            cls['global_from_import'] = 1
        else:
            v = pools.draw_const(ch, t)
            if pools.is_snan(t, v):
                v = pools.quiet(t, v)
            m.globals.append((t, bool(ch.below(2)), ('%s.const' % t, v)))
    gmut = [nig + i for i, g in enumerate(m.globals) if g[1]]
    igval = {}
    # data segments
    regions = []
    if has_mem:
        for s in range(ch.below(7)):
            ln = ch.below(24)
            shape = ch.below(5)
            data = bytes((0x10 * (s + 1) + i) & 0xff for i in range(ln))
            if shape == 1:
                data = bytes(ln)                                            # all zero
                cls['zero_bytes_in_segment'] = 1
            elif shape == 2 and ln > 1:
                z = 1 + ch.below(ln - 1)
                data = data[:ln - z] + bytes(z)                             # trailing zeros
                cls['zero_bytes_in_segment'] = 1
            elif shape == 3 and ln > 1:
                z = 1 + ch.below(ln - 1)
                data = bytes(z) + data[z:]                                  # leading zeros
                cls['zero_bytes_in_segment'] = 1
            elif shape == 4:
                ln = ch.pick((3, 8, 23, 60, 200))
                data = pools.segment_text(ch, ln)                           # bytes that mean something inside a C literal
                cls['segment_bytes_hazardous_in_c_literals'] = 1
            bigseg = None
            if ch.below(8) == 0 and not mem_extra:
                bigseg = pools.segment_big(ch, mn * 65536 - 64, s)
            if bigseg:
                ln, data = bigseg
                cls['segment_of_boundary_size>=255'] = 1
                if ln >= 32767:
                    cls['segment>=32767_bytes'] = 1
            if ch.below(5) == 0:
                m.datas.append(('passive', None, data))
                continue
            if regions and ch.below(2):
                base = min(max(ch.pick(regions) + ch.below(9) - 4, 0), max(mn * 65536 - ln, 0))       # overlap an earlier segment
                cls['overlapping_data'] = 1
            else:
                base = ch.pick((0, 1, 100, 65536 - 64, ch.below(60000)))
                if base + ln > mn * 65536:
                    base = ch.pick((0, 16, mn * 65536 - ln))
                if mem_extra and ch.below(2):
                    # beyond the declared minimum, inside the memory actually bound (also straddling the declared end)
                    base = ch.pick((mn * 65536 - 3, mn * 65536, mn * 65536 + 1 + ch.below(60000), (mn + mem_extra) * 65536 - 24))
                    cls['segment_beyond_declared_minimum_of_imported_memory'] = 1
            if nig and ch.below(3) == 0:
                # offset given by imported global 0 (i32): its value is fixed once for the module
                base = igval.setdefault(0, base)
                m.datas.append(('active', ('global.get', 0), data))
                cls['data_offset_from_global'] = 1
            else:
                m.datas.append(('active', ('i32.const', base), data))
            regions.append(base)
            if imp_mem:
                cls['imported_memory_with_segment'] = 1
    nfimp = 1
    # functions: getters/setters for globals, memory accessors, a few plain functions for the table
    funcs = []

    def add(name, ps, rs, body, locs=()):
        m.funcs.append(Func(T(ps, rs), list(locs), body))
        fi = nfimp + len(m.funcs) - 1
        if name is not None:
            m.exports.append((name, 'func', fi))
        return fi
    names = []
    pool_names = list(NAMES_SAFE) + list(NAMES_EXOTIC)

    def fresh_name(prefix):
        if pool_names and ch.below(3) == 0:
            n = pool_names.pop(ch.below(len(pool_names)))
            if n not in names:
                if n not in NAMES_SAFE:
                    cls['exotic_export_name'] = cls.get('exotic_export_name', 0) + 1
                names.append(n)
                return n
        n = prefix + b'%d' % len(names)
        names.append(n)
        return n
    acc = {'gget': [], 'gset': [], 'ld': None, 'st': None, 'plain': [], 'ind': None}
    for gi in range(nig + len(m.globals)):
        t = m.global_type(gi)[0]
        acc['gget'].append((gi, len([e for e in m.exports if e[1] == 'func']), t))
        add(fresh_name(b'gget'), (), (t,), [('global.get', gi)])
    for gi in gmut:
        t = m.global_type(gi)[0]
        acc['gset'].append((gi, len([e for e in m.exports if e[1] == 'func']), t))
        add(fresh_name(b'gset'), (t,), (), [('local.get', 0), ('global.set', gi)])
    if has_mem:
        acc['ld'] = len([e for e in m.exports if e[1] == 'func'])
        add(fresh_name(b'ld'), (I32,), (I64,), [('local.get', 0), ('i64.load', 0, 0)])
        acc['st'] = len([e for e in m.exports if e[1] == 'func'])
        add(fresh_name(b'st'), (I32, I64), (), [('local.get', 0), ('local.get', 1), ('i64.store', 0, 0)])
        passive = [k for k, d_ in enumerate(m.datas) if d_[0] == 'passive' and len(d_[2]) > 0]
        acc['pinit'], acc['pdrop'] = [], []
        for k in passive[:2]:
            acc['pinit'].append((k, len(m.datas[k][2]), len([e for e in m.exports if e[1] == 'func'])))
            add(fresh_name(b'pinit'), (I32, I32, I32), (), [('local.get', 0), ('local.get', 1), ('local.get', 2), ('memory.init', k)])
            acc['pdrop'].append((k, len([e for e in m.exports if e[1] == 'func'])))
            add(fresh_name(b'pdrop'), (), (), [('data.drop', k)])
        mname = ch.pick((b'mem', b'mem', b'memory', b'm-e.m'))
        while mname in names:
            mname += b'_'
        names.append(mname)
        m.exports.append((mname, 'memory', 0))
    for k in range(1 + ch.below(3)):
        fi = add(fresh_name(b'p'), (), (I32,), [('i32.const', 1000 + k)])
        acc['plain'].append(fi)
    tmap = {}
    if has_tab:
        tt = T((), (I32,))
        for s in range(ch.below(4)):
            ln = 1 + ch.below(3)
            base = ch.below(tsize - ln + 1)
            if tab_extra and ch.below(2):
                base = tsize - 1 + ch.below(tab_extra - ln + 2)
                cls['segment_beyond_declared_minimum_of_imported_table'] = 1
                off = ('i32.const', base)
            elif nig and ch.below(3) == 0 and (0 not in igval or igval[0] + ln <= tsize):
                base = igval.setdefault(0, base)
                if base + ln > tsize:
                    continue
                off = ('global.get', 0)
                cls['elem_offset_from_global'] = 1
            else:
                off = ('i32.const', base)
            fl = [ch.pick(acc['plain']) for _ in range(ln)]
            m.elems.append((off, fl))
            for i, f in enumerate(fl):
                tmap[base + i] = f
            if imp_tab:
                cls['imported_table_with_segment'] = 1
        acc['ind'] = len([e for e in m.exports if e[1] == 'func'])
        add(fresh_name(b'ind'), (I32,), (I32,), [('local.get', 0), ('call_indirect', tt)])
    # data offsets through imported global 0 must stay in bounds of the memory
    if 0 in igval and has_mem:
        mx = max([len(d) for md, o, d in m.datas if md == 'active' and o[0] == 'global.get'] or [0])
        if igval[0] + mx > (mn + mem_extra) * 65536:
            igval[0] = 0
            # elem segments through the same global: recompute map conservatively (offset 0)
            tmap = {}
            for off, fl in m.elems:
                b0 = 0 if off[0] == 'global.get' else off[1]
                for i, f in enumerate(fl):
                    tmap[b0 + i] = f
    # start function
    if ch.below(2):
        body = []
        if has_mem and regions:
            body += [('i32.const', min(regions[0], (mn + mem_extra) * 65536 - 4)), ('i32.load', 0, 0), ('call', 0)]
        for gi in range(nig + len(m.globals)):
            if m.global_type(gi)[0] == I32:
                body += [('global.get', gi), ('call', 0)]
                break
        for gi in gmut[:1]:
            t = m.global_type(gi)[0]
            body += [('%s.const' % t, 0x1234), ('global.set', gi)]
        if has_mem:
            body += [('i32.const', 4000), ('i64.const', 0x1122334455667788), ('i64.store', 0, 0)]
        body += [('i32.const', 77), ('call', 0)]
        m.start = add(None, (), (), body)
        cls['start_function'] = 1
    # exports of globals / tables (valid; the translator offers no accessor for them and says so) anywhere in the export section:
    # the function and memory exports around them must still come out
    if ch.below(3) == 0:
        cand = []
        if nig + len(m.globals):
            cand.append(('global', ch.below(nig + len(m.globals))))
        if has_tab:
            cand.append(('table', 0))
        for kd, idx in cand[:1 + ch.below(2)]:
            gname = fresh_name(b'x' + kd.encode())
            m.exports.insert(ch.below(len(m.exports) + 1), (gname, kd, idx))
            cls['global_or_table_export_between_others'] = 1
    return m, acc, {'igval': igval, 'tmap': tmap, 'cls': cls, 'regions': regions, 'has_mem': has_mem, 'has_tab': has_tab,
                    'imp_mem': imp_mem, 'imp_tab': imp_tab, 'mn': mn + mem_extra, 'tsize': tsize, 'igt': igt,
                    'mem_extra': mem_extra, 'tab_extra': tab_extra}


def observe(script, k, m, acc, info):
    if info['has_mem']:
        script.append(('mem', k))
        for r in info['regions'][:4]:
            lo = max(min(r, info['mn'] * 65536 - 32) - 2, 0)
            script.append(('dump', k, lo, 32))
        script.append(('dump', k, 3996, 16))
    nig = len(info['igt'])
    for gi, e, t in acc['gget']:
        script.append(('call', k, e, []))
        script.append(('glob', k, gi))
    if info['has_tab']:
        for s in sorted(info['tmap']):
            script.append(('slot', k, s))
            if acc['ind'] is not None:
                script.append(('call', k, acc['ind'], [s]))


@f1.maker('c06_inst')
def make_inst(ch, params):
    m, acc, info = build(ch)
    cls = dict(info['cls'])
    two = ch.below(2) == 1
    share = ch.below(2) == 1
    script = []
    # imported objects: one per import; instance 1 gets the same objects (share) or its own
    k = 0
    binds = {}
    for gi, (mod, name, kind, desc) in enumerate(m.imports):
        if kind == 'func':
            continue
        for inst in (0, 1) if two else (0,):
            if inst == 1 and share:
                script.append(('bind', 1, gi, binds[(0, gi)]))
                continue
            if kind == 'memory':
                script.append(('newmem', k, desc[0] + info['mem_extra'], desc[1], len(desc) > 2 and bool(desc[2])))
            elif kind == 'table':
                script.append(('newtab', k, desc[0] + info['tab_extra'], desc[1]))
            else:
                gidx = len([x for x in m.imports[:gi] if x[2] == 'global'])
                v = info['igval'].get(gidx)
                if v is None:
                    v = pools.draw_value(ch, desc[0])
                    if pools.is_snan(desc[0], v):
                        v = pools.quiet(desc[0], v)
                script.append(('setglob', k, desc[0], v))
            script.append(('bind', inst, gi, k))
            binds[(inst, gi)] = k
            k += 1
    script.append(('inst', 0))
    observe(script, 0, m, acc, info)
    # mutate instance 0
    for _ in range(ch.below(6)):
        w = ch.below(3)
        if w == 0 and acc['gset']:
            gi, e, t = ch.pick(acc['gset'])
            v = gen.gen_args(ch, [t])[0]
            script.append(('call', 0, e, [v]))
        elif w == 1 and acc['st'] is not None:
            script.append(('call', 0, acc['st'], [ch.pick((0, 8, 100, 4000, 65536 - 8)), ch.bits(64)]))
        elif acc['ld'] is not None:
            script.append(('call', 0, acc['ld'], [ch.pick((0, 8, 100, 4000))]))
    if two:
        cls['two_instances'] = 1
        cls['shared_imports' if share else 'separate_imports'] = 1
        script.append(('inst', 1))
        observe(script, 1, m, acc, info)
        observe(script, 0, m, acc, info)
        for _ in range(ch.below(4)):
            if acc['gset']:
                gi, e, t = ch.pick(acc['gset'])
                script.append(('call', 1, e, [gen.gen_args(ch, [t])[0]]))
            if acc['st'] is not None:
                script.append(('call', 1, acc['st'], [ch.pick((0, 8, 100, 4000)), ch.bits(64)]))
        observe(script, 0, m, acc, info)
        observe(script, 1, m, acc, info)
        if acc.get('pinit'):
            # passive segments belong to an instance: one instance dropping a segment (data.drop) leaves the other's copy as it was
            cls['data_drop_in_one_of_two_instances'] = 1
            (k, ln, e_init), (k2, e_drop) = acc['pinit'][0], acc['pdrop'][0]
            script.append(('call', 0, e_init, [2000, 0, ln]))
            script.append(('call', 0, e_drop, []))
            script.append(('call', 1, e_init, [2100, 0, ln]))
            script.append(('call', 1, e_init, [2200, ln - 1, 1]))
            script.append(('dump', 1, 2096, 32 + ln))
            script.append(('dump', 0, 1996, 16 + ln))
    else:
        observe(script, 0, m, acc, info)
    if 'shared_memory' not in cls and ch.below(3) == 0:
        # a child instance through the newChild hook: initialised like any instance (segments, globals, table, start function once),
        # then released by the embedder; the first instance keeps its state
        cls['child_instance_created_and_freed'] = 1
        script.append(('child', 100, 0))
        observe(script, 100, m, acc, info)
        if acc['gset']:
            gi, e, t = ch.pick(acc['gset'])
            script.append(('call', 100, e, [gen.gen_args(ch, [t])[0]]))
        observe(script, 0, m, acc, info)
        script.append(('freechild', 100))
        observe(script, 0, m, acc, info)
    interesting = [c for c in cls if c in ('imported_memory_with_segment', 'imported_table_with_segment', 'overlapping_data',
                                           'global_from_import', 'start_function', 'two_instances',
                                           'data_offset_from_global', 'elem_offset_from_global')]

    def nt(m_, script_, model, meta):
        if not interesting:
            return []
        return [(f1.hx((wasm.encode(m_), repr(script_))), [])]
    meta = {'nontrivial_fn': nt, 'ninst': 2, 'classes': cls}
    if len(m.datas) >= 2 and ch.below(3) == 0:
        # the initial memory contents are the same when the data segments travel in a side file (-d gnu-ld: one blob that
        # holds active and passive segments back to back, addressed by running offsets)
        meta['w2c2_options'] = ('-d', 'gnu-ld')
        cls['external_data_segments'] = 1
    return m, script, meta


def plan(tier, seed):
    if tier == 'quick':
        ccs = ['gcc-O0', 'clang-O2', 'gcc-O2', 'clang-O0', 'clang-O1-san', 'gcc-O0-c89']
        # plus: instantiation of a module whose memory is larger than 2 GiB with active segments at offsets >= 2^31 (c05_bigmem)
        return [{'maker': 'c06_inst', 'ncases': 40, 'ccs': ccs, 'shrink_budget': 25, 'reduce_budget': 30} for _ in range(32)] + \
            [{'maker': 'c05_bigmem', 'ncases': 2, 'ccs': ['gcc-O0', 'clang-O2', 'gcc-O2-gnu89'], 'shrink_budget': 4, 'reduce_budget': 4} for _ in range(2)]
    ccs = ['gcc-O0', 'clang-O2', 'gcc-O2', 'clang-O0', 'gcc-O3', 'clang-O3', 'gcc-O0-gnu89', 'clang-O2-gnu89', 'clang-O1-san',
           'gcc-O1-san', 'gcc-O0-c89', 'clang-O2-c89']
    return [{'maker': 'c06_inst', 'ncases': 400, 'ccs': ccs, 'shrink_budget': 40, 'reduce_budget': 40} for _ in range(64)] + \
        [{'maker': 'c05_bigmem', 'ncases': 10, 'ccs': ['gcc-O0', 'clang-O2', 'gcc-O2-gnu89', 'clang-O0'], 'shrink_budget': 4, 'reduce_budget': 4} for _ in range(4)]


def replay(rp):
    return f1.case_replay(rp)


def run(tier, seed):
    return f1.standard_run(ID, LEVEL, RULE, ASSUME, plan(tier, seed), f1.case_task, replay, tier, seed)
