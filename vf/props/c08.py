"""C08 — translation depends on the decoded module, not on its byte encoding."""
import collections
import os
import re

from .. import f1, f2, gen, wasm, cexec, e2e
from ..choice import Chooser
from ..wasm import Module, Func, I32, I64, F32, F64

ID = 'C08'
LEVEL = 'exploration'
RULE = ('metamorphic: a generated module M (expr/ctrl/calls/mem/inst/consts generators, incl. passive + active data segments, '
        'element segments, start, name section; and sparse modules made of any few sections - no functions, only a memory with data, only globals, the empty module) is encoded k times (quick 4, thorough 12) with spec-equivalent variations: every '
        'LEB128 size/count/index/immediate field padded up to its maximum legal length (correct sign/zero extension), custom '
        'sections with arbitrary names/content inserted at any section boundary, active data segments as flag 0 or flag 2 + '
        'memory index 0, empty sections present or omitted, optional DataCount section. All encodings are translated by the same '
        'w2c2 build under the same file name. Oracle: (1) every encoding is accepted (exit 0); (2) the generated .c and .h, split '
        'into top-level definitions, are equal as multisets to those of the canonical encoding (function order legitimately '
        'follows a hash of the raw body bytes); (3) two runs on the same bytes are byte-identical; (4) one padded encoding is '
        'compiled and run against the reference interpreter. Non-trivial = encoding with >=1 padded field inside a body and >=1 '
        'padded section-level field, or a custom section between known sections, a flag-2 data segment, an empty-vs-omitted '
        'section, an extra DataCount section, or a file brought to an exact size (multiples of 512 ... 65536 bytes and their '
        'neighbours) by one custom section; distinct by encoded bytes.')
ASSUME = ['single-byte grammar fields (value types, limits flags, kinds, reserved bytes) are never padded',
          'the set-of-definitions comparison is only made between outputs of the same w2c2 build']


def definitions(text):
    """multiset of top-level definitions of a generated file (blank-line separated chunks)"""
    return collections.Counter(c.strip() for c in re.split(r'\n\s*\n', text) if c.strip())


def translate_defs(wb, opts=(), variant='plain'):
    d = cexec.new_dir('e')
    try:
        tr = cexec.translate(wb, d, 'm', opts, variant)
        if tr.rc != 0:
            return tr, None, None
        files = {}
        for f in sorted(os.listdir(d)):
            if f.endswith('.c') or f.endswith('.h'):
                files[f] = open(os.path.join(d, f), errors='replace').read()
        defs = collections.Counter()
        for f, t in files.items():
            for k, v in definitions(t).items():
                defs[(f if f.endswith('.h') else 'c', k)] += v
        return tr, defs, files
    finally:
        cexec.rm(d)


@f1.maker('c08_sparse')
def make_sparse(ch, params):
    """modules made of FEW sections: any subset of {types, imports, functions+code, table, memory, globals, exports, start, elements,
    data (active / passive)} that is still valid - no functions at all, only a memory with data, only globals, only imports, the empty
    module.  Which sections are absent, empty or present (and whether a DataCount section stands in front of an absent code
    section) is the encoder's business; the module is the same"""
    m = Module()
    T = m.type_index
    has = lambda: ch.below(2) == 0
    if has():
        m.imports.append((b'env', b'g', 'global', (I32, False)))
    if has():
        m.imports.append((b'env', b'h', 'func', T((I32,), (I32,))))
    nf = ch.pick((0, 0, 0, 1, 2))
    for i in range(nf):
        m.funcs.append(Func(T((I32,), (I32,)), [], [('local.get', 0), ('i32.const', i + 1), ('i32.add',)]))
    if has():
        m.memory = (1, ch.pick((None, 1, 2)))
        for s_ in range(ch.below(3)):
            m.datas.append(('active', ('i32.const', 16 * s_), bytes([0x41 + s_]) * (1 + ch.below(6))) if ch.below(3) else ('passive', None, b'pp'))
    if has():
        m.table = (4, None)
        if nf and has():
            m.elems.append((('i32.const', 1), [m.n_imported_funcs()]))
    for g in range(ch.below(3)):
        m.globals.append((ch.pick((I32, I64, F32, F64)), bool(ch.below(2)), None))
        t = m.globals[-1][0]
        m.globals[-1] = (t, m.globals[-1][1], ('%s.const' % t, 1 + g))
    ni = m.n_imported_funcs()
    for i in range(nf):
        if has():
            m.exports.append((b'f%d' % i, 'func', ni + i))
    if m.memory is not None and has():
        m.exports.append((b'mem', 'memory', 0))
    if ch.below(3) == 0:
        m.datacount = True              # optional section in front of a possibly absent code section
    script = e2e.default_setup(m, 1)
    fex = [(n, i) for n, kd, i in m.exports if kd == 'func']
    for e, (n, fi) in enumerate(fex):
        script.append(('call', 0, e, [ch.below(1000)]))
    if m.memory is not None and any(kd == 'memory' for n, kd, i in m.exports):
        script.append(('mem', 0))
    return m, script, {'ninst': 1}


def make_knobs(ch):
    return wasm.Knobs(ch, pad_prob_pct=ch.pick((5, 20, 50, 90)), customs=ch.below(2) == 0, data_flag2=ch.below(2) == 0,
                      empty_sections=ch.below(2) == 0, datacount=ch.below(2) == 0, local_groups=ch.below(2) == 0)


SIZE_TARGETS = [k * 65536 for k in (1, 2, 3, 4)] + [4096, 8192, 16384, 32768, 1 << 18, 512, 1024, 2048, 3 * 4096, 5 * 4096, 1 << 20]


def leb_u(v, n=None):
    out = bytearray()
    while True:
        b = v & 0x7f
        v >>= 7
        if v or (n is not None and len(out) + 1 < n):
            out.append(b | 0x80)
        else:
            out.append(b)
            break
    return bytes(out)


def pad_to_size(wb, target, ch):
    """wb plus one custom section (at the end, or right after the 8-byte header) so that the file is exactly `target` bytes long;
    None if target is too close to len(wb).  The file size is a property of the encoding, not of the module."""
    extra = target - len(wb)
    if extra < 8:
        return None
    name = ch.pick((b'pad', b'', b'producers', b'.debug_info'))
    for lebn in (1, 2, 3, 4, 5):
        size = extra - 1 - lebn
        if size < 1 + len(name):
            continue
        if len(leb_u(size)) > lebn:
            continue
        payload = leb_u(len(name)) + name
        payload += bytes((i * 37 + 11) & 0xff for i in range(size - len(payload)))
        sec = b'\0' + leb_u(size, lebn) + payload
        out = (wb + sec) if ch.below(2) else (wb[:8] + sec + wb[8:])
        assert len(out) == target
        return out
    return None


def diff_summary(a, b):
    only_a = list((a - b).elements())[:2]
    only_b = list((b - a).elements())[:2]
    return 'only in canonical: %r ; only in variant: %r' % ([x[1][:160] for x in only_a], [x[1][:160] for x in only_b])


def task(wid, seed, params):
    res = {'evaluations': 0, 'nontrivial': set(), 'classes': collections.Counter(), 'samples': [], 'violations': [],
           'infra': [], 'extra': collections.Counter()}
    for ci in range(params['ncases']):
        ch = Chooser(seed * 1000003 + ci)
        mk = (f2.GENERAL_MAKERS + ['c08_sparse'])[(wid + ci) % (len(f2.GENERAL_MAKERS) + 1)]
        try:
            m, script, meta = f1.MAKERS[mk](ch, {'nfuncs': 10, 'nargs': 3, 'nsteps': 30, 'nconst': 80})
            wasm.validate(m)
        except wasm.Invalid:
            res['extra']['generator_invalid_module'] += 1
            continue
        if ch.below(3) == 0 and m.func_names is None:
            m.func_names = {m.n_imported_funcs() + i: b'fn%d' % i for i in range(len(m.funcs))}
        opts = ['-g'] if (m.func_names is not None and ch.below(2)) else []
        canon = wasm.encode(m)
        tr0, defs0, files0 = translate_defs(canon, opts)
        res['evaluations'] += 1
        if tr0.rc != 0:
            res['violations'].append({'signature': 'reject-canonical', 'summary': 'canonical encoding rejected: %s' % tr0.err[-200:],
                                      'replay': {'kind': 'c08', 'canon_hex': canon.hex(), 'variant_hex': canon.hex(), 'options': opts}})
            continue
        # (3) determinism on identical bytes
        tr1, defs1, files1 = translate_defs(canon, opts)
        if files1 != files0:
            res['violations'].append({'signature': 'nondeterministic', 'summary': 'two runs on identical bytes differ',
                                      'replay': {'kind': 'c08', 'canon_hex': canon.hex(), 'variant_hex': canon.hex(), 'options': opts}})
        last_variant = None
        for v in range(params['nenc']):
            kn = make_knobs(ch)
            wb = wasm.encode(m, kn)
            res['evaluations'] += 1
            st = kn.stats
            classes = []
            if st['padded_body'] and st['padded_section']:
                classes.append('padded_body+section')
            if st['customs']:
                classes.append('custom_section')
            if st['flag2']:
                classes.append('data_flag2')
            if st['empty_sections']:
                classes.append('empty_section_present')
            if st['datacount']:
                classes.append('extra_datacount')
            if st.get('local_groups'):
                classes.append('regrouped_locals_with_empty_entries')
            if classes:
                res['nontrivial'].add(f1.hx(wb))
                for c in classes:
                    res['classes'][c] += 1
            res['extra']['padded_fields'] += st['padded_body'] + st['padded_section']
            try:
                m2 = wasm.decode(wb)
                m3 = wasm.decode(canon)
                for mm in (m2, m3):
                    mm.customs, mm.datacount = [], None
                if wasm.encode(m2) != wasm.encode(m3):
                    res['infra'].append('encoder self-check failed: variant does not decode to the same module')
                    continue
            except (wasm.DecodeError, wasm.Unsupported) as e:
                res['infra'].append('encoder self-check failed: %s' % e)
                continue
            if v == params['nenc'] - 1 and (ci % 2 == 0 or len(wb) > 3000):
                # the last variant of every second case is brought to an exact file size (block / page / buffer multiples, and
                # one byte either side): whether an encoding is accepted must not depend on its length
                tgt = ch.pick(SIZE_TARGETS)
                while tgt < len(wb) + 8:
                    tgt += ch.pick((4096, 65536))
                    tgt -= tgt % 4096
                sized = pad_to_size(wb, tgt + ch.pick((0, 0, 0, 0, -1, 1)), ch)
                if sized is not None:
                    wb = sized
                    res['classes']['exact_file_size_multiple_of_4096' if len(wb) % 4096 == 0 else 'file_size_next_to_block_multiple'] += 1
                    if len(wb) % 65536 == 0:
                        res['classes']['exact_file_size_multiple_of_65536'] += 1
                    res['nontrivial'].add(f1.hx(wb))
            tr, defs, files = translate_defs(wb, opts)
            sig = None
            if tr.rc != 0:
                sig = 'reject:' + f1.normalize_diag(tr.err.decode(errors='replace').strip().splitlines()[-1] if tr.err.strip() else str(tr.rc))
                summ = 'valid encoding rejected (exit %r): %s' % (tr.rc, tr.err.decode(errors='replace')[-200:])
            elif defs != defs0:
                sig = 'defs-differ'
                summ = 'definitions differ between encodings: ' + diff_summary(defs0, defs)
            if sig:
                if len(res['violations']) < 3:
                    wbmin = minimise(m, canon, defs0, opts, kn, sig) or wb
                    res['violations'].append({'signature': sig, 'summary': summ + ' [%s]' % mk,
                                              'replay': {'kind': 'c08', 'canon_hex': canon.hex(), 'variant_hex': wbmin.hex(),
                                                         'options': opts, 'knob_stats': dict(st),
                                                         'module_text': wasm.fmt_module(m)[:6000]}})
                continue
            last_variant = wb
        # (3b) "absent optional sections mean empty, never garbage": the MemorySanitizer build of the translator reads no
        # uninitialised memory on the last variant and on the canonical encoding, and writes the same files as the plain build
        for wbm, ref_files, what in ((last_variant, None, 'variant'), (canon, files0, 'canonical')):
            if wbm is None:
                continue
            trm, defsm, filesm = translate_defs(wbm, opts, 'msan')
            res['evaluations'] += 1
            res['extra']['msan_translations'] += 1
            bad = f2.classify_run(trm)
            if bad or trm.rc != 0:
                res['violations'].append({'signature': 'msan:%s' % (bad[1] if bad else trm.rc),
                                          'summary': 'MemorySanitizer build of the translator on the %s encoding: %s [%s]' % (what, bad[1] if bad else 'exit %r' % trm.rc, mk),
                                          'replay': {'kind': 'c08', 'canon_hex': canon.hex(), 'variant_hex': wbm.hex(), 'options': opts, 'msan': True,
                                                     'stderr': trm.err.decode(errors='replace')[-2000:]}})
                break
            if ref_files is not None and filesm != ref_files:
                res['violations'].append({'signature': 'msan-build-differs', 'summary': 'plain and MemorySanitizer builds of the translator write different files [%s]' % mk,
                                          'replay': {'kind': 'c08', 'canon_hex': canon.hex(), 'variant_hex': canon.hex(), 'options': opts, 'msan': True}})
                break
        # (4) behaviour of one padded encoding
        if last_variant is not None and ci % params['run_every'] == 0:
            st, info = f1.run_case(m, script, 'gcc-O0', (), wasm_bytes=last_variant, ninst=meta.get('ninst', 2))
            res['extra']['variants_compiled_and_run'] += 1
            if st != 'ok':
                v = f1.case_violation(m, script, 'gcc-O0', st, info)
                res['violations'].append(v)
        if ci < 1:
            res['samples'].append({'generator': mk, 'canonical_bytes': len(canon), 'variant_bytes': len(last_variant or b''),
                                   'knobs': dict(kn.stats) if params['nenc'] else {}, 'definitions': sum(defs0.values())})
    res['extra'] = dict(res['extra'])
    return res


def minimise(m, canon, defs0, opts, kn, sig):
    """try single knob families to find a smaller distinguishing encoding"""
    for kw in ({'pad_prob_pct': 100}, {'customs': True}, {'data_flag2': True}, {'empty_sections': True}, {'datacount': True}, {'local_groups': True}):
        for s in range(4):
            k = wasm.Knobs(Chooser(s), **kw)
            wb = wasm.encode(m, k)
            tr, defs, files = translate_defs(wb, opts)
            if (tr.rc != 0 and sig.startswith('reject')) or (tr.rc == 0 and defs != defs0 and sig == 'defs-differ'):
                return wb
    return None


RC_CMD = ['clang++', '-std=gnu++17', '-g', '-O1', '-fsanitize=address,undefined', '-fno-sanitize-recover=undefined']


def rc_task(wid, seed, params):
    """rapidcheck properties over w2c2/leb128.h (in-process, ASan+UBSan): round trip over all legal paddings + truncation"""
    import subprocess
    res = {'evaluations': 0, 'nontrivial': set(), 'classes': collections.Counter(), 'samples': [], 'violations': [],
           'infra': [], 'extra': {}}
    exe = cexec.build_unit('rc_leb128.cpp', 'rc_leb128', RC_CMD, libs=['-lrapidcheck'])
    env = dict(os.environ)
    env.update(cexec.ASAN_ENV)
    env['RC_PARAMS'] = 'seed=%d max_success=%d' % (seed % (1 << 31), params['n'])
    r = subprocess.run([exe], stdout=subprocess.PIPE, stderr=subprocess.PIPE, env=env, timeout=1200)
    out = r.stdout.decode(errors='replace')
    mt = re.search(r'RC-STATS cases=(\d+) padded=(\d+) maxlen=(\d+) negative=(\d+) truncated=(\d+)', out)
    if mt:
        res['evaluations'] = int(mt.group(1))
        res['classes']['leb128_padded_roundtrip'] = int(mt.group(2))
        res['classes']['leb128_max_length'] = int(mt.group(3))
        res['classes']['leb128_truncated'] = int(mt.group(5))
        for i in range(int(mt.group(2))):
            res['nontrivial'].add('rc%d-%d-%d' % (seed, wid, i))
    if r.returncode != 0 or 'Falsifiable' in out:
        head = out[out.find('Falsifiable') - 200:][:900] if 'Falsifiable' in out else (out[-400:] + r.stderr.decode(errors='replace')[-800:])
        res['violations'].append({'signature': 'rc_leb128', 'summary': 'rapidcheck leb128 property failed: ' + head,
                                  'replay': {'kind': 'rc', 'seed': seed % (1 << 31), 'n': params['n'], 'output': head}})
    res['samples'].append('rapidcheck leb128: ' + (mt.group(0) if mt else out[-200:]))
    return res


def dispatch(wid, seed, params):
    if params.get('rc'):
        return rc_task(wid, seed, params)
    return task(wid, seed, params)


def replay(rp):
    if rp.get('kind') == 'rc':
        import subprocess
        exe = cexec.build_unit('rc_leb128.cpp', 'rc_leb128', RC_CMD, libs=['-lrapidcheck'])
        env = dict(os.environ)
        env.update(cexec.ASAN_ENV)
        env['RC_PARAMS'] = 'seed=%d max_success=%d' % (rp['seed'], rp['n'])
        r = subprocess.run([exe], stdout=subprocess.PIPE, stderr=subprocess.PIPE, env=env, timeout=1200)
        return r.returncode != 0 or b'Falsifiable' in r.stdout
    if rp.get('kind') != 'c08':
        return f1.case_replay(rp)
    canon = bytes.fromhex(rp['canon_hex'])
    var = bytes.fromhex(rp['variant_hex'])
    if rp.get('msan'):
        tr0, defs0, files0 = translate_defs(canon, rp.get('options', []))
        trm, defsm, filesm = translate_defs(var, rp.get('options', []), 'msan')
        return bool(f2.classify_run(trm)) or trm.rc != 0 or (canon == var and filesm != files0)
    tr0, defs0, files0 = translate_defs(canon, rp.get('options', []))
    tr, defs, files = translate_defs(var, rp.get('options', []))
    if tr0.rc != 0 or tr.rc != 0:
        return True
    if canon == var:
        return files != files0
    return defs != defs0


def plan(tier, seed):
    if tier == 'quick':
        return [{'rc': True, 'n': 20000}] + [{'ncases': 120, 'nenc': 4, 'run_every': 4} for _ in range(32)]
    # rapidcheck slows down super-linearly with max_success (80 000 cases take 10x the time of 20 000): many seeded runs of
    # 60 000 cases each instead of one long one
    return [{'rc': True, 'n': 60000} for _ in range(16)] + [{'ncases': 1000, 'nenc': 12, 'run_every': 3} for _ in range(64)]


def run(tier, seed):
    return f1.standard_run(ID, LEVEL, RULE, ASSUME, plan(tier, seed), dispatch, replay, tier, seed)
