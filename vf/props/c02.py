"""C02 — floating-point arithmetic and numeric conversions survive translation."""
import time

from .. import f1, gen, runner
from ..wasm import I32, I64, F32, F64

ID = 'C02'
LEVEL = 'exploration'
RULE = ('flat: every operator with a float operand or result (arithmetic, sqrt, min/max, rounding, abs/neg/copysign, '
        'comparisons, promote/demote, 16 trapping + 8 saturating truncations, 8 int->float conversions, 4 reinterprets) x '
        '(boundary pool x boundary pool, exhaustive) + seeded random bit patterns; expr: random mixed int/float expression '
        'trees with select/local.tee (moves), trapping truncations whose result is dropped or never read, comparisons consumed by '
        'i32.eqz / select / br_if at NaN operands. Results are compared bit-exactly, NaN by class where the spec is '
        'non-deterministic and bit-exactly for bit-preserving instructions, traps by code. Non-trivial = an operand is '
        'NaN/zero/inf/subnormal, a tie for nearest, within range of a truncation boundary, an int->float conversion that '
        'rounds, a demotion out of f32 range, or the evaluation traps; distinct by (operator or body, operands).')
ASSUME = ['reference interpreter calibrated against the spec-suite expectations in /repo/tests/gen (vf.spec); float '
          'arithmetic of the oracle = numpy float32/float64 scalar ops (IEEE, SSE) + exact integer/rational code for '
          'conversions',
          'x86-64 SSE: no excess precision, no FMA contraction at the flags used',
          'w2c2 is rebuilt from /repo working tree for every distinct source hash']

FEAT = gen.Features(ops=gen.ALL_OPS, types=(I32, I64, F32, F64), max_depth=5)


@f1.maker('c02_expr')
def make_expr(ch, params):
    nf = 8 + ch.below(params.get('nfuncs', 24))
    m = gen.expr_module(ch, FEAT, nf)
    # trapping truncations whose result is thrown away (drop / a local never read), and comparisons consumed by i32.eqz / select /
    # br_if right away: the trap happens whether or not the value is used, and a negated comparison is not the opposite comparison
    # when an operand is a NaN
    from ..wasm import Func
    for k in range(4):
        ft = ch.pick((F32, F64))
        it = ch.pick((I32, I64))
        op = '%s.trunc_%s_%s' % (it, ft, ch.pick(('s', 'u')))
        how = ch.below(3)
        body = [('local.get', 0), (op,)] + ([('drop',)] if how == 0 else [('local.set', 1)] if how == 1 else [('local.get', 0), (op,), ('%s.xor' % it,), ('drop',)])
        m.funcs.append(Func(m.type_index((ft,), (I32,)), [it] if how == 1 else [], body + [('i32.const', 7)]))
        m.exports.append((b'deadtrunc%d' % k, 'func', len(m.funcs) - 1))
    for k in range(4):
        ft = ch.pick((F32, F64))
        cmp_ = '%s.%s' % (ft, ch.pick(('lt', 'gt', 'le', 'ge', 'eq', 'ne')))
        how = ch.below(3)
        body = [('local.get', 0), ('local.get', 1), (cmp_,)]
        if how == 0:
            body += [('i32.eqz',)]
        elif how == 1:
            body = [('i32.const', 11), ('i32.const', 22)] + body + [('i32.eqz',), ('select',)]
        else:
            body = [('block', I32, [('i32.const', 5)] + body + [('i32.eqz',), ('br_if', 0), ('drop',), ('i32.const', 6)])]
        m.funcs.append(Func(m.type_index((ft, ft), (I32,)), [], body))
        m.exports.append((b'ncmp%d' % k, 'func', len(m.funcs) - 1))
    # an operator fed by an immediate that LOOKS like its identity or absorbing element (x - (-0), x + 0, x * 1, x / 1, min(x, inf),
    # x * 0 ...): IEEE arithmetic has fewer identities than the reals (signed zeros, NaN payloads, signalling NaNs), so a translator
    # or compiler that simplifies the window is wrong for exactly one or two operand patterns
    FC = {F32: (0x00000000, 0x80000000, 0x3f800000, 0xbf800000, 0x7f800000, 0xff800000, 0x7fc00000, 0x40000000, 0x3f000000),
          F64: (0x0000000000000000, 0x8000000000000000, 0x3ff0000000000000, 0xbff0000000000000, 0x7ff0000000000000,
                0xfff0000000000000, 0x7ff8000000000000, 0x4000000000000000, 0x3fe0000000000000)}
    for k in range(10):
        ft = ch.pick((F32, F64))
        c = ('%s.const' % ft, ch.pick(FC[ft][:6]) if ch.below(4) else ch.pick(FC[ft]))
        op = ('%s.%s' % (ft, ch.pick(('add', 'sub', 'sub', 'mul', 'div', 'min', 'max', 'copysign'))),)
        body = [('local.get', 0), c, op] if ch.below(3) else [c, ('local.get', 0), op]
        m.funcs.append(Func(m.type_index((ft,), (ft,)), [], body))
        m.exports.append((b'fident%d' % k, 'func', len(m.funcs) - 1))
    script = [('inst', 0)]
    fex = [(n, i) for n, kd, i in m.exports if kd == 'func']
    for e, (n, fi) in enumerate(fex):
        ps = m.func_type(fi)[0]
        for _ in range(params.get('nargs', 12) if ps else 1):
            script.append(('call', 0, e, gen.gen_args(ch, ps)))
        if n.startswith(b'fident'):
            for a in FC[ps[0]] + ((1, 0x80000001, 0x7f7fffff, 0x7fe00001, 0xffc00123) if ps[0] == F32 else
                                  (1, 0x8000000000000001, 0x7fefffffffffffff, 0x7ffc000000000001, 0xfff8000000000123)):
                script.append(('call', 0, e, [a]))
        if n.startswith(b'deadtrunc') or n.startswith(b'ncmp'):
            nan, inf, big = ((0x7fc00000, 0x7f800000, 0x5f800000) if ps[0] == F32 else (0x7ff8000000000000, 0x7ff0000000000000, 0x43f0000000000000))
            for a in (nan, inf, big, nan | 1, 0):
                script.append(('call', 0, e, [a] if len(ps) == 1 else [a, ch.pick((0, nan, inf))]))
                if len(ps) == 2:
                    script.append(('call', 0, e, [ch.pick((0, inf)), a]))
    return m, script, {'nontrivial_fn': f1.hazards_nontrivial, 'ninst': 1, 'independent': True}


def plan(tier, seed):
    ops = gen.FLOAT_OPS
    jobs = []
    if tier == 'quick':
        flat_ccs = ['gcc-O0-gnu89', 'clang-O2', 'clang-O2-gnu89']
        nrandom, nslices = 3000, 8
        ncases, nexpr = 40, 32
        expr_ccs = ['gcc-O0', 'clang-O2-gnu89', 'gcc-O2-gnu89', 'clang-O0']
    else:
        flat_ccs = ['gcc-O0', 'gcc-O2', 'gcc-O3', 'clang-O0', 'clang-O2', 'clang-O3', 'gcc-O2-gnu89']
        nrandom, nslices = 30000, 16
        ncases, nexpr = 300, 32
        expr_ccs = ['gcc-O0', 'clang-O2', 'gcc-O2', 'clang-O0', 'gcc-O3', 'clang-O3', 'gcc-O0-gnu89', 'clang-O2-gnu89']
    slices = [ops[i::nslices] for i in range(nslices)]
    for cc in flat_ccs:
        for sl in slices:
            jobs.append(('flat', {'ops': sl, 'cc': cc, 'nrandom': nrandom, 'full_pairs': True}))
    for i in range(nexpr):
        jobs.append(('case', {'maker': 'c02_expr', 'ncases': ncases, 'ccs': expr_ccs, 'nfuncs': 24, 'nargs': 12}))
    return jobs


def task(wid, seed, params):
    kind, p = params
    if kind == 'flat':
        return f1.flat_task(wid, seed, p)
    return f1.case_task(wid, seed, p)


def replay(rp):
    if rp.get('kind') == 'flat':
        return f1.flat_replay(rp)
    return f1.case_replay(rp)


def run(tier, seed):
    return f1.standard_run(ID, LEVEL, RULE, ASSUME, plan(tier, seed), task, replay, tier, seed)
