"""runner (E7): tiers, seeds, worker pool, replay files, evidence, known findings."""
import collections
import hashlib
import json
import multiprocessing
import os
import sys
import time
import traceback

VERIF = os.path.dirname(os.path.dirname(os.path.abspath(__file__)))
EVIDENCE = os.path.join(VERIF, 'evidence')
if os.environ.get('VERIF_REPO') or os.environ.get('VERIF_COVDIR'):
    # runs against a scratch tree (seeded changes, mutants) or in measurement mode never touch the evidence of /repo
    EVIDENCE = os.path.join(VERIF, '.cache', 'evidence-scratch')
REPLAYS = os.path.join(VERIF, 'replays')
KNOWN = os.path.join(VERIF, 'known_findings.json')
NPROC = int(os.environ.get('VERIF_JOBS', '16'))


def seed_from_env():
    try:
        s = int(os.environ.get('VERIF_SEED', '1'))
    except ValueError:
        s = 1
    return s if s != 0 else 0x5eed


def derive(seed, *parts):
    h = hashlib.sha256(repr((seed,) + parts).encode()).digest()
    return int.from_bytes(h[:8], 'little')


def h12(obj):
    return hashlib.sha256(json.dumps(obj, sort_keys=True, default=str).encode()).hexdigest()[:12]


class Result(object):
    """accumulated outcome of one check run"""

    def __init__(self):
        self.evaluations = 0
        self.nontrivial = set()
        self.classes = collections.Counter()
        self.samples = []
        self._sample_groups = []
        self.violations = []      # dicts: {'signature':..., 'replay': {...}, 'summary': ...}
        self.excluded = 0
        self.infra = []
        self.extra = {}

    def merge(self, d):
        self.evaluations += d.get('evaluations', 0)
        self.nontrivial.update(d.get('nontrivial', ()))
        self.classes.update(d.get('classes', {}))
        if d.get('samples'):
            self._sample_groups.append(list(d['samples']))
            self.samples = []
            i = 0
            while len(self.samples) < 6 and any(i < len(g) for g in self._sample_groups):
                # interleave: job kinds alternate in the job list, so stride over the groups
                step = max(len(self._sample_groups) // 6, 1)
                for g in self._sample_groups[::step]:
                    if i < len(g) and len(self.samples) < 6:
                        self.samples.append(g[i])
                i += 1
        self.violations.extend(d.get('violations', ()))
        self.excluded += d.get('excluded', 0)
        self.infra.extend(d.get('infra', ()))
        for k, v in d.get('extra', {}).items():
            if isinstance(v, (int, float)):
                self.extra[k] = self.extra.get(k, 0) + v
            else:
                self.extra[k] = v


def _worker(args):
    fn, wid, seed, params = args
    try:
        return fn(wid, seed, params)
    except Exception:
        return {'infra': ['worker %d crashed:\n%s' % (wid, traceback.format_exc())]}


def run_pool(fn, seed, params_list, nproc=None):
    """run fn(worker_id, derived_seed, params) over params_list in a process pool; returns list of result dicts"""
    jobs = [(fn, i, derive(seed, i), p) for i, p in enumerate(params_list)]
    nproc = min(nproc or NPROC, len(jobs)) or 1
    if nproc == 1:
        return [_worker(j) for j in jobs]
    ctx = multiprocessing.get_context('fork')
    with ctx.Pool(nproc) as pool:
        return list(pool.imap_unordered(_worker, jobs, chunksize=1))


def load_known():
    try:
        return json.load(open(KNOWN))
    except (OSError, ValueError):
        return {'findings': [], 'fixed': []}


def known_for(prop):
    return [f for f in load_known().get('findings', []) if f.get('property') == prop]


def write_replay(prop, replay):
    os.makedirs(REPLAYS, exist_ok=True)
    replay = dict(replay)
    replay['property'] = prop
    path = os.path.join(REPLAYS, '%s-%s.json' % (prop, h12(replay)))
    with open(path, 'w') as f:
        json.dump(replay, f, indent=1, sort_keys=True, default=str)
    return path


def write_evidence(prop, tier, seed, level, result, rule, wall, assumptions, nviol, extra_cov=None):
    os.makedirs(EVIDENCE, exist_ok=True)
    cov = {
        'evaluations': int(result.evaluations),
        'distinct_nontrivial': len(result.nontrivial),
        'rule': rule,
        'samples': result.samples[:6] or ['(none)'],
        'classes': dict(result.classes),
        'excluded_known_finding_shapes': int(result.excluded),
    }
    cov.update(result.extra)
    if extra_cov:
        cov.update(extra_cov)
    ev = {'property_id': prop, 'tier': tier, 'seed': int(seed), 'level': level, 'coverage': cov,
          'assumptions': assumptions, 'wall_s': round(wall, 2), 'violations': int(nviol)}
    path = os.path.join(EVIDENCE, prop + '.json')
    tmp = path + '.tmp'
    with open(tmp, 'w') as f:
        json.dump(ev, f, indent=1, sort_keys=True, default=str)
    try:
        import jsonschema
        schema = json.load(open('/root/.vp/EVIDENCE.schema.json'))
        jsonschema.validate(ev, schema)
    except ImportError:
        pass
    except OSError:
        pass
    os.rename(tmp, path)
    return path


def probe_with(replay_fn):
    """known-finding probe: the finding names a saved input; it 'still reproduces' when that input still fails"""
    def probe(finding):
        path = finding.get('probe')
        if not path:
            return None
        rp = json.load(open(os.path.join(VERIF, path)))
        return bool(replay_fn(rp))
    return probe


def corpus_violations(prop, replay_fn):
    """seconds-long replay tier: every saved input under corpus/<prop>/ must pass"""
    d = os.path.join(VERIF, 'corpus', prop)
    out = {'evaluations': 0, 'violations': [], 'infra': [], 'extra': {'corpus_replayed': 0}}
    if not os.path.isdir(d):
        return out
    for f in sorted(os.listdir(d)):
        if not f.endswith('.json') or f.startswith('kf-'):
            continue
        try:
            rp = json.load(open(os.path.join(d, f)))
            out['extra']['corpus_replayed'] += 1
            out['evaluations'] += 1
            if replay_fn(rp):
                out['violations'].append({'signature': 'corpus:' + f, 'summary': 'saved regression input %s fails again' % f,
                                          'replay': rp})
        except Exception:
            out['infra'].append('corpus replay %s crashed:\n%s' % (f, traceback.format_exc()))
    return out


def finish(prop, tier, seed, level, result, rule, assumptions, t0, replay_fn, known_probe_fn=None, extra_cov=None):
    """common tail of every check: known findings, confirmation of violations (3 replays), evidence, exit code"""
    known = known_for(prop)
    known_sigs = {f['signature']: f for f in known}
    # 1. known findings: probe each, print KNOWN-FINDING when it still reproduces
    if known_probe_fn is not None:
        for f in known:
            try:
                still = known_probe_fn(f)
            except Exception:
                still = None
                result.infra.append('known-finding probe %s crashed:\n%s' % (f.get('id'), traceback.format_exc()))
            if still:
                print('KNOWN-FINDING: property=%s %s' % (prop, f.get('what', f.get('id'))))
            elif still is False:
                print('note: known finding %s no longer reproduces' % f.get('id'))
    # 2. violations
    confirmed = []
    seen = set()
    for v in result.violations:
        sig = v.get('signature')
        if sig in known_sigs:
            continue
        if sig in seen:
            continue
        seen.add(sig)
        if len(confirmed) >= 5:
            break
        ok = 0
        for _ in range(3):
            try:
                if replay_fn(v['replay']):
                    ok += 1
            except Exception:
                result.infra.append('replay crashed:\n%s' % traceback.format_exc())
        if ok == 3:
            path = write_replay(prop, v['replay'])
            confirmed.append((v, path))
        else:
            result.infra.append('unconfirmed violation (%d/3 replays failed): %s | stderr: %s' % (ok, v.get('summary'), str(v['replay'].get('stderr', ''))[-600:]))
    wall = time.time() - t0
    if result.infra:
        result.extra['infrastructure_notes'] = result.infra[:10]
    for msg in result.infra[:10]:
        sys.stderr.write('INFRA: %s\n' % msg)
    if result.evaluations == 0 and not confirmed:
        # nothing ran (a generator or harness crash in every worker): a broken check, reported as such - never as a verdict
        sys.stderr.write('BROKEN-CHECK: nothing was evaluated\n')
        return 2
    write_evidence(prop, tier, seed, level, result, rule, wall, assumptions, len(confirmed), extra_cov)
    print('%s tier=%s seed=%d evaluations=%d distinct_nontrivial=%d excluded=%d wall=%.1fs' % (
        prop, tier, seed, result.evaluations, len(result.nontrivial), result.excluded, wall))
    if confirmed:
        for v, path in confirmed:
            print('  %s' % v.get('summary'))
            print('VIOLATION property=%s replay=%s' % (prop, path))
        return 1
    if result.evaluations == 0:
        sys.stderr.write('BROKEN-CHECK: nothing was evaluated\n')
        return 2
    if any('crashed' in m for m in result.infra) and result.evaluations < 10:
        return 2
    return 0
