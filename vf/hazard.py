"""Hazard classification of single numeric evaluations (the 'non-trivial' rules of C01/C02/C11)."""
from .interp import isnan32, isnan64, f32_val, f64_val
import math


def classify(op, a, b=None):
    """returns a tuple of hazard class names hit by evaluating `op` on bit patterns a (and b)"""
    t, _, n = op.partition('.')
    out = []
    if t in ('i32', 'i64') and not n.startswith('trunc') and not n.startswith('reinterpret'):
        bits = 32 if t == 'i32' else 64
        if n in ('wrap_i64',):
            bits = 64
        if n in ('extend_i32_s', 'extend_i32_u'):
            bits = 32
        M = (1 << bits) - 1
        SB = 1 << (bits - 1)
        if n in ('shl', 'shr_s', 'shr_u', 'rotl', 'rotr'):
            if b % bits == 0:
                out.append('count0')
            if b >= bits:
                out.append('count>=width')
            if n == 'shr_s' and a & SB:
                out.append('signbit')
        elif n in ('div_s', 'div_u', 'rem_s', 'rem_u'):
            if b == 0:
                out.append('div0')
            if b == M:
                out.append('div-1')
            if a == SB:
                out.append('dividendMIN')
            if n.endswith('_s') and ((a | b) & SB):
                out.append('signbit')
        elif n in ('clz', 'ctz', 'popcnt'):
            if a == 0:
                out.append('bits0')
            if a == M:
                out.append('bitsall')
        elif n in ('lt_s', 'gt_s', 'le_s', 'ge_s'):
            if (a ^ b) & SB:
                out.append('signbit')
        elif n in ('extend8_s', 'extend16_s', 'extend32_s', 'extend_i32_s'):
            w = {'extend8_s': 8, 'extend16_s': 16, 'extend32_s': 32, 'extend_i32_s': 32}[n]
            if a >> (w - 1) & 1:
                out.append('signbit')
            if a >> w:
                out.append('highbits')
        elif n == 'add':
            if a + b > M:
                out.append('carry')
        elif n == 'sub':
            if a < b:
                out.append('carry')
        elif n == 'mul':
            if a * b > M:
                out.append('carry')
        elif n == 'wrap_i64':
            if a >> 32:
                out.append('highbits')
        return tuple(out)
    # float-involving
    if n.startswith('convert'):
        src_bits = 32 if 'i32' in n else 64
        mant = 24 if t == 'f32' else 53
        v = a
        if n.endswith('_s') and v >> (src_bits - 1):
            v = (1 << src_bits) - v
            out.append('signbit')
        if v.bit_length() > mant and (v & ((1 << (v.bit_length() - mant)) - 1)):
            out.append('rounding')
        return tuple(out)
    if n.startswith('reinterpret'):
        isn = isnan32 if ('f32' in op) else isnan64
        if isn(a):
            out.append('nan')
        return tuple(out)
    # operands are floats
    if n.startswith('trunc_') or n.startswith('trunc_sat'):
        src32 = 'f32' in n
    else:
        src32 = t == 'f32' or n == 'promote_f32'
        if n == 'demote_f64':
            src32 = False
    isn = isnan32 if src32 else isnan64
    val = f32_val if src32 else f64_val
    absmask = 0x7fffffff if src32 else 0x7fffffffffffffff
    expmask = 0x7f800000 if src32 else 0x7ff0000000000000
    for x in (a,) if b is None else (a, b):
        ax = x & absmask
        if isn(x):
            out.append('nan')
        elif ax == 0:
            out.append('zero')
        elif ax == expmask:
            out.append('inf')
        elif ax & expmask == 0:
            out.append('subnormal')
    if n == 'nearest' and not isn(a):
        x = val(a)
        if not math.isinf(x) and abs(x - math.trunc(x)) == 0.5:
            out.append('tie')
    if (n.startswith('trunc_') or n.startswith('trunc_sat')) and not isn(a):
        x = val(a)
        if not math.isinf(x):
            for bnd in (-2147483648.0, 2147483648.0, 4294967296.0, -9223372036854775808.0, 9223372036854775808.0,
                        18446744073709551616.0, -1.0, 0.0):
                if abs(x - bnd) <= max(2.0, abs(bnd) * 1e-6):
                    out.append('truncboundary')
                    break
    if n == 'demote_f64' and not isn(a):
        x = abs(val(a))
        if x != 0 and (x > 3.4028234663852886e38 or x < 1.1754943508222875e-38):
            out.append('demote-range')
    return tuple(sorted(set(out)))


from . import interp as _interp
_interp.CLASSIFY = classify
