"""Typed, constructive generators of valid WebAssembly modules (E1 generators, DESIGN section 4)."""
from . import wasm
from .wasm import (I32, I64, F32, F64, NUMERIC, SAT, LOADS, STORES, Module, Func, natural_align)
from .pools import draw_value, draw_const, is_snan, quiet

EXCLUDED = {'snan_immediate': 0, 'clang_fold_demote_subnormal': 0}     # shapes excluded by construction because of a listed known finding

VTS = (I32, I64, F32, F64)
INTS = (I32, I64)
FLOATS = (F32, F64)

ALLNUM = dict(NUMERIC)
ALLNUM.update(SAT)


def _is_int_op(name):
    _, ps, r = ALLNUM[name]
    return all(p in INTS for p in ps) and r in INTS


INT_OPS = sorted(n for n in NUMERIC if _is_int_op(n))
FLOAT_OPS = sorted(n for n in ALLNUM if not _is_int_op(n))
ALL_OPS = sorted(ALLNUM)


def ops_by_result(names):
    d = {t: [] for t in VTS}
    for n in names:
        _, ps, r = ALLNUM[n]
        d[r].append((n, ps))
    return d


# ---------------------------------------------------------------------------------------------
# flat mode
# ---------------------------------------------------------------------------------------------
def flat_module(op_names):
    """one exported function per operator: (param...) -> result, body = local.get* op"""
    m = Module()
    for i, n in enumerate(op_names):
        _, ps, r = ALLNUM[n]
        t = m.type_index(ps, (r,))
        body = [('local.get', k) for k in range(len(ps))] + [(n,)]
        m.funcs.append(Func(t, [], body))
        m.exports.append((('f%d_' % i + n.replace('.', '_')).encode(), 'func', i))
    return m


# ---------------------------------------------------------------------------------------------
# general function-body generator
# ---------------------------------------------------------------------------------------------
class Features(object):
    def __init__(self, ops=ALL_OPS, types=VTS, control=False, calls=False, memory=False, globals_=False, dead_code=False,
                 trace=False, max_depth=5, stmts=False, atomics=False, bulk=False, avoid_traps=False, no_snan_consts=True):
        self.ops = ops_by_result(ops)
        self.types = tuple(types)
        self.control, self.calls, self.memory, self.globals, self.dead_code = control, calls, memory, globals_, dead_code
        self.trace = trace
        self.max_depth = max_depth
        self.stmts = stmts
        self.atomics = atomics
        self.bulk = bulk
        self.avoid_traps = avoid_traps
        self.dying_tails = control       # bodies that end in return / br / unreachable with operands left over
        # known finding C02-snan-immediate-gcc-forwarding: signalling-NaN immediates in bodies are replaced by quiet ones
        self.no_snan_consts = no_snan_consts


class FuncGen(object):
    """generates one function body. labels: list (innermost last) of result type | None | 'loop'"""

    def __init__(self, ch, m, feat, params, result, callable_funcs=(), trace_func=None, indirect=None, mem_mask=None):
        self.ch = ch
        self.m = m
        self.f = feat
        self.params = list(params)
        self.result = result
        self.locals = []                 # declared locals
        self.reserved = set()            # loop counters: never written by generated statements
        self.callable = list(callable_funcs)   # function indices that may be called (acyclic)
        self.trace_func = trace_func     # index of env.trace(i32) import or None
        self.indirect = indirect         # None or list of (table slot, type index) known-initialised
        self.mem_mask = mem_mask         # None or int: addresses are masked with it
        self.labels = []
        self.budget = 60 + ch.below(120)     # instruction budget per function
        self.stats = {}

    def note(self, k):
        self.stats[k] = self.stats.get(k, 0) + 1

    # ---- locals
    def local_of(self, t, writable=False):
        idxs = [i for i, lt in enumerate(self.params + self.locals) if lt == t and not (writable and i in self.reserved)]
        return idxs

    def new_local(self, t):
        self.locals.append(t)
        return len(self.params) + len(self.locals) - 1

    def widen_locals(self):
        """hundreds of declared locals of mixed types before the body is generated: local indices then need two (>= 128) or three
        (>= 16384) LEB128 bytes, exceed 255, and adjacent local.set / local.get pairs name locals that agree in their low bits"""
        ch = self.ch
        n = ch.pick((130, 200, 257, 300, 300, 520, 16390))
        types = self.f.types
        if n > 1000:
            self.locals.extend([ch.pick(types)] * n)          # one long run (compact declaration), cheap to compile
        else:
            self.locals.extend(ch.pick(types) for _ in range(n))
        self.note('wide_local_indices')

    def some_local(self, t, writable=False):
        idxs = self.local_of(t, writable)
        if not idxs or (len(self.locals) < 12 and self.ch.below(6) == 0):
            return self.new_local(t)
        return self.ch.pick(idxs)

    # ---- expressions
    def const(self, t):
        v = draw_const(self.ch, t)
        if self.f.no_snan_consts and is_snan(t, v):
            EXCLUDED['snan_immediate'] += 1
            v = quiet(t, v)
        return [('%s.const' % t, v)]

    def leaf(self, t):
        ch = self.ch
        k = ch.below(10)
        if k < 4:
            return self.const(t)
        idxs = self.local_of(t)
        if idxs and k < 9:
            return [('local.get', ch.pick(idxs))]
        if self.f.globals:
            gs = [g for g in range(self.m.n_globals()) if self.m.global_type(g)[0] == t]
            if gs:
                return [('global.get', ch.pick(gs))]
        if idxs:
            return [('local.get', ch.pick(idxs))]
        return self.const(t)

    def addr(self, depth, nbytes, atomic=False):
        """(instrs, align, offset) for an in-bounds access of nbytes"""
        ch = self.ch
        mask = self.mem_mask
        off = ch.pick((0, 0, 1, 2, 3, 4, 7, 8, 16, 255, 256, 1000, 4095, 4096, 0x7000))
        if atomic:
            off -= off % nbytes
            base_mask = mask & ~(nbytes - 1)
            align = natural_align(nbytes)
        else:
            base_mask = mask
            align = ch.below(natural_align(nbytes) + 1)
        ins = self.expr(I32, depth - 1) + [('i32.const', base_mask), ('i32.and',)]
        return ins, align, off

    def expr(self, t, depth):
        ch = self.ch
        f = self.f
        self.budget -= 1
        if depth <= 0 or self.budget <= 0:
            return self.leaf(t)
        choices = [(3, 'leaf'), (6, 'op')]
        choices.append((1, 'select'))
        choices.append((1, 'tee'))
        if f.control:
            choices += [(2, 'block'), (2, 'if'), (1, 'brblock'), (1, 'loopexpr'), (1, 'ladder')]
        if f.calls and (self.callable or self.indirect):
            choices.append((3, 'call'))
        if f.memory and self.mem_mask is not None:
            choices.append((3, 'load'))
            if t == I32:
                choices.append((1, 'memsize'))
        if f.atomics and self.mem_mask is not None and t in INTS:
            choices.append((3, 'atomic'))
        kind = ch.weighted(choices)
        if kind == 'leaf':
            return self.leaf(t)
        if kind == 'op':
            cands = f.ops[t]
            if not cands:
                return self.leaf(t)
            n, ps = ch.pick(cands)
            ps = tuple(ps)
            if any(p not in f.types for p in ps):
                return self.leaf(t)
            out = []
            for p in ps:
                out += self.expr(p, depth - 1)
            if f.avoid_traps or ch.below(4):
                out = self.detrap(n, ps, out, depth)
            self.note('op')
            return out + [(n,)]
        if kind == 'select':
            self.note('select')
            return self.expr(t, depth - 1) + self.expr(t, depth - 1) + self.expr(I32, depth - 1) + [('select',)]
        if kind == 'tee':
            self.note('tee')
            return self.expr(t, depth - 1) + [('local.tee', self.some_local(t, True))]
        if kind == 'block':
            self.note('block')
            self.labels.append(t)
            body = self.stmts(depth - 1, ch.below(3)) + self.expr(t, depth - 1)
            self.labels.pop()
            return [('block', t, body)]
        if kind == 'if':
            self.note('if')
            cond = self.expr(I32, depth - 1)
            self.labels.append(t)
            arms = []
            dying = ch.below(4) if self.f.control else 0        # 1: then-arm leaves by a branch, 2: else-arm, 3: both
            for which in (1, 2):
                if dying & which:
                    arms.append(self.stmts(depth - 1, ch.below(2)) + self.dying_tail(t, depth))
                    self.note('if_arm_ends_in_branch')
                else:
                    arms.append(self.stmts(depth - 1, ch.below(2)) + self.expr(t, depth - 1))
            self.labels.pop()
            return cond + [('if', t, arms[0], arms[1])]
        if kind == 'brblock':
            return self.brblock(t, depth)
        if kind == 'ladder':
            return self.ladder(t, depth)
        if kind == 'loopexpr':
            self.note('loop')
            return self.loop(t, depth)
        if kind == 'call':
            return self.call(t, depth)
        if kind == 'load':
            cands = [(n, d) for n, d in LOADS.items() if d[1] == t]
            n, d = ch.pick(cands)
            ins, align, off = self.addr(depth, d[2])
            self.note('load')
            return ins + [(n, align, off)]
        if kind == 'memsize':
            return [('memory.size',)]
        if kind == 'atomic':
            return self.atomic_expr(t, depth)
        return self.leaf(t)

    def detrap(self, n, ps, out, depth):
        """make trapping operators mostly well-defined (divisor != 0, truncation operand in range) without removing them"""
        name = n.split('.', 1)[1]
        t = n[:3]
        if name in ('div_s', 'div_u', 'rem_s', 'rem_u'):
            return out + [('%s.const' % t, 1), ('%s.or' % t,)]
        return out

    def brblock(self, t, depth):
        """block (result t) whose body branches out of it carrying a value, possibly with extra operands below"""
        ch = self.ch
        self.note('brblock')
        self.labels.append(t)
        body = self.stmts(depth - 1, ch.below(2))
        extra = []
        nextra = ch.below(3)
        for _ in range(nextra):
            et = ch.pick(self.f.types)
            extra.append(et)
            body += self.expr(et, depth - 2)
        if nextra:
            self.note('extra_operands')
        body += self.expr(t, depth - 1)
        k = ch.below(4)
        # choose a target label that carries type t: this block (0) or an enclosing one with the same result type
        targets = [d for d, lt in enumerate(reversed(self.labels)) if lt == t]
        tgt = ch.pick(targets)
        if tgt > 0:
            self.note('br_outer')
        if k == 0:
            body += self.expr(I32, depth - 2) + [('br_if', tgt)]
            # not taken: value + extras remain
            body += [('drop',)] + [('drop',)] * nextra + self.expr(t, depth - 2)
        elif k == 1:
            body += [('br', tgt)] + self.dead(t)
        elif k == 2:
            # br_table: all targets must have the same label type
            n = ch.below(5)
            tl = [ch.pick(targets) for _ in range(n)]
            body += self.expr(I32, depth - 2) + [('br_table', tl, ch.pick(targets))] + self.dead(t)
            self.note('br_table')
        else:
            if self.result == t:
                body += [('return',)] + self.dead(t)
                self.note('return_value')
            else:
                body += [('br', 0)] + self.dead(t)
        self.labels.pop()
        return [('block', t, body)]

    def ladder(self, t, depth):
        """2-4 nested blocks of the SAME result type, each entered at a different operand-stack height (an extra operand is pushed
        in front of each), the innermost one leaving by a value-carrying br_table / br_if / br whose targets are spread over the
        levels: the carried value has to land in the result slot of whichever level is chosen at run time.  After each level
        the value is marked (op with a level constant), so the level that received it shows in the result."""
        ch = self.ch
        self.note('ladder')
        n = 2 + ch.below(3)
        tmp = self.new_local(t)
        ets = [ch.pick(self.f.types) for _ in range(n)]
        base = len(self.labels)
        self.labels += [t] * n
        targets = list(range(n))
        body = self.expr(t, depth - 2)
        k = ch.below(4)
        if k == 3:
            body += self.expr(I32, depth - 2) + [('br_if', ch.pick(targets))]
        else:
            body += self.expr(I32, depth - 2) + [('br_table', [ch.pick(targets) for _ in range(ch.below(5))], ch.pick(targets))]
            self.note('br_table')
        mark = {I32: 'i32.add', I64: 'i64.xor', F32: 'f32.add', F64: 'f64.sub'}[t]
        for lvl in range(n):
            # close level lvl (innermost first): block, then remove the extra operand below the result and mark the value
            self.labels.pop()
            cv = (lvl + 1) * 0x101 if t in (I32, I64) else ((0x3f800000 + (lvl << 20)) if t == F32 else (0x3ff0000000000000 + (lvl << 48)))
            body = self.expr(ets[lvl], 1) + [('block', t, body), ('local.set', tmp), ('drop',), ('local.get', tmp), ('%s.const' % t, cv), (mark,)]
        assert len(self.labels) == base
        return body

    def dying_tail(self, t, depth):
        """instructions that never fall through: leave the innermost label of type t (or the function) by br / br_table / return
        / unreachable, with 0-2 extra operands below the carried value and possibly with no value at all, plus dead code"""
        ch = self.ch
        out = []
        nextra = ch.below(3)
        for _ in range(nextra):
            out += self.expr(ch.pick(self.f.types), depth - 2)
        if nextra:
            self.note('extra_operands')
        k = ch.below(6)
        targets = [d for d, lt in enumerate(reversed(self.labels)) if lt == t]
        void_targets = [d for d, lt in enumerate(reversed(self.labels)) if lt is None]
        if k == 0:
            return out + [('unreachable',)] + self.dead(t)
        if k == 1 and void_targets:
            self.note('br_void_from_value_context')
            return out + [('br', ch.pick(void_targets))] + self.dead(t)
        if k == 2 and self.result is not None:
            self.note('return_value')
            return out + self.expr(self.result, depth - 1) + [('return',)] + self.dead(t)
        if k == 3 and self.result is None:
            return out + [('return',)] + self.dead(t)
        if k == 4 and targets:
            self.note('br_table')
            tl = [ch.pick(targets) for _ in range(ch.below(4))]
            return out + self.expr(t, depth - 1) + self.expr(I32, depth - 2) + [('br_table', tl, ch.pick(targets))] + self.dead(t)
        if targets:
            tgt = ch.pick(targets)
            if tgt > 0:
                self.note('br_outer')
            return out + self.expr(t, depth - 1) + [('br', tgt)] + self.dead(t)
        return out + [('unreachable',)] + self.dead(t)

    def dead(self, t):
        """valid code after an unconditional branch (stack-polymorphic)"""
        ch = self.ch
        if not self.f.dead_code or ch.below(3) == 0:
            return []
        self.note('dead_code')
        out = []
        saved = self.budget
        self.budget = min(self.budget, 12)
        k = ch.below(5)
        if k == 0:
            # operators popping from the polymorphic stack
            for _ in range(1 + ch.below(3)):
                tt = ch.pick(self.f.types)
                cands = self.f.ops[tt]
                if cands:
                    out.append((ch.pick(cands)[0],))
                    out.append(('drop',))
        elif k == 1:
            out += self.stmts(2, 1 + ch.below(2))
        elif k == 2:
            # nested block with its own branch inside dead code
            self.note('dead_nested_block')
            tt = ch.pick(self.f.types)
            self.labels.append(tt)
            inner = self.expr(tt, 1) + [('br', 0)]
            self.labels.pop()
            out += [('block', tt, inner), ('drop',)]
        elif k == 3:
            out += [('unreachable',)]
        else:
            out += [('drop',), ('select',), ('drop',)]
        if ch.below(2):
            out += self.expr(t, 1)
        self.budget = saved
        return out

    def loop(self, t, depth):
        """loop computing into an accumulator; bounded by a reserved counter local"""
        ch = self.ch
        c = self.new_local(I32)
        self.reserved.add(c)
        acc = self.new_local(t)
        n = ch.below(4)
        self.labels.append(None)      # outer block (exit)
        self.labels.append('loop')
        body = self.stmts(depth - 1, ch.below(2))
        body += self.expr(t, depth - 1) + [('local.set', acc)]
        if ch.below(3) == 0:
            # early exit
            body += self.expr(I32, depth - 2) + [('br_if', 1)]
        body += [('local.get', c), ('i32.const', 1), ('i32.sub',), ('local.tee', c), ('i32.const', 0), ('i32.gt_s',),
                 ('br_if', 0)]
        self.labels.pop()
        self.labels.pop()
        return [('i32.const', n), ('local.set', c), ('block', None, [('loop', None, body)]), ('local.get', acc)]

    def call(self, t, depth):
        ch = self.ch
        m = self.m
        cands = [fi for fi in self.callable if m.func_type(fi)[1] == (t,)]
        icands = [(slot, ti) for slot, ti in (self.indirect or []) if m.types[ti][1] == (t,)]
        if not cands and not icands:
            return self.leaf(t)
        if icands and (not cands or ch.below(3) == 0):
            slot, ti = ch.pick(icands)
            out = []
            for p in m.types[ti][0]:
                out += self.expr(p, depth - 2)
            self.note('call_indirect')
            # index expression: constant slot, sometimes computed
            if ch.below(2):
                idx = [('i32.const', slot)]
            else:
                idx = [('i32.const', slot ^ 0x55), ('i32.const', 0x55), ('i32.xor',)]
            return out + idx + [('call_indirect', ti)]
        fi = ch.pick(cands)
        out = []
        for p in m.func_type(fi)[0]:
            out += self.expr(p, depth - 2)
        self.note('call')
        return out + [('call', fi)]

    def atomic_expr(self, t, depth):
        ch = self.ch
        from .wasm import ATOMIC_LOADS, ATOMIC_RMW, ATOMIC_CMPXCHG
        k = ch.below(3)
        if k == 0:
            n, d = ch.pick([(n, d) for n, d in sorted(ATOMIC_LOADS.items()) if d[1] == t])
            ins, align, off = self.addr(depth, d[2], True)
            return ins + [(n, align, off)]
        if k == 1:
            n, d = ch.pick([(n, d) for n, d in sorted(ATOMIC_RMW.items()) if d[1] == t])
            ins, align, off = self.addr(depth, d[2], True)
            return ins + self.expr(t, depth - 1) + [(n, align, off)]
        n, d = ch.pick([(n, d) for n, d in sorted(ATOMIC_CMPXCHG.items()) if d[1] == t])
        ins, align, off = self.addr(depth, d[2], True)
        return ins + self.expr(t, depth - 1) + self.expr(t, depth - 1) + [(n, align, off)]

    # ---- statements (net stack effect zero)
    def stmts(self, depth, n):
        out = []
        if not self.f.stmts:
            return out
        for _ in range(n):
            if self.budget <= 0:
                break
            out += self.stmt(depth)
        return out

    def stmt(self, depth):
        ch = self.ch
        f = self.f
        self.budget -= 1
        choices = [(4, 'set'), (1, 'drop'), (1, 'nop')]
        if f.globals:
            choices.append((2, 'gset'))
        if f.control and depth > 0:
            choices += [(2, 'if'), (1, 'block'), (1, 'brif'), (1, 'loop')]
        if f.trace and self.trace_func is not None:
            choices.append((3, 'trace'))
        if f.memory and self.mem_mask is not None:
            choices.append((3, 'store'))
            if f.bulk:
                choices.append((1, 'bulk'))
        if f.calls and self.callable:
            choices.append((1, 'vcall'))
        if len(self.params) + len(self.locals) > 300 and f.stmts:
            choices.append((4, 'alias'))
        kind = ch.weighted(choices)
        t = ch.pick(f.types)
        if kind == 'alias':
            # local.set X directly followed by local.get Y where X and Y agree in their low 7 / 8 bits (index bytes that look
            # alike to anything comparing single bytes of the encoding); Y's value goes to a third local of its type
            nloc = len(self.params) + len(self.locals)
            allt = self.params + self.locals
            xs = [i for i in range(128, nloc) if i not in self.reserved and i >= len(self.params)]
            if xs:
                x = ch.pick(xs)
                ys = [y for y in (x % 256, x % 128, x % 256 + 256, x % 128 + 128, x - 128, x - 256) if 0 <= y < nloc and y != x]
                if ys:
                    y = ch.pick(ys)
                    self.note('set_get_alias_pair')
                    return self.expr(allt[x], depth) + [('local.set', x), ('local.get', y), ('local.set', self.some_local(allt[y], True))]
            kind = 'set'
        if kind == 'set':
            return self.expr(t, depth) + [('local.set', self.some_local(t, True))]
        if kind == 'drop':
            return self.expr(t, depth) + [('drop',)]
        if kind == 'nop':
            return [('nop',)]
        if kind == 'gset':
            gs = [g for g in range(self.m.n_globals()) if self.m.global_type(g)[1] and self.m.global_type(g)[0] in f.types]
            if not gs:
                return [('nop',)]
            g = ch.pick(gs)
            return self.expr(self.m.global_type(g)[0], depth) + [('global.set', g)]
        if kind == 'if':
            self.note('if_stmt')
            cond = self.expr(I32, depth - 1)
            self.labels.append(None)
            th = self.stmts(depth - 1, 1 + ch.below(2))
            el = self.stmts(depth - 1, 1 + ch.below(2)) if ch.below(2) else None
            if el is None:
                self.note('if_without_else')
            self.labels.pop()
            return cond + [('if', None, th, el)]
        if kind == 'block':
            self.labels.append(None)
            body = self.stmts(depth - 1, 1 + ch.below(3))
            if ch.below(2):
                # branch out of a void label (this or an enclosing void one)
                targets = [d for d, lt in enumerate(reversed(self.labels)) if lt is None]
                body += self.expr(I32, depth - 1) + [('br_if', ch.pick(targets))]
                body += self.stmts(depth - 1, ch.below(2))
            self.labels.pop()
            return [('block', None, body)]
        if kind == 'brif':
            targets = [d for d, lt in enumerate(reversed(self.labels)) if lt is None]
            if not targets:
                return [('nop',)]
            self.note('br_if_void')
            return self.expr(I32, depth - 1) + [('br_if', ch.pick(targets))]
        if kind == 'loop':
            self.note('loop')
            c = self.new_local(I32)
            self.reserved.add(c)
            n = ch.below(4)
            self.labels.append(None)
            self.labels.append('loop')
            body = self.stmts(depth - 1, 1 + ch.below(2))
            body += [('local.get', c), ('i32.const', 1), ('i32.sub',), ('local.tee', c), ('i32.const', 0), ('i32.gt_s',),
                     ('br_if', 0)]
            self.labels.pop()
            self.labels.pop()
            return [('i32.const', n), ('local.set', c), ('block', None, [('loop', None, body)])]
        if kind == 'trace':
            self.note('trace')
            return self.expr(I32, depth - 1) + [('call', self.trace_func)]
        if kind == 'store':
            n, d = ch.pick(sorted(STORES.items()))
            if d[1] not in f.types:
                return [('nop',)]
            ins, align, off = self.addr(depth, d[2])
            self.note('store')
            return ins + self.expr(d[1], depth - 1) + [(n, align, off)]
        if kind == 'bulk':
            return self.bulk(depth)
        if kind == 'vcall':
            cands = [fi for fi in self.callable if self.m.func_type(fi)[1] == ()]
            if not cands:
                return [('nop',)]
            fi = ch.pick(cands)
            out = []
            for p in self.m.func_type(fi)[0]:
                out += self.expr(p, depth - 2)
            return out + [('call', fi)]
        return [('nop',)]

    def bulk(self, depth):
        ch = self.ch
        half = (self.mem_mask + 1) // 2 - 1

        def a():
            return self.expr(I32, depth - 1) + [('i32.const', half), ('i32.and',)]
        k = ch.below(2)
        self.note('bulk')
        if k == 0:
            return a() + a() + a() + [('memory.copy',)]
        return a() + self.expr(I32, depth - 1) + a() + [('memory.fill',)]

    # ---- whole body
    def function_tail(self):
        """the function body itself ends in an unconditional branch: return / br to the function label / unreachable, with 0-2
        operands left on the stack below the carried value (valid: the rest is stack-polymorphic), then possibly dead code.
        The translator's bookkeeping at the end of such a body is not the ordinary fall-through one."""
        ch = self.ch
        self.note('function_level_dying_tail')
        tail = []
        for _ in range(ch.below(3)):
            tail += self.expr(ch.pick(self.f.types), 2)
        k = ch.below(3)
        if k == 0:
            tail.append(('unreachable',))
        else:
            if self.result is not None:
                tail += self.expr(self.result, 2)
            tail.append(('return',) if k == 1 else ('br', len(self.labels)))
        if self.f.dead_code and ch.below(2):
            saved = self.budget
            self.budget = min(self.budget, 8)
            tail += self.stmts(1, 1)
            self.budget = saved
        return tail

    def body(self):
        out = self.stmts(self.f.max_depth, self.ch.below(4))
        if getattr(self.f, 'dying_tails', False) and self.ch.below(5) == 0:
            return out + self.function_tail()
        if self.result is None:
            out += self.stmts(self.f.max_depth, 1 + self.ch.below(3))
            if not out:
                out = [('nop',)]
            return out
        self.labels.append(self.result)
        out += self.expr(self.result, self.f.max_depth)
        self.labels.pop()
        return out


NO_SNAN_ARGS = True    # known finding C02-snan-*: signalling-NaN call arguments of case-mode scripts are quieted (counted)


def gen_args(ch, params):
    out = []
    for p in params:
        v = draw_value(ch, p)
        if NO_SNAN_ARGS and is_snan(p, v):
            EXCLUDED['snan_immediate'] += 1
            v = quiet(p, v)
        out.append(v)
    return out


def expr_module(ch, feat, nfuncs, result_types=None, max_params=4):
    """module of independent exported functions built from the given feature set"""
    m = Module()
    for i in range(nfuncs):
        np_ = ch.below(max_params + 1)
        params = [ch.pick(feat.types) for _ in range(np_)]
        res = ch.pick(result_types or feat.types)
        g = FuncGen(ch, m, feat, params, res)
        if ch.below(16) == 0:
            g.widen_locals()
        body = g.body()
        t = m.type_index(params, (res,))
        m.funcs.append(Func(t, g.locals, body))
        m.exports.append((b'e%d' % i, 'func', i))
    return m


# ---------------------------------------------------------------------------------------------
# general modules: imports, globals, table, memory, call graph
# ---------------------------------------------------------------------------------------------
def general_module(ch, feat, nfuncs=8, host_funcs=0, with_trace=False, nglobals=0, table=False, memory=None,
                   max_params=4, recursion=False, imported_table=False, imported_globals=0):
    """returns (module, info) ; info['stats'] = generator feature counters per function index"""
    m = Module()
    info = {'stats': {}, 'static': {}}
    trace_idx = None
    # imports first (function index space starts with imports)
    if with_trace:
        m.imports.append((b'env', b'trace', 'func', m.type_index((I32,), ())))
        trace_idx = 0
    # import names: now and then names whose C spellings are neighbours under the translator's escaping (a character next to the
    # literal text of its own escape, runs of underscores, a module name starting with a digit): the mapping must stay injective
    exotic = host_funcs >= 2 and ch.below(4) == 0
    tricky = [b'a.b', b'aX2Eb', b'h$', b'hX24', b'X', b'X58', b'a_b', b'a__b', b'a___b', b'p-q', b'pX2Dq', b'_', b'__']
    used_names = set()
    shared_sig = None
    for h in range(host_funcs):
        np_ = ch.below(9) if ch.below(3) == 0 else ch.below(4)
        ps = [ch.pick(feat.types) for _ in range(np_)]
        rs = () if ch.below(4) == 0 else (ch.pick(feat.types),)
        mod, nm = b'env', b'h%d' % h
        if exotic:
            mod = ch.pick((b'env', b'env', b'e.nv', b'eX2Env', b'1env'))
            nm = ch.pick(tricky)
            if (mod, nm) in used_names:
                mod, nm = b'env', b'h%d' % h
            elif shared_sig is not None and ch.below(2):
                ps, rs = shared_sig          # colliding spellings would at least be declaration-compatible: only behaviour shows it
            else:
                shared_sig = (ps, rs)
            info['static']['exotic_import_names'] = 1
        elif h >= 1 and ch.below(5) == 0:
            # the same field name and the same type as the previous import, from another import module: two different host functions
            # (two C identifiers), each needing its own declaration
            prev = m.imports[-1]
            pps, prs = m.types[prev[3]]
            mod, nm, ps, rs = ch.pick((b'aux', b'env2', b'wasi_unstable')), prev[1], list(pps), tuple(prs)
            if (mod, nm) in used_names:
                mod = mod + b'%d' % h
            info['static']['same_field_other_module'] = 1
        used_names.add((mod, nm))
        m.imports.append((mod, nm, 'func', m.type_index(ps, rs)))
    for g in range(imported_globals):
        m.imports.append((b'env', b'ig%d' % g, 'global', (I32 if g == 0 else ch.pick(feat.types), False)))
    if imported_table:
        m.imports.append((b'env', b'tab', 'table', (16 + ch.below(16), None)))
    nimp = m.n_imported_funcs()
    for g in range(nglobals):
        t = ch.pick(feat.types)
        gv = draw_const(ch, t)
        if feat.no_snan_consts and is_snan(t, gv):
            EXCLUDED['snan_immediate'] += 1
            gv = quiet(t, gv)
        m.globals.append((t, bool(ch.below(3)), ('%s.const' % t, gv)))
    mem_mask = None
    if memory is not None:
        m.memory = memory
        m.exports.append((b'mem', 'memory', 0))
        mem_mask = 0x3fff
    # decide signatures up front so that later functions can call earlier ones and tables can be planned
    sigs = []
    for i in range(nfuncs):
        np_ = ch.below(9) if (max_params >= 8 and ch.below(3) == 0) else ch.below(min(max_params, 4) + 1)
        ps = [ch.pick(feat.types) for _ in range(np_)]
        rs = None if (feat.stmts and ch.below(6) == 0) else ch.pick(feat.types)
        sigs.append((ps, rs))
    extra = []
    if recursion == 'locals':
        extra = selfrec_templates(ch, m, nimp + nfuncs)
        if ch.below(2) == 0:
            extra += twin_templates(ch, m)
    elif recursion:
        extra = recursion_templates(ch, m, nimp + nfuncs)
        extra += selfrec_templates(ch, m, nimp + nfuncs + len(extra))
        if ch.below(3) == 0:
            extra += twin_templates(ch, m)
    nall = nimp + nfuncs + len(extra)
    view = _SigView(m, nimp, sigs, extra)
    # table + element segments
    indirect = None
    if table or imported_table:
        tsize = 16 if imported_table else 8 + ch.below(24)
        if not imported_table:
            m.table = (tsize, None if ch.below(2) else tsize + ch.below(4))
        indirect_map = {}
        seg_ranges, overwritten = [], set()
        nseg = 1 + ch.below(4)
        for s in range(nseg):
            ln = 1 + ch.below(5)
            use_g = bool(imported_globals) and ch.below(2) == 0
            # segments whose offsets come from different sources (an immediate, the embedder's global) are made to overlap on
            # purpose half of the time: which entry a slot ends up with is decided at instantiation, in segment order
            other = [r for r in seg_ranges if r[2] != use_g]
            if use_g:
                off = None          # offset = imported global 0 (value fixed by the harness: see info['glob_values'])
                if 'elem_global_value' not in info and other and ch.below(2):
                    ob, ol, _ = ch.pick(other)
                    info['elem_global_value'] = max(0, min(ob + ch.below(ol), max(tsize - ln, 1) - 1))
                base = info.setdefault('elem_global_value', ch.below(max(tsize - ln, 1)))
                offins = ('global.get', 0)
            else:
                base = ch.below(max(tsize - ln, 1))
                if other and ch.below(2):
                    ob, ol, _ = ch.pick(other)
                    base = max(0, min(ob + ch.below(ol) - ch.below(ln), max(tsize - ln, 1) - 1))
                offins = ('i32.const', base)
            seg_ranges.append((base, ln, use_g))
            fl = []
            for k in range(ln):
                fi = ch.below(nall)
                fl.append(fi)
                if base + k in indirect_map:
                    overwritten.add(base + k)
                indirect_map[base + k] = fi       # later segments win
            m.elems.append((offins, fl))
        info['table_map'] = indirect_map
        info['table_overwritten'] = sorted(overwritten)
    for i in range(nfuncs):
        ps, rs = sigs[i]
        fidx = nimp + i
        callable_ = list(range(nimp)) + [nimp + j for j in range(i)] + [nimp + nfuncs + k for k in range(len(extra))]
        if trace_idx is not None and trace_idx in callable_:
            callable_.remove(trace_idx)
        ind = None
        if (table or imported_table):
            # only slots whose final target is an import, an earlier function or a template (keeps the call graph acyclic)
            ind = []
            for slot, fi in sorted(info['table_map'].items()):
                if fi < nimp or fi < fidx or fi >= nimp + nfuncs:
                    ft = view.func_type(fi)
                    ind.append((slot, m.type_index(ft[0], ft[1])))
        g = FuncGen(ch, m, feat, ps, rs, callable_funcs=callable_ if feat.calls else (), trace_func=trace_idx,
                    indirect=ind, mem_mask=mem_mask)
        # functions that are not generated yet have no entry in m.funcs: give the generator a view of all signatures
        g.m = view
        if ch.below(20) == 0:
            g.widen_locals()
        body = g.body()
        t = m.type_index(ps, (rs,) if rs else ())
        m.funcs.append(Func(t, g.locals, body))
        m.exports.append((b'e%d' % i, 'func', fidx))
        info['stats'][fidx] = g.stats
    for k, f in enumerate(extra):
        m.funcs.append(f)
        m.exports.append((b'r%d' % k, 'func', nimp + nfuncs + k))
    # constant-index indirect calls, one exported function per chosen slot (slots written by more than one segment first): the
    # index is an immediate, so everything about the call is known at translation time - except what instantiation put in the slot
    if (table or imported_table) and info.get('table_map'):
        tm = info['table_map']
        ow = [s_ for s_ in info.get('table_overwritten', []) if s_ in tm]
        rest = [s_ for s_ in sorted(tm) if s_ not in ow]
        chosen = ow[:3] + ([ch.pick(rest)] if rest else [])
        cargs = {I32: ('i32.const', 3), I64: ('i64.const', 5), F32: ('f32.const', 0x3fc00000), F64: ('f64.const', 0x4004000000000000)}
        for s_ in chosen:
            fi = tm[s_]
            if trace_idx is not None and fi == trace_idx:
                continue
            ft = view.func_type(fi)
            body = [cargs[p] for p in ft[0]] + [('i32.const', s_), ('call_indirect', m.type_index(ft[0], ft[1]))]
            m.funcs.append(Func(m.type_index((), ft[1]), [], body))
            m.exports.append((b'cslot%d' % s_, 'func', nimp + len(m.funcs) - 1))
            info.setdefault('static', {})['constant_index_call_of_overwritten_slot' if s_ in ow else 'constant_index_call'] = True
    # re-export some imported functions (the export wrapper then forwards to the host function)
    for fi in range(nimp):
        if fi != trace_idx and ch.below(3) == 1:
            m.exports.append((b'xi%d' % fi, 'func', fi))
            info.setdefault('reexported_imports', []).append(fi)
    return m, info


class _SigView(object):
    """module facade used while bodies are being generated: answers type queries for not-yet-emitted functions"""

    def __init__(self, m, nimp, sigs, extra):
        self._m, self._nimp, self._sigs, self._extra = m, nimp, sigs, extra

    def __getattr__(self, k):
        return getattr(self._m, k)

    def func_type(self, fidx):
        if fidx < self._nimp:
            return self._m.func_type(fidx)
        i = fidx - self._nimp
        if i < len(self._sigs):
            ps, rs = self._sigs[i]
            return (tuple(ps), (rs,) if rs else ())
        return self._m.types[self._extra[i - len(self._sigs)].type]


def recursion_templates(ch, m, base):
    """bounded recursive functions (factorial, fibonacci, even/odd mutual recursion, each with an i32 fuel-like argument)"""
    out = []
    t = ch.pick((I32, I64))
    ty = m.type_index((t,), (t,))
    me = base + len(out)
    # fac(n) = n <= 1 ? 1 : n * fac(n-1)      (argument masked to 0..15)
    out.append(Func(ty, [], [
        ('local.get', 0), ('%s.const' % t, 15), ('%s.and' % t,), ('local.tee', 0), ('%s.const' % t, 2), ('%s.lt_u' % t,),
        ('if', t, [('%s.const' % t, 1)],
         [('local.get', 0), ('local.get', 0), ('%s.const' % t, 1), ('%s.sub' % t,), ('call', me), ('%s.mul' % t,)])]))
    me = base + len(out)
    out.append(Func(ty, [], [
        ('local.get', 0), ('%s.const' % t, 15), ('%s.and' % t,), ('local.tee', 0), ('%s.const' % t, 2), ('%s.lt_u' % t,),
        ('if', t, [('local.get', 0)],
         [('local.get', 0), ('%s.const' % t, 1), ('%s.sub' % t,), ('call', me),
          ('local.get', 0), ('%s.const' % t, 2), ('%s.sub' % t,), ('call', me), ('%s.add' % t,)])]))
    ty2 = m.type_index((I32,), (I32,))
    ev, od = base + len(out), base + len(out) + 1
    out.append(Func(ty2, [], [('local.get', 0), ('i32.const', 63), ('i32.and',), ('local.tee', 0), ('i32.eqz',),
                              ('if', I32, [('i32.const', 1)], [('local.get', 0), ('i32.const', 1), ('i32.sub',), ('call', od)])]))
    out.append(Func(ty2, [], [('local.get', 0), ('i32.const', 63), ('i32.and',), ('local.tee', 0), ('i32.eqz',),
                              ('if', I32, [('i32.const', 0)], [('local.get', 0), ('i32.const', 1), ('i32.sub',), ('call', ev)])]))
    return out


def twin_templates(ch, m):
    """functions whose BODIES ARE BYTE-IDENTICAL but whose signatures differ (the body touches its parameters only through
    type-agnostic instructions: local.get / set / tee, select, drop, return): whatever a translator shares between equal bodies
    (hashes, caches, merged output), each function still works on values of its own types"""
    out = []
    bodies = ([('local.get', 0)], [('local.get', 0), ('local.get', 1), ('local.get', 2), ('select',)],
              [('local.get', 1), ('local.set', 0), ('local.get', 0)], [('local.get', 0), ('drop',), ('local.get', 1)],
              [('local.get', 0), ('local.tee', 1), ('drop',), ('local.get', 1), ('return',)],
              [('local.get', 1), ('local.get', 0), ('local.get', 2), ('select',), ('local.tee', 0), ('return',)])
    bi = ch.below(len(bodies))
    body = bodies[bi]
    np_ = (1, 3, 2, 2, 2, 3)[bi]
    types = [I32, I64, F32, F64]
    if ch.below(2):
        # a longer generated body (tens of bytes) over k value parameters of one type and a trailing i32 condition: moves between
        # the parameters, selects, drops, nops and void if/else arms - nothing in its bytes names a value type
        k = 2 + ch.below(3)
        depth = [0]

        def moves(n):
            b = []
            for _ in range(n):
                o = ch.below(7)
                if o < 2 or depth[0] == 0:
                    b.append(('local.get', ch.below(k)))
                    depth[0] += 1
                elif o == 2:
                    b.append(('local.tee', ch.below(k)))
                elif o == 3:
                    b.append(('local.set', ch.below(k)))
                    depth[0] -= 1
                elif o == 4 and depth[0] >= 2:
                    b += [('local.get', k), ('select',)]
                    depth[0] -= 1
                elif o == 5:
                    b.append(('nop',))
                else:
                    b.append(('drop',))
                    depth[0] -= 1
            return b
        body = moves(4 + ch.below(12))
        if ch.below(2):
            d0 = depth[0]
            depth[0] = 0
            arms = []
            for _ in range(2):
                a = moves(2 + ch.below(5))
                a += [('drop',)] * depth[0]
                depth[0] = 0
                arms.append(a)
            depth[0] = d0
            body += [('local.get', k), ('if', None, arms[0], arms[1])] + moves(2 + ch.below(6))
        while depth[0] > 1:
            body += [('local.get', k), ('select',)] if ch.below(2) else [('drop',)]
            depth[0] -= 1
        if depth[0] == 0:
            body.append(('local.get', ch.below(k)))
        if ch.below(3) == 0:
            body.append(('return',))
        for _ in range(2 + ch.below(3)):
            t = types.pop(ch.below(len(types)))
            out.append(Func(m.type_index((t,) * k + (I32,), (t,)), [], [tuple(i) if i[0] != 'if' else ('if', None, list(i[2]), list(i[3])) for i in body]))
            if not types:
                break
        return out
    for _ in range(2 + ch.below(3)):
        t = types.pop(ch.below(len(types)))
        ps = (t,) * np_ if np_ < 3 else (t, t, I32)
        out.append(Func(m.type_index(ps, (t,)), [], list(body)))
        if not types:
            break
    return out


def selfrec_templates(ch, m, base):
    """recursive functions WITH declared locals that are read at entry (a fresh activation sees zeros), made non-zero before the
    recursive call, and a self / mutual call in every position a translator might treat specially: last instruction of the body,
    in front of `return`, at the end of an if/else arm or a block, and not in tail position.  f(n, acc) = acc + step * (n & 31)."""
    out = []
    for _ in range(1 + ch.below(3)):
        t = ch.pick((I32, I64))
        locs = [ch.pick((I32, I64, F32, F64)) for _ in range(1 + ch.below(3))]
        step = 1 + ch.below(5)
        pos = ch.below(6)
        ty = m.type_index((I32, t), (t,))
        me = base + len(out)
        other = me + 1 if pos == 5 else me

        def entry():
            b = []
            for li, lt in enumerate(locs):
                ne = [('local.get', 2 + li), ('%s.const' % lt, 0), ('%s.ne' % lt,)]
                if t == I64:
                    ne.append(('i64.extend_i32_u',))
                b += [('local.get', 1)] + ne + [('%s.const' % t, 1000 * (li + 1)), ('%s.mul' % t,), ('%s.add' % t,), ('local.set', 1)]
            return b

        def dirty():
            b = []
            for li, lt in enumerate(locs):
                if lt in (I32, I64):
                    b += [('%s.const' % lt, 100 + li), ('local.set', 2 + li)]
                else:
                    # float immediates are bit patterns: 1.5f / 1.5 (+ li in the low significand bits)
                    b += [('%s.const' % lt, (0x3fc00000 if lt == F32 else 0x3ff8000000000000) + li), ('local.set', 2 + li)]
            return b
        args = [('local.get', 0), ('i32.const', 1), ('i32.sub',), ('local.get', 1), ('%s.const' % t, step), ('%s.add' % t,)]

        def fn(callee, p):
            head = entry() + [('local.get', 0), ('i32.const', 31), ('i32.and',), ('local.tee', 0), ('i32.eqz',)]
            if p == 2:
                return head + [('if', t, [('local.get', 1)], dirty() + args + [('call', callee)])]
            body = head + [('if', None, [('local.get', 1), ('return',)], [])] + dirty()
            if p == 4:
                return body + [('block', t, args + [('call', callee)])]
            body += args + [('call', callee)]
            if p == 1:
                body.append(('return',))
            elif p == 3:
                body += [('%s.const' % t, 0), ('%s.add' % t,)]
            return body
        out.append(Func(ty, list(locs), fn(other, pos if pos != 5 else ch.below(3))))
        if pos == 5:
            out.append(Func(ty, list(locs), fn(me, ch.below(3))))
    return out


def call_script(ch, m, nargs=8, inst=0):
    script = []
    fex = [(n, i) for n, kd, i in m.exports if kd == 'func']
    for e, (n, fi) in enumerate(fex):
        ps = m.func_type(fi)[0]
        for _ in range(nargs if ps else 1):
            script.append(('call', inst, e, gen_args(ch, ps)))
    return script
