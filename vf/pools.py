"""Boundary-value pools (bit patterns) for the four value types."""
import struct

from .wasm import I32, I64, F32, F64

M32 = 0xffffffff
M64 = 0xffffffffffffffff


def _f32(x):
    return struct.unpack('<I', struct.pack('<f', x))[0]


def _f64(x):
    return struct.unpack('<Q', struct.pack('<d', x))[0]


def int_pool(bits):
    M = (1 << bits) - 1
    s = set()
    for v in (0, 1, 2, 3, -1, -2, -3, 31, 32, 33, 63, 64, 65, 7, 8, 15, 16, 0x7f, 0x80, 0xff, 0x100, 0x7fff, 0x8000, 0xffff,
              0x10000, 0x7fffffff, 0x80000000, 0xffffffff, 0x100000000, 0x7fffffffffffffff, 0x8000000000000000,
              0x55555555, 0xaaaaaaaa, 0x5555555555555555, 0xaaaaaaaaaaaaaaaa, 0x0f0f0f0f, 0x12345678, 0x80000001,
              0xfffffffe, 0x8000000000000001, 0xfffffffffffffffe, 0xdeadbeef, 0x0123456789abcdef, 10, 100, 1000,
              -(1 << (bits - 1)), -(1 << (bits - 1)) + 1, (1 << (bits - 1)) - 1, (1 << (bits - 1)) - 2):
        s.add(v & M)
    for k in range(bits):
        s.add((1 << k) & M)
        s.add(((1 << k) - 1) & M)
        s.add(((1 << k) + 1) & M)
        s.add((-(1 << k)) & M)
    return sorted(s)


I32_POOL = int_pool(32)
I64_POOL = int_pool(64)

_F32_VALUES = [0.0, 1.0, 0.5, 1.5, 2.5, 3.5, 0.1, 1 / 3.0, 2.0, 3.0, 10.0, 100.0, 255.0, 256.0, 65535.0, 65536.0, 0.25, 0.75,
               0.49999997, 0.9999999, 1.0000001, 8388607.5, 8388608.0, 8388609.0, 16777216.0, 16777217.0, 4194304.5,
               2147483648.0, 2147483520.0, 2147483904.0, 4294967296.0, 4294967040.0, 4294967808.0,
               9223372036854775808.0, 9223371487098961920.0, 9223373136366403584.0, 18446744073709551616.0,
               18446742974197923840.0, 1e10, 1e20, 1e30, 3.4028234663852886e38, 1.1754943508222875e-38,
               1.401298464324817e-45, 1.1754942106924411e-38, 1e-10, 1e-20, 0.99999994, 123456.789, 3.14159274]
_F64_VALUES = [0.0, 1.0, 0.5, 1.5, 2.5, 3.5, 0.1, 1 / 3.0, 2.0, 3.0, 10.0, 100.0, 0.25, 0.75, 0.49999999999999994,
               0.9999999999999999, 1.0000000000000002, 4503599627370495.5, 4503599627370496.0, 4503599627370497.0,
               9007199254740992.0, 9007199254740993.0, 2251799813685248.5, 2147483647.0, 2147483648.0, 2147483649.0,
               2147483647.9999998, 2147483648.0000005, 2147483648.9999995, 4294967295.0, 4294967296.0, 4294967295.9999995,
               4294967296.000001, 9223372036854775808.0, 9223372036854774784.0, 9223372036854777856.0,
               18446744073709551616.0, 18446744073709549568.0, 18446744073709555712.0, 1e10, 1e100, 1e300,
               1.7976931348623157e308, 2.2250738585072014e-308, 5e-324, 2.225073858507201e-308, 2.2250738585072011e-308,
               8.98846567431158e307, 1e23, 1e-10, 1e-100, 0.9999999999999999, 123456.789, 3.141592653589793,
               16777216.0, 16777217.0, 3.4028234663852886e38, 3.4028235677973366e38, 1.401298464324817e-45,
               7.006492321624085e-46, 1.1754943508222875e-38, 0.9999999403953552, 0.99999997]


def float_pool(t):
    s = set()
    if t == F32:
        for v in _F32_VALUES:
            s.add(_f32(v))
            s.add(_f32(-v))
        for b in (0x7f800000, 0xff800000, 0x7fc00000, 0xffc00000, 0x7fa00000, 0xffa00000, 0x7f800001, 0xff800001,
                  0x7fffffff, 0xffffffff, 0x7fc00001, 0x7fe00000, 0x7f812345, 0xffd54321, 0x00000001, 0x80000001,
                  0x007fffff, 0x807fffff, 0x00800000, 0x80800000, 0x7f7fffff, 0xff7fffff, 0x3f800001, 0x3f7fffff,
                  0xbf800001, 0xbf7fffff, 0x4effffff, 0x4f000000, 0xcf000000, 0xcf000001, 0x4f7fffff, 0x4f800000,
                  0x5effffff, 0x5f000000, 0xdf000000, 0xdf000001, 0x5f7fffff, 0x5f800000, 0xbf7fffff, 0x4b000000,
                  0x4b000001, 0x4affffff, 0x3effffff, 0x3f000000, 0x3f000001):
            s.add(b)
    else:
        for v in _F64_VALUES:
            s.add(_f64(v))
            s.add(_f64(-v))
        for b in (0x7ff0000000000000, 0xfff0000000000000, 0x7ff8000000000000, 0xfff8000000000000, 0x7ff4000000000000,
                  0xfff4000000000000, 0x7ff0000000000001, 0xfff0000000000001, 0x7fffffffffffffff, 0xffffffffffffffff,
                  0x7ff8000000000001, 0x7ffc000000000000, 0x7ff0000000800000, 0x7ff8000000800000, 0x7ff0000001000000,
                  0xfff0000020000000, 0x7ff0123456789abc, 0xfffdcba987654321, 0x7ff00000007fffff, 0x7ff8000000400000,
                  0x0000000000000001, 0x8000000000000001, 0x000fffffffffffff, 0x800fffffffffffff, 0x0010000000000000,
                  0x8010000000000000, 0x7fefffffffffffff, 0xffefffffffffffff, 0x3ff0000000000001, 0x3fefffffffffffff,
                  0xbff0000000000001, 0xbfefffffffffffff, 0x41dfffffffc00000, 0x41e0000000000000, 0xc1e0000000000000,
                  0xc1e0000000200000, 0xc1e00000001fffff, 0x41efffffffe00000, 0x41f0000000000000, 0x41efffffffffffff,
                  0x43dfffffffffffff, 0x43e0000000000000, 0xc3e0000000000000, 0xc3e0000000000001, 0x43efffffffffffff,
                  0x43f0000000000000, 0x4330000000000000, 0x4330000000000001, 0x432fffffffffffff, 0x3fdfffffffffffff,
                  0x3fe0000000000000, 0x3fe0000000000001, 0x47efffffe0000000, 0x47efffffefffffff, 0x47effffff0000000,
                  0x36a0000000000000, 0x3690000000000000, 0x3690000000000001, 0x380fffffffffffff, 0x3810000000000000):
            s.add(b)
    return sorted(s)


F32_POOL = float_pool(F32)
F64_POOL = float_pool(F64)
POOL = {I32: I32_POOL, I64: I64_POOL, F32: F32_POOL, F64: F64_POOL}
BITS = {I32: 32, I64: 64, F32: 32, F64: 64}


def convert_patterns(src_bits, mant):
    """integer sources of an int->float conversion around its rounding decisions: for every position p of the leading bit that
    makes the source wider than the significand (mant bits): the exact tie, tie+1 / tie-1 (sticky bit decides), ties with odd and
    even kept parts, all-ones (carry into the next binade); each also negated (two's complement) for the signed conversions"""
    M = (1 << src_bits) - 1
    out = set()
    for p in range(mant, src_bits):
        lead = 1 << p
        half = 1 << (p - mant)            # weight of half an ulp of the result
        ulp = half << 1
        for kept in (0, ulp, lead - ulp, (lead >> 1) | ulp if p > mant else 0):
            base = lead | (kept & (lead - 1) & ~(ulp - 1))
            for low in (half - 1, half, half + 1, ulp - 1, 1, 0):
                if low < 0 or low >= ulp:
                    continue
                v = (base | low) & M
                out.add(v)
                out.add((-v) & M)
        out.add(((lead << 1) - 1) & M)
    return sorted(out)


def demote_patterns():
    """f64 bit patterns around the rounding decisions of f32.demote_f64: 29 dropped significand bits at tie, tie+-1, for normal
    f32 results, for results in the f32 subnormal range (more bits dropped) and at the overflow / underflow thresholds"""
    out = set()
    for e in (1023, 1023 + 1, 1023 - 1, 1023 + 127, 1023 - 126, 1023 - 127, 1023 - 130, 1023 - 140, 1023 - 149, 1023 - 150, 1023 + 60):
        for hi in (0, 1 << 29, 0xfffffffe0000000 & ((1 << 52) - 1), 0x8000000000000 | (1 << 29)):
            for low in (0x0fffffff, 0x10000000, 0x10000001, 0x1fffffff, 1, 0):
                m = (hi & ~0x1fffffff) | low
                v = (e << 52) | (m & ((1 << 52) - 1))
                out.add(v)
                out.add(v | (1 << 63))
        # subnormal results: the tie position moves up by (1023-126-e) bits
        d = 1023 - 126 - e
        if 0 < d < 24:
            tie = 1 << (28 + d)
            for kept in (0, tie << 1):
                for low in (tie - 1, tie, tie + 1):
                    m = (kept | low) & ((1 << 52) - 1)
                    out.add((e << 52) | m)
                    out.add((e << 52) | m | (1 << 63))
    return sorted(out)


def _text_pool(t):
    """values whose DECIMAL TEXT is a hazard for whoever prints them as C literals: one digit and an exponent (1e+10), whole
    numbers without a decimal point of every magnitude (incl. beyond 2^24 / 2^32 / 2^53 and not representable in the narrower
    float type), powers of ten and their neighbours, values needing every significant digit"""
    s = set()
    if t in (F32, F64):
        conv = _f32 if t == F32 else _f64
        kmax, kmin = (38, -45) if t == F32 else (308, -323)
        for k in range(kmin, kmax + 1):
            for d in (1, 2, 5, 9):
                try:
                    v = conv(float('%de%d' % (d, k)))
                except OverflowError:
                    continue
                s.add(v)
                if k % 7 == 0:
                    s.add(v + 1)
                    s.add(v - 1 if v else v)
        for k in range(1, 64 if t == F64 else 40):
            for dlt in (-1, 0, 1):
                x = float((1 << k) + dlt)
                try:
                    s.add(conv(x))
                    s.add(conv(-x))
                except OverflowError:
                    pass
        for x in (1e10 + 1, 1e15 + 1, 1e16 + 2, 123456789012.0, 9007199254740991.0, 4294967297.0, 1099511627777.0, 999999999.0, 99999999.0,
                  16777217.0, 33554433.0, 1e17, 1e16, 12345678.0, 7.0, 1000000.0):
            s.add(conv(x))
            s.add(conv(-x))
        if t == F32:
            # floats with a SHORT decimal (7-8 significant digits, found by exhaustive search over all decimals of up to 8 digits)
            # whose nearest double is exactly the midpoint between two adjacent floats: a literal written with fewer than 9 digits
            # and without an f suffix is rounded twice by the C compiler (decimal -> double -> float) and lands on the neighbour.
            # Both neighbours of each pair, both signs.
            for a, b in ((0x15ae43fd, 0x15ae43fe), (0x0a4170a7, 0x0a4170a8), (0x128289d1, 0x128289d0), (0x152e43fd, 0x152e43fe),
                         (0x162e43fd, 0x162e43fe), (0x16ae43fd, 0x16ae43fe), (0x172e43fd, 0x172e43fe), (0x78fee4af, 0x78fee4b0),
                         (0x797ee4af, 0x797ee4b0)):
                for v in (a, b):
                    s.add(v)
                    s.add(v | 0x80000000)
    else:
        bits = BITS[t]
        M = (1 << bits) - 1
        for k in range(0, 20):
            for d in (1, 9):
                for sg in (1, -1):
                    s.add((sg * d * 10 ** k) & M)
        # immediates whose LEB128 bytes beyond the 1st / 5th look like structural opcodes (end, else, block, loop, if, br, br_if,
        # br_table, return, call): a decoder that stops skipping an immediate too early re-reads them as instructions
        for opb in (0x0b, 0x05, 0x02, 0x03, 0x04, 0x0c, 0x0d, 0x0e, 0x0f, 0x10):
            for shift in (7, 28, 35, 42, 56):
                if shift < bits:
                    s.add((opb << shift) & M)
                    s.add(((opb << shift) | 0x7f) & M)
        for nbytes in range(1, 11):
            # boundaries of the signed LEB128 length classes: +-2^(7n-1) and neighbours
            for dlt in (-1, 0, 1):
                s.add(((1 << (7 * nbytes - 1)) + dlt) & M)
                s.add((-(1 << (7 * nbytes - 1)) + dlt) & M)
    return sorted(s)


TEXT_POOL = None


def draw_const(ch, t):
    """immediate of a t.const: like draw_value, but a third of the time from the decimal-text / encoding-length hazard pool"""
    global TEXT_POOL
    if TEXT_POOL is None:
        TEXT_POOL = {tt: _text_pool(tt) for tt in (I32, I64, F32, F64)}
    if ch.below(3) == 0:
        p = TEXT_POOL[t]
        return p[ch.below(len(p))]
    return draw_value(ch, t)


def draw_value(ch, t):
    """value (bit pattern) of type t: pool member, few-bits pattern, small number or uniform random bits"""
    k = ch.below(10)
    bits = BITS[t]
    if k < 5:
        return POOL[t][ch.below(len(POOL[t]))]
    if k < 6:
        return ch.below(17)
    if k < 7:
        v = 0
        for _ in range(1 + ch.below(3)):
            v |= 1 << ch.below(bits)
        return v
    if k < 8 and t in (F32, F64):
        # a "reasonable" float: small integer or simple fraction
        n = ch.below(2001) - 1000
        d = (1, 2, 4, 3, 10)[ch.below(5)]
        x = n / float(d)
        return _f32(x) if t == F32 else _f64(x)
    return ch.bits(bits)


def is_snan(t, v):
    if t == F32:
        return (v & 0x7f800000) == 0x7f800000 and (v & 0x007fffff) != 0 and not (v & 0x00400000)
    if t == F64:
        return (v & 0x7ff0000000000000) == 0x7ff0000000000000 and (v & 0x000fffffffffffff) != 0 and not (v & 0x0008000000000000)
    return False


def quiet(t, v):
    return v | (0x00400000 if t == F32 else 0x0008000000000000)


# ---------------------------------------------------------------------------------------------------------------------------------
# contents and sizes of data segments.  However a translator writes segment bytes into C (array initialisers, string literals, an
# external blob) and however it splits large objects, memory must hold exactly the module's bytes: byte runs that mean something
# inside a C string or character literal (quotes, backslashes, trigraphs - which strict ISO modes still replace -, line splices,
# escapes followed by further digits or hex digits, comment markers, '%'), and segment lengths around 2^k, 32767 (C90's minimum object
# size limit), 65535 and their multiples.
SEGMENT_TOKENS = [b'??/', b'??=', b'??(', b'??)', b"??'", b'??!', b'??<', b'??>', b'??-', b'???/', b'??/\n', b'\\', b'"', b"'", b'%', b'%s%n',
                  b'\n', b'\r', b'\\n', b'\\\n', b'*/', b'/*', b'//', b'\\x41', b'\\101', b'\\u0041', b'\x00', b'\x0012', b'\x01a', b'\x07f', b'\x1b[0m',
                  b'\x7f', b'\x80', b'\xff', b'\xff\xfe', b'\x0a\x0d', b'?', b'??', b'sure??! (y/n)', b'a\\', b'\\"', b'0', b'9', b'a', b'F', b' ', b'\t',
                  b'\xc3\xa9', b'\xf0\x9f\x98\x80', b'#include', b'R"(', b'L"', b'u8"', b'<:', b':>', b'<%', b'%>', b'%:']
SEGMENT_SIZES = [255, 256, 257, 509, 510, 4095, 4096, 4097, 32766, 32767, 32768, 32769, 65533, 65534, 65535, 65536, 65537, 98301, 98304,
                 100000, 131068, 131071]


def segment_text(ch, ln):
    """ln bytes made of tokens that are hazardous inside C literals"""
    out = b''
    while len(out) < ln:
        out += ch.pick(SEGMENT_TOKENS)
    return out[:ln]


def segment_big(ch, limit, seed=0):
    """(length, bytes) of a large segment: a length from SEGMENT_SIZES (or a multiple of 32767 / 65535) that fits `limit`, contents a
    cheap byte sequence without long periods, with hazard text at the start, around every multiple of 32767 and at the end"""
    sizes = [z for z in SEGMENT_SIZES + [32767 * (2 + ch.below(3)), 65535 * (1 + ch.below(2)), 65536 * (1 + ch.below(2)) + ch.below(3) - 1] if z <= limit]
    if not sizes:
        return None
    ln = ch.pick(sizes)
    data = bytearray(((i * 7 + (i >> 8) * 13 + (i >> 16) * 101 + seed) & 0xff) for i in range(ln))
    marks = [0, max(ln - 16, 0)] + [k for k in range(32767 - 8, ln - 16, 32767)]
    for k in marks:
        t = segment_text(ch, 16)
        data[k:k + 16] = t[:max(0, min(16, ln - k))]
    return ln, bytes(data[:ln])
