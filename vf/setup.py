"""setup_cmd: offline framework preparation = oracle calibration + warm build of the translator variants."""
import sys
import time


def main():
    t0 = time.time()
    from . import spec, cexec
    stats, failures = spec.calibrate()
    print('oracle calibration: %d assert_return ok, %d assert_trap ok, %d invalid modules rejected, %d failures' % (
        stats['assert_return_ok'], stats['assert_trap_ok'], stats['invalid_rejected'], len(failures)))
    for f in failures[:20]:
        print('  ' + f)
    if failures or stats['assert_return_ok'] < 20000:
        print('ORACLE-SELFTEST-FAILED')
        return 2
    for v in ('plain', 'asan'):
        cexec.w2c2_binary(v)
    from . import sched
    probs = sched.selftest()
    for pr in probs:
        print('  ' + pr)
    if probs:
        print('VSCHED-SELFTEST-FAILED')
        return 2
    print('vsched self-test ok (unlocked counter {1,2}; locked {2}; if-instead-of-while fails only with spurious wake-ups; '
          'lock-order inversion reaches deadlock)')
    print('setup ok in %.1fs' % (time.time() - t0))
    return 0


if __name__ == '__main__':
    sys.exit(main())
