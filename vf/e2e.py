"""End-to-end case execution: the same call script runs on the reference interpreter and on the compiled w2c2 output."""
import os

import collections

from . import wasm, interp, cexec, hazard
from .wasm import I32, I64, F32, F64

W = {I32: 8, I64: 16, F32: 8, F64: 16}


def fmt_val(v, t):
    if isinstance(v, interp.NDNaN):
        return 'nan32' if t == F32 else 'nan64'
    return '%0*x' % (W[t], v)


class ModelRun(object):
    """expected transcript of a script; stops (truncates) at the first indeterminate / out-of-contract step"""

    def __init__(self, m, script, ninst=2, byteorder='little'):
        self.m = m
        self.byteorder = byteorder
        self.trace = []
        self.objs = {}
        self.bind = {}
        self.insts = {}
        self.lines = []          # expected driver output lines
        self.script_lines = []   # driver input lines actually to be sent
        self.steps = []          # (script op, [expected lines]) for reporting
        self.truncated = None
        self.stats = {'calls': 0, 'traps': 0, 'ooc': 0, 'indet': 0}
        self.hz = collections.Counter()
        self.call_hz = []        # per call step: set of hazard classes hit
        self.ev = collections.Counter()
        self.call_ev = []        # per call step: set of path events
        fimps = m.imported('func')
        self.host = [interp.HostFunc(i, m.types[imp[3]], self.trace, imp[1]) for i, imp in enumerate(fimps)]
        self.fexports = [(n, i) for n, kd, i in m.exports if kd == 'func']
        for op in script:
            before = len(self.lines)
            try:
                line = self.step(op)
            except interp.Indeterminate as e:
                self.stats['indet'] += 1
                self.truncated = 'indeterminate: %s' % e
                del self.lines[before:]
                break
            except interp.OutOfContract as e:
                self.stats['ooc'] += 1
                self.truncated = 'out-of-contract: %s' % e
                del self.lines[before:]
                break
            if line is not None:
                self.script_lines.append(line)
            self.steps.append((op, self.lines[before:]))

    def flush_trace(self):
        for _, idx, tag, args in self.trace:
            ft = self.host[idx].ftype
            self.lines.append('H %d %d%s' % (idx, tag, ''.join(' ' + fmt_val(a, t) for a, t in zip(args, ft[0]))))
        del self.trace[:]

    def imports_for(self, k):
        imp = {}
        fi = 0
        for gi, (mod, name, kind, desc) in enumerate(self.m.imports):
            if kind == 'func':
                imp[(mod, name)] = self.host[fi]
                fi += 1
            else:
                imp[(mod, name)] = self.objs[(kind, self.bind[(k, gi)])]
        return imp

    def step(self, op):
        o = op[0]
        m = self.m
        if o == 'newmem':
            _, k, mn, mx, shared = op
            self.objs[('memory', k)] = interp.Memory(mn, mx, shared)
            self.lines.append('N ok')
            return 'N m %d %d %d %d' % (k, mn, -1 if mx is None else mx, 1 if shared else 0)
        if o == 'newtab':
            _, k, mn, mx = op
            self.objs[('table', k)] = interp.Table(mn, mx)
            self.lines.append('N ok')
            return 'N t %d %d %d 0' % (k, mn, -1 if mx is None else mx)
        if o == 'setglob':
            _, k, vt, bits = op
            cell = self.objs.get(('global', k))
            if cell is None:
                self.objs[('global', k)] = interp.GlobalCell(vt, True, bits)
            else:
                cell.value = bits
            self.lines.append('S ok')
            return 'S %d %d %x' % (k, 4 if vt in (I32, F32) else 8, bits)
        if o == 'getglob':
            _, k = op
            cell = self.objs[('global', k)]
            if isinstance(cell.value, interp.NDNaN):
                raise interp.Indeterminate('nd nan in global')
            self.lines.append('G %016x' % cell.value)
            return 'G %d' % k
        if o == 'bind':
            _, k, gi, obj = op
            self.bind[(k, gi)] = obj
            self.lines.append('B ok')
            return 'B %d %d %d' % (k, gi, obj)
        if o == 'inst':
            _, k = op
            try:
                inst = interp.Instance(m, self.imports_for(k), tag=k, hazards=self.hz, events=self.ev, byteorder=self.byteorder)
                self.insts[k] = inst
                self.flush_trace()
                self.lines.append('I ok')
            except interp.Trap as e:
                self.flush_trace()
                self.lines.append('T %d' % e.kind)
            return 'I %d' % k
        if o == 'child':
            # <module>NewChild(parent): a further instance created through the parent's newChild hook - for a module without a shared
            # memory it is an instance like any other (own memory, table, globals, start function run once), resolved like the parent
            _, k, parent = op
            try:
                imps = {}
                fi = 0
                for gi, (mod, name, kind, desc) in enumerate(self.m.imports):
                    if kind == 'func':
                        imps[(mod, name)] = self.host[fi]
                        fi += 1
                    else:
                        imps[(mod, name)] = self.objs[(kind, self.bind[(parent, gi)])]
                        self.bind[(k, gi)] = self.bind[(parent, gi)]
                inst = interp.Instance(m, imps, tag=k, hazards=self.hz, events=self.ev, byteorder=self.byteorder)
                self.insts[k] = inst
                self.flush_trace()
                self.lines.append('K %d' % k)
            except interp.Trap as e:
                self.flush_trace()
                self.lines.append('T %d' % e.kind)
            return 'K %d' % parent
        if o == 'freechild':
            _, k = op
            self.insts.pop(k, None)
            self.lines.append('f ok')
            return 'f %d' % k
        if o == 'hostlimit':
            # the driver process lowers its address-space limit (RLIMIT_AS) to `pages` pages on top of what it uses now: allocations
            # of twice that size fail from here on
            _, pages = op
            for inst in self.insts.values():
                inst.host_limit_pages = pages
            self.lines.append('L ok')
            return 'L %d' % pages
        if o == 'mayfail':
            # from here on a memory.grow beyond 1 GiB is executed: it may legitimately fail for lack of memory, so its expected
            # line lists both outcomes; the model continues as if it had failed (scripts using this touch nothing size-dependent)
            self.alt_grow = True
            for inst in self.insts.values():
                inst.may_fail_alt = True
            return None
        if o == 'call':
            _, k, e, args = op
            inst = self.insts[k]
            name, fidx = self.fexports[e]
            ps, rs = m.func_type(fidx)
            self.stats['calls'] += 1
            inst.fuel = 200000
            self.hz.clear()
            self.ev.clear()
            try:
                res = inst.invoke(fidx, list(args))
                self.flush_trace()
                if getattr(inst, 'alt_old', None) is not None and rs and rs[0] == I32:
                    self.lines.append('R ffffffff || R %08x' % inst.alt_old)
                    inst.alt_old = None
                else:
                    self.lines.append('R ' + (fmt_val(res[0], rs[0]) if rs else 'void'))
            except interp.Trap as ex:
                self.stats['traps'] += 1
                self.flush_trace()
                self.lines.append('T %d' % ex.kind)
            finally:
                inst.depth = 0
                del self.trace[:]
                self.call_hz.append(frozenset(self.hz))
                self.call_ev.append(frozenset(self.ev))
            return 'C %d %d%s' % (k, e, ''.join(' %x' % a for a in args))
        if o == 'mem':
            _, k = op
            mem = self.insts[k].mem
            self.lines.append('M %d %08x' % (mem.pages, mem.crc()))
            return 'M %d' % k
        if o == 'dump':
            _, k, off, ln = op
            mem = self.insts[k].mem
            self.lines.append('D ' + bytes(mem.data[off:off + ln]).hex())
            return 'D %d %d %d' % (k, off, ln)
        if o == 'glob':
            _, k, gi = op
            cell = self.insts[k].globals[gi]
            self.lines.append('g ' + fmt_val(cell.value, cell.vt))
            return 'g %d %d' % (k, gi)
        if o == 'slot':
            _, k, s = op
            t = self.insts[k].table.elems[s]
            if t is None:
                self.lines.append('t null')
            elif isinstance(t, interp.HostFunc):
                self.lines.append('t %d' % t.index)
            elif t[0].m is m:
                self.lines.append('t %d' % t[1])
            else:
                self.lines.append('t ?')
            return 't %d %d' % (k, s)
        raise AssertionError(op)


def line_matches(exp, act):
    if exp == act:
        return True
    if ' || ' in exp:
        return any(line_matches(e, act) for e in exp.split(' || '))
    if exp.endswith('nan32') and act[:-8] == exp[:-5] and len(act) >= 8:
        try:
            return interp.isnan32(int(act[-8:], 16))
        except ValueError:
            return False
    if exp.endswith('nan64') and act[:-16] == exp[:-5] and len(act) >= 16:
        try:
            return interp.isnan64(int(act[-16:], 16))
        except ValueError:
            return False
    return False


def first_mismatch(expected, actual):
    """index of first differing line or None"""
    for i, e in enumerate(expected):
        if i >= len(actual) or not line_matches(e, actual[i]):
            return i
    if len(actual) > len(expected):
        return len(expected)
    return None


class Built(object):
    """a translated + compiled module in a scratch directory"""

    def __init__(self, m, wasm_bytes=None, name='m', w2c2_options=(), w2c2_variant='plain', cc='gcc', cflags=('-O0',),
                 ninst=2, workdir=None, knobs=None):
        self.m = m
        self.name = name
        self.dir = workdir or cexec.new_dir()
        self.own = workdir is None
        self.wasm = wasm_bytes if wasm_bytes is not None else wasm.encode(m, knobs)
        self.modname = cexec.module_c_name(name)
        self.tr = cexec.translate(self.wasm, self.dir, name, w2c2_options, w2c2_variant)
        self.error = None          # ('translate'|'compile', text)
        self.cc, self.cflags = cc, tuple(cflags)
        if self.tr.rc != 0:
            self.error = ('translate', 'exit %r\n%s' % (self.tr.rc, self.tr.err.decode(errors='replace')[-4000:]))
            return
        try:
            header = open(os.path.join(self.dir, name + '.h')).read()
        except (OSError, UnicodeDecodeError) as e:
            header = open(os.path.join(self.dir, name + '.h'), errors='replace').read()
        self.header = header
        prefix = '-m' in w2c2_options
        drv = cexec.gen_driver(m, self.modname, header, ninst=ninst, header_name=name + '.h', prefix_funcs=prefix)
        with open(os.path.join(self.dir, 'driver.c'), 'w') as f:
            f.write(drv)
        cfiles = [f for f in sorted(os.listdir(self.dir)) if f.endswith('.c')]
        self.cfiles = cfiles
        extra = []
        if os.path.exists(os.path.join(self.dir, 'datasegments')):
            # -d gnu-ld: the data segments live in a side file that the linker embeds as a binary blob
            r = cexec.run(['ld', '-r', '-b', 'binary', 'datasegments', '-o', 'datasegments.o'], cwd=self.dir)
            if r.returncode != 0:
                self.error = ('compile', 'ld -r -b binary datasegments failed: ' + r.stderr.decode(errors='replace')[-2000:])
                return
            extra = ['datasegments.o']
        r = cexec.compile_driver(self.dir, cfiles, cc, cflags, threads=cexec.needs_threads(m), extra=extra)
        if r.returncode != 0:
            self.error = ('compile', r.stderr.decode(errors='replace')[-6000:])

    def run(self, script_lines, timeout=20, unbuffered=False):
        return cexec.run_driver(self.dir, script_lines, timeout=timeout, env={'VF_UNBUF': '1'} if unbuffered else None)

    def close(self):
        if self.own:
            cexec.rm(self.dir)


def default_setup(m, ninst=1, glob_values=None):
    """script prefix creating + binding one object per non-function import and instantiating instance 0..ninst-1"""
    ops = []
    k = 0
    for gi, (mod, name, kind, desc) in enumerate(m.imports):
        if kind == 'func':
            continue
        if kind == 'memory':
            ops.append(('newmem', k, desc[0], desc[1], len(desc) > 2 and bool(desc[2])))
        elif kind == 'table':
            ops.append(('newtab', k, desc[0], desc[1]))
        else:
            v = (glob_values or {}).get(gi, 0)
            ops.append(('setglob', k, desc[0], v))
        for i in range(ninst):
            ops.append(('bind', i, gi, k))
        k += 1
    for i in range(ninst):
        ops.append(('inst', i))
    return ops
