"""Entry point: ./check <ID> [--tier quick|thorough] [--replay file] | ./check --setup"""
import argparse
import importlib
import json
import os
import sys

sys.path.insert(0, os.path.dirname(os.path.dirname(os.path.abspath(__file__))))

from vf import runner  # noqa: E402


def main():
    ap = argparse.ArgumentParser()
    ap.add_argument('prop', nargs='?')
    ap.add_argument('--tier', default=os.environ.get('VERIF_TIER', 'quick'))
    ap.add_argument('--replay')
    ap.add_argument('--setup', action='store_true')
    a = ap.parse_args()
    if a.setup:
        from vf import setup
        return setup.main()
    if not a.prop:
        ap.error('property id required')
    tier = a.tier if a.tier in ('quick', 'thorough') else 'quick'
    mod = importlib.import_module('vf.props.' + a.prop.lower())
    from vf import cexec
    cexec.prune_cache()
    if a.replay:
        rp = json.load(open(a.replay))
        fails = mod.replay(rp)
        if fails:
            print('VIOLATION property=%s replay=%s' % (a.prop, a.replay))
            return 1
        print('replay passes: %s' % a.replay)
        return 0
    return mod.run(tier, runner.seed_from_env())


if __name__ == '__main__':
    sys.exit(main())
