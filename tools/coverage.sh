#!/bin/sh
# usage: tools/coverage.sh [check ids...]   - measurement, not a check: runs the quick tier of the given checks (default: all that
# run the translator or the WASI agent) with gcov builds of /repo's translator and of the WASI agent (VERIF_COVDIR), then prints
# line coverage per source file and the uncovered lines of c.c / reader.c / main.c / wasi.c.  Evidence of these runs goes to
# .cache/evidence-scratch, never to evidence/.  Scratch: /tmp/vfcov-$$ (removed).
ids="$*"
[ -n "$ids" ] || ids="C10 C08 C09 C20 C07 C03 C04 C05 C06 C16 C12 C13 C14 C15"
cov=/tmp/vfcov-$$
mkdir -p $cov
cd /verif || exit 2
for c in $ids; do VERIF_COVDIR=$cov ./check $c --tier quick 2>&1 | tail -1; done
( cd $cov && gcovr -r ${VERIF_REPO:-/repo} --gcov-ignore-parse-errors -j 8 . 2>/dev/null | cut -c1-400 )
for u in $cov/unit-wasiagent-*; do
  [ -d "$u" ] || continue
  ( cd $u && llvm-cov-14 gcov wasi.gcda 2>/dev/null | grep -A1 "wasi.c'" ; echo "uncovered lines of wasi.c:"; grep -n "#####" wasi.c.gcov | awk -F: '{print $3}' | tr -d ' ' | tr '\n' ' ' | fold -w 180 )
done
rm -rf $cov
