#!/bin/sh
# usage: tools/seeded.sh <patch.diff> <check id> [more ids...]
# applies a seeded change to /repo's working tree, runs the quick tier of the given checks, restores the tree.
patch=$1; shift
cd /repo || exit 2
git diff --quiet || { echo "repo dirty"; exit 2; }
git apply "$patch" || { echo "PATCH DOES NOT APPLY"; exit 3; }
cd /verif
for id in "$@"; do
  start=$(date +%s)
  out=$(./check "$id" --tier quick 2>&1)
  rc=$?
  end=$(date +%s)
  echo "== $id rc=$rc wall=$((end-start))s"
  echo "$out" | grep -e '^VIOLATION' -B1 | cut -c1-400 | head -8
done
git -C /repo checkout -- .
rm -rf /verif/replays
