#!/bin/sh
# usage: tools/round.sh <suffix> <ids...>   - for each id: confirm the sub-agent's seeded change in /tmp/seed/<id> (tools/confirm_seed.sh),
# then run the property's quick check against that worktree (tools/seedcheck.sh). One summary line per id.
sfx=$1; shift
for id in "$@"; do
  c=$(tools/confirm_seed.sh $id $sfx 2>&1 | tail -1)
  case "$c" in
    CONFIRMED*) r=$(tools/seedcheck.sh /tmp/seed/$id $id 2>&1 | head -2 | cut -c1-220 | tr '\n' ' '); echo "$id$sfx confirmed | $r";;
    *) echo "$id$sfx NOT CONFIRMED: $c";;
  esac
done
