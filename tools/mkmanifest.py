#!/usr/bin/env python3
"""Regenerates /verif/MANIFEST.json from the table below (kept valid against /root/.vp/MANIFEST.schema.json)."""
import json
import os
import sys

HERE = os.path.dirname(os.path.dirname(os.path.abspath(__file__)))

# id -> (engine, technique, level text, level note, design ref)
CHECKS = {
    'C01': ('F1 end-to-end (wasmkit + refinterp + cexec)',
            'PBT: exhaustive boundary-pool operand tables + random operands + random integer expression modules, '
            'differential against a spec-calibrated reference interpreter (values and trap codes), compiler/-O matrix, '
            'choice-sequence shrinking',
            'Generated-input search: every integer operator over pool x pool (exhaustive) and seeded random operands, plus '
            'random expression modules, compiled by gcc/clang at several -O levels and with the fallback bit-op paths; '
            'each result or trap code is compared with a reference interpreter calibrated on 20k spec-suite assertions. '
            'Exploration is the right level: the property quantifies over 2^64 operand pairs and all expression shapes.',
            'Trusts the reference interpreter (calibrated by vf.spec on /repo/tests/gen), gcc 12 / clang 14 on x86-64, and '
            'that the boundary pools + random sampling reach the failing region.', 'DESIGN.md section 7 C01'),
    'C02': ('F1 end-to-end (wasmkit + refinterp + cexec)',
            'PBT: exhaustive boundary-pool operand tables + random bit patterns + random mixed int/float expression modules, '
            'differential against a spec-calibrated reference interpreter (bit-exact, NaN by class, trap codes), '
            'compiler/-O matrix, choice-sequence shrinking',
            'Generated-input search over every float-involving operator (pool x pool exhaustive, incl. every truncation '
            'boundary and its neighbours, all NaN classes, signed zeros, subnormals) plus random expression modules; results '
            'compared bit-exactly (NaN by class where the spec is non-deterministic, exactly for bit-preserving instructions) '
            'and traps by code. Exploration: the operand space is 2^64 per operand.',
            'Trusts the oracle float arithmetic (numpy IEEE scalar ops, exact integer code for conversions; calibrated on the '
            'spec suite), SSE arithmetic of the host, and pool/random sampling.', 'DESIGN.md section 7 C02'),
    'C07': ('F1 end-to-end (wasmkit + cexec)',
            'PBT round trip: generated constants in every constant position -> w2c2 C text -> gcc/clang -> bits read back',
            'Round-trip search: hundreds of constants per module in bodies, global initialisers, data/element segment offsets; '
            'pool (all NaN classes, -0, inf, subnormal, extremes, INT_MIN, decimal hard cases) + random bit patterns; the bits '
            'that come back from the compiled code must equal the bits in the module. Exploration over 2^64 immediates.',
            'Trusts the C compilers\' decimal-to-binary conversion and memcpy-based observation.', 'DESIGN.md section 7 C07'),
    'C03': ('F1 end-to-end (wasmkit + refinterp + cexec)',
            'PBT: grammar-based generation of structured control flow (value-carrying branches with extra operands, br_table, '
            'stack-polymorphic dead code, bounded loops, locals), differential against the reference interpreter on return '
            'value/trap AND ordered host-call trace; validator-filtered structural reduction of failures',
            'Generated-input search over function bodies with arbitrary nesting of block/loop/if, branches out of any depth '
            'with extra operands below the carried value, br_table incl. out-of-range indices, dead code with nested blocks, '
            'mixed-type locals read before written; the executed path is pinned by env.trace host calls and global writes, not '
            'just by the result. Exploration: the space of bodies is unbounded.',
            'Trusts the reference interpreter and the independent validator (both calibrated on the spec suite: 20k assertions, '
            '1280 invalid modules rejected).', 'DESIGN.md section 7 C03'),
    'C04': ('F1 end-to-end (wasmkit + refinterp + cexec)',
            'PBT: generated call graphs (imports with 0-8 mixed parameters, direct/indirect/recursive calls, element segments at '
            'constant and imported-global offsets, imported tables), differential on results + ordered host trace (callee, '
            'argument bits, instance tag) + table-slot identity probes',
            'Generated-input search over modules with imports, forward references, bounded recursion and call_indirect through '
            'defined and imported tables; the host functions print callee, argument bit patterns and the instance they received, '
            'and every initialised table slot is probed for the function it holds; all compared with the reference interpreter.',
            'Trusts the reference interpreter; indirect calls only use initialised slots of the right signature (by construction).',
            'DESIGN.md section 7 C04'),
    'C05': ('F1 end-to-end (wasmkit + refinterp + cexec)',
            'PBT over call histories: generated accessor module + in-bounds history (loads/stores at every alignment, grow with '
            'boundary deltas, overlapping copy, fill, init), byte-array model compared after every step (result, pages, CRC32) '
            'incl. ASan/UBSan and dirty-heap runs',
            'Model-based history search: after every call the result and the whole memory (pages + CRC32 through the exported-'
            'memory accessor, plus byte dumps) must equal a bytearray model; memories defined/imported/shared, with and without '
            'maximum (incl. max=min=0); builds include -fsanitize=address,undefined and a perturbed heap so that missing zeroing '
            'or overlapping memcpy become visible. The no-wrap clause of the effective address is not decidable in bounds.',
            'Trusts the model in vf/interp.py; successful grows are only demanded up to 64 pages.', 'DESIGN.md section 7 C05'),
    'C06': ('F1 end-to-end (wasmkit + refinterp + cexec)',
            'PBT over instantiation shapes x two-instance histories: generated mixes of defined/imported memory, table, globals, '
            'overlapping/passive/global-offset segments, start function; store model compared on memory (CRC + dumps), instance-'
            'struct globals, table-slot identity, start trace, and cross-instance isolation/sharing',
            'Model-based search: right after <module>Instantiate and after later calls, memory bytes, every global (struct field '
            'and getter), every initialised table slot and the start-function host trace must equal the interpreter store; two '
            'instances are bound to the same or to different imported objects and must share exactly those. Exports are called '
            'under <module>_<name> for identifier-safe names and via the FuncExports table for exotic ones.',
            'Trusts the reference interpreter store model; segments in bounds by construction.', 'DESIGN.md section 7 C06'),
    'C11': ('F1 end-to-end (cexec compiler matrix)',
            'PBT + differential across builds: modules from five generators with trap-free scripts, translated once and built '
            'under cells of {gcc,clang}x{-O0..-O3}x{gnu89,default}x{plain, ASan+UBSan+float-cast-overflow}; oracle = no compile '
            'error, no sanitizer report, transcript equal to the interpreter in every cell',
            'Generated-input search over modules x compiler-matrix cells (quick: 6 cells per module, whole 32-cell matrix covered '
            'every run; thorough: all cells): compile errors, sanitizer reports and any cross-build disagreement are violations; '
            'inputs are restricted to non-trapping in-bounds calls as the property states. A names generator covers exotic '
            'import/export/function names.',
            'Trusts the sanitizers\' detection and the interpreter; sNaN immediates/arguments excluded (known finding under C02).',
            'DESIGN.md section 7 C11'),
    'C10': ('F2 translator invariants (ASan+UBSan and MemorySanitizer builds of the unmodified w2c2, out of process)',
            'fuzzing/PBT of the translator: generated valid modules from every mode + spec-suite corpus + names/stress/count-sweep shapes x '
            'generated option sets, and exhaustive/sampled truncation of each file; oracle = exit status rule + AddressSanitizer/'
            'UBSan/MemorySanitizer silence',
            'Generated-input search with the sanitizer-instrumented translator as system under test: valid modules must give exit '
            '0 with no signal and no sanitizer report under any option set; every proper prefix must give exit 0 or a diagnosed '
            'non-zero exit, never a memory error. Truncation is exhaustive for small files (every cut), sampled for larger ones.',
            'Trusts ASan/UBSan detection; allocation-failure paths not injected; hang guard 120 s.', 'DESIGN.md section 7 C10'),
    'C08': ('F2 translator invariants + in-process rapidcheck unit (c/rc_leb128.cpp)',
            'metamorphic PBT: one decoded module, many spec-equivalent encodings (LEB128 padding, custom sections, flag-2 data '
            'segments, empty vs omitted sections, DataCount, exact file sizes) -> same multiset of C definitions + same behaviour, '
            'MemorySanitizer build of the translator silent and byte-identical; rapidcheck round-trip of the LEB128 decoders over '
            'all legal paddings under ASan',
            'Metamorphic search: every generated encoding must be accepted and translate to the same set of top-level C '
            'definitions as the canonical encoding of the same module (compared within one w2c2 build), reruns are byte-identical, '
            'and a padded encoding is compiled and run against the interpreter. The LEB128 readers are additionally checked in '
            'process with rapidcheck (value -> padded bytes -> value, exact consumption, no over-read on truncation).',
            'Trusts my encoder to produce spec-equivalent encodings (self-checked by decoding every variant back to the same '
            'module with the independent decoder).', 'DESIGN.md section 7 C08'),
    'C20': ('F2 translator invariants (file-system snapshots)',
            'PBT over generated directory trees and command lines: SHA-256/type/mode snapshot of the whole sandbox before and '
            'after each translator run, invariant = only permitted files created/modified/deleted; choice-sequence shrinking',
            'Generated-input search over output-path forms x option sets x pre-existing directory contents (matching names and '
            'near misses as files, non-empty directories and symlinks, in every directory); the before/after snapshot difference '
            'must lie inside the permitted set and, with -c, deletions must be exactly pattern-matching files of the output '
            'directory. Exploration: names and trees are unbounded.',
            'Does not generate a symlink/directory exactly at an output file name nor an empty directory with a matching name '
            '(behaviour not specified by the property).', 'DESIGN.md section 7 C20'),
    'C09': ('F2 translator invariants + F1 driver (link and run every variant)',
            'metamorphic PBT over option sets and translator build configurations: same module, different {-p,-f,-t,-m,-g,-d,-r} '
            'and HAS_* builds => function-defined-exactly-once invariant, stand-alone compilability of every file, same function '
            'texts, byte-identical reruns/thread counts/build variants, and the linked program reproduces the interpreter '
            'transcript',
            'Generated-input search over modules x option sets x translator builds: every variant is parsed (each function '
            'defined exactly once across main/s*/d*, static only with an identical reference body), every file is compiled on its '
            'own, all files are linked with the driver (gnu-ld: via ld -r -b binary) and run against the interpreter, and outputs '
            'are compared byte for byte across reruns, thread counts and the no-pthread/no-getopt/no-libgen/no-strdup builds.',
            'Worker interleavings: (a) real threads (1..64 workers) with byte-identity of the result, large atomic-heavy modules '
            'translated with many workers vs. one; (b) the unmodified translator linked against the vsched scheduler and run under '
            'generated decision strings; (c) a ThreadSanitizer build of the translator. All three sample the interleavings.',
            'DESIGN.md sections 0.7 and 7 C09'),
    'C12': ('F3 WASI agent (c/wasiagent.c + /repo/wasi/wasi.c under ASan+UBSan) + Hypothesis RuleBasedStateMachine',
            'stateful PBT (Hypothesis rule-based state machine), differential against the host kernel: every WASI call is mirrored '
            'by the corresponding POSIX call on a byte-identical mirror tree; shrunk histories become replay files',
            'Model-based history search over path_open/fd_write/fd_pwrite/fd_read/fd_pread/fd_seek (both ABIs)/fd_tell/'
            'fd_filestat_get (both layouts)/fd_close with generated iovec shapes, offsets up to 2^33 and all flag combinations; '
            'errno, counts, 64-bit offsets, data, guest-memory canaries, file position after every step and the final trees are '
            'compared with the POSIX mirror.',
            'The kernel (tmpfs) is the reference; the agent declares the imports with the witx signatures a translated module uses.',
            'DESIGN.md section 7 C12'),
    'C13': ('F3 WASI agent + Hypothesis RuleBasedStateMachine',
            'stateful PBT against a descriptor-table model: live / closed / never-issued / huge descriptor numbers through every '
            'descriptor-taking call of both ABIs, standard streams, pre-opens; ASan turns use-after-free/double-free into failures; '
            'generated many-descriptor cases (up to 131080 descriptors issued in one process, numbers around table sizes probed)',
            'History search with bundles of live and closed descriptors: freshness of new descriptors, EBADF from every call on '
            'closed, never-issued, next-to-be-issued and huge numbers (incl. as directory handle and repeated close), bytes through '
            'fds 0-2 reach the prepared files, pre-opens report their path; the agent runs under AddressSanitizer.',
            'Trusts ASan to expose reads/frees of released host memory.', 'DESIGN.md section 7 C13'),
    'C14': ('F3 WASI agent + Hypothesis RuleBasedStateMachine + libFuzzer target c/fz_resolvepath.c',
            'stateful PBT differential against the host kernel (path operations on a mirror tree, lengths up to 2*PATH_MAX, '
            'non-NUL-terminated guest paths), a standard fd_readdir client with resume/restart against os.listdir/lstat, and a '
            'coverage-guided libFuzzer campaign on resolvePath with the join oracle inside the target (ASan, exact-size buffers); '
            'metamorphic PBT of concurrent path calls (generated per-thread scripts below disjoint directories: concurrent run == sequential run)',
            'Model-based history search: every path-taking call through pre-open and opened directory descriptors is mirrored by '
            'the POSIX call; empty and over-long paths must be rejected without effect and without sanitizer report; listings must '
            'be complete, exactly-once, resumable from any cookie and restartable; resolvePath is fuzzed in process.',
            'tmpfs directory offsets are stable; the kernel is the reference for errno values.', 'DESIGN.md section 7 C14'),
    'C15': ('F3 WASI agent + thread-spawn harness (w2c2-translated shared-memory module + wasi.c, ASan/UBSan and TSan builds)',
            'PBT with choice-sequence shrinking: generated argv/environ vectors with canary-guarded guest buffers, clock sandwich '
            'against the same host clock, random_get fill/canary oracle over boundary lengths, proc_exit status via a forked '
            'agent, concurrent thread-spawn with an exactly-once log in the parent memory; ThreadSanitizer on the spawn path',
            'Generated-input search over vectors (0-200 strings, 0..10^5 bytes, arbitrary non-NUL content), buffer placements, '
            'clock ids (valid and invalid), random_get lengths 0..2^20, exit codes 0-255 and T x K concurrent spawns; each result '
            'is compared with an explicit model (exact bytes / sandwich / fill + canaries / status / distinct ids + exactly-once '
            'start calls through the parent memory).',
            'thread-spawn schedules are real-thread samples + TSan, not harness-owned.', 'DESIGN.md section 7 C15'),
    'C16': ('F1 end-to-end histories + generated pthread stress harness (gcc/clang/TSan builds)',
            'model-based PBT of sequential atomic histories (all 63 atomic flavours, byte-array model after every call) plus '
            'concurrent stress with total-order consistency oracles on the returned old values (add/sub/xchg/cmpxchg loops/'
            'or/and/xor) and ThreadSanitizer',
            'Sequential semantics are decided against the reference model step by step; atomicity is attacked by 2-8 threads on '
            'child instances of one shared memory with oracles that any lost update or torn/duplicated old value violates, under '
            'gcc, clang and a TSan build that must stay silent.',
            'Atomicity is sampled (stress + TSan), not enumerated: the operations are single locked instructions on this host.',
            'DESIGN.md section 7 C16'),
    'C19': ('F1 end-to-end histories under forced WASM_ENDIAN + big-endian-configured translator build',
            'metamorphic/model-based PBT: the same memory and atomic histories are built with WASM_ENDIAN forced to 0 and to 1; the '
            'byte-array model takes the byte order as a parameter and must match after every call; translator variant built with '
            'WASM_ENDIAN=1 must emit byte-reversed float immediates; the WASI histories of C12-C15 (Hypothesis state machines + case '
            'generators, POSIX mirror as oracle) against an agent built with WASM_ENDIAN=1, guest structures read in the mirrored layout',
            'Every multi-byte load/store/atomic/RMW flavour is driven through generated histories in both forced configurations '
            'and compared byte for byte (CRC + dumps + results) with the model of that configuration, which is exactly the '
            '"one reversal of exactly that width" relation; 8-bit accesses and bulk copies must be identical.',
            'No big-endian host/emulator exists here: the property is decided in the forced-configuration frame it names.',
            'DESIGN.md section 7 C19'),
    'C17': ('F4 vsched (c/vsched.c: linker-interposed deterministic scheduler) + c/sched_harness.c + linearizable model in vf/sched.py + rapidcheck model test c/rc_futexmap.cpp',
            'schedule-as-input PBT: generated per-thread wait/notify/store programs x generated decision strings (next thread, '
            'spurious wake-ups, signalled waiter, timeout firing, a virtual clock behind clock_gettime) executed deterministically under --wrap=pthread_* interposition; '
            'oracle = linearizable model at the mutex acquisition; programs and decision strings are shrunk; rapidcheck model-based '
            'test of the futex map + wait lists against std::map (ASan+UBSan)',
            'The harness owns the schedule: every lock/unlock/wait/signal of futex.c and the runtime header is a scheduling point '
            'whose outcome comes from the generated decision string, so lost wake-ups, double counts, wrong return codes, waking '
            'waiters of colliding addresses, deadlocks and stuck waiters are reproducible histories checked against the model; '
            'the module under test is w2c2-translated with non-zero static offsets; ASan/UBSan build.',
            'Schedules are sampled (tens of thousands per run), not enumerated; vsched models POSIX condition-variable semantics.',
            'DESIGN.md section 7 C17, Appendix A'),
    'C18': ('F4 vsched harness + ThreadSanitizer / AddressSanitizer real-thread harnesses',
            'schedule-as-input PBT of concurrent memory.grow/size/load/store programs under vsched with a sequential-order oracle '
            'at the mutex acquisition, plus real-thread runs under ThreadSanitizer (small memories, and generated grow sequences of '
            'gigabyte-sized shared memories under concurrent data accesses with a chain / read-back oracle)',
            'Every mutex operation is a scheduling point, so a grower can be preempted between looking at the size and taking '
            'the lock; successful grows ordered by lock acquisition must form one chain, stay below the maximum and sum to the '
            'final page count; TSan must report no race between grow, size queries and data accesses.',
            'Schedules are sampled; races between plain accesses are left to TSan.', 'DESIGN.md section 7 C18, Appendix A'),
}

NOT_YET = {}

PENDING_REASON = 'check not built yet in this session (design in DESIGN.md section 7); will be claimed once its quick tier is green and sensitivity-tested'


def main():
    props = [json.loads(l) for l in open(os.path.join(HERE, 'properties.jsonl'))]
    checks = []
    na = []
    for p in props:
        pid = p['id']
        if pid in CHECKS:
            eng, tech, text, note, ref = CHECKS[pid]
            checks.append({
                'property_id': pid,
                'quick_cmd': './check %s --tier quick' % pid,
                'thorough_cmd': './check %s --tier thorough' % pid,
                'evidence_file': 'evidence/%s.json' % pid,
                'replay_cmd_template': './check %s --replay {path}' % pid,
                'engine': eng,
                'technique': tech,
                'level_claimed': {'category': 'exploration', 'text': text, 'design_ref': ref},
                'level_note': note,
            })
        else:
            na.append({'property_id': pid, 'reason': NOT_YET.get(pid, PENDING_REASON)})
    man = {
        'version': 1,
        'setup_cmd': './check --setup',
        'hooks': {
            'guard': 'TURBOLENT_W2C2_VERIF',
            'enable': 'no source hooks exist: thread primitives are interposed at link time (-Wl,--wrap=pthread_*), fallback '
                      'code paths and byte order are selected with -D on the compiler command line; checks build /repo '
                      'unmodified',
            'baseline_off_cmd': 'tools/baseline.sh',
            'source_commits': [],
            'add_only': True,
        },
        'engines': [
            {'name': 'wasmkit', 'path': 'vf/wasm.py', 'serves_properties': sorted(CHECKS),
             'kind_free_text': 'WebAssembly AST, binary encoder with encoding knobs, decoder, validator'},
            {'name': 'refinterp', 'path': 'vf/interp.py', 'serves_properties': sorted(CHECKS),
             'kind_free_text': 'reference interpreter (oracle), calibrated by vf/spec.py against /repo/tests/gen/*.json'},
            {'name': 'cexec', 'path': 'vf/cexec.py', 'serves_properties': sorted(CHECKS),
             'kind_free_text': 'builds w2c2 variants from /repo working tree, translates, generates/compiles/runs C driver'},
            {'name': 'runner', 'path': 'vf/runner.py', 'serves_properties': sorted(CHECKS),
             'kind_free_text': 'tiers, VERIF_SEED, 16-way pool, choice-sequence shrinking, replay files, evidence, known findings'},
        ],
        'checks': checks,
        'not_applicable': na,
        'notes': 'All checks: exit 0 = held on everything explored; exit 1 + "VIOLATION property=<id> replay=<path>"; '
                 'known findings are listed in known_findings.json. VERIF_SEED selects the generated cases.',
    }
    with open(os.path.join(HERE, 'MANIFEST.json'), 'w') as f:
        json.dump(man, f, indent=1)
    try:
        import jsonschema
        jsonschema.validate(man, json.load(open('/root/.vp/MANIFEST.schema.json')))
        print('MANIFEST.json valid: %d checks, %d not_applicable' % (len(checks), len(na)))
    except ImportError:
        print('MANIFEST.json written (jsonschema not available for validation)')


if __name__ == '__main__':
    main()
