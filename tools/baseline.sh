#!/bin/sh
# Runs turbolent/w2c2's pinned test suite (the two unregistered test executables w2c2_test and w2c2wasi_test) from a
# scratch build directory. No verification guard exists in /repo (no hooks were added), so "guard off" is the plain build.
d=$(mktemp -d /tmp/w2c2-baseline.XXXXXX)
trap 'rm -rf "$d"' EXIT
cmake -G Ninja -S /repo -B "$d" >"$d/cfg.log" 2>&1 || { cat "$d/cfg.log"; exit 2; }
cmake --build "$d" >"$d/build.log" 2>&1 || { tail -50 "$d/build.log"; exit 2; }
rc=0
"$d/w2c2/w2c2_test" || rc=1
"$d/wasi/w2c2wasi_test" || rc=1
if "$d/w2c2/w2c2_test" | grep -q '^FAIL'; then rc=1; fi
if "$d/wasi/w2c2wasi_test" | grep -q '^FAIL'; then rc=1; fi
exit $rc
