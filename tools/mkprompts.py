#!/usr/bin/env python3
"""usage: tools/mkprompts.py <outdir>  - writes one sub-agent brief per property into <outdir>/<ID>.txt.
The brief contains the property's text (from properties.jsonl), the scratch worktree path /tmp/seed/<ID>, the delivery format and
one-line descriptions of the changes earlier sub-agents delivered for that property (so that a new round explores other ground).
Nothing about /verif's checks goes into a brief."""
import glob
import json
import os
import sys

ROOT = os.path.dirname(os.path.dirname(os.path.abspath(__file__)))

BRIEF = """You are helping to evaluate a verification effort for the open-source project turbolent/w2c2 (a WebAssembly-to-C89 translator with a
runtime header and a WASI host implementation). Your own scratch git worktree of the project is at {wt} (already created; work ONLY there,
never in /repo, and do not look at /verif). The project builds with `cmake -G Ninja -S . -B _b && cmake --build _b`; its pinned tests are
`_b/w2c2/w2c2_test` and `_b/wasi/w2c2wasi_test` (both must exit 0). gcc 12, clang 14, python3 are available; there is no network.
No wasm toolchain (wat2wasm etc.) is installed: assemble .wasm files by hand (e.g. a small python script emitting bytes).

PROPERTY {pid}: {title}
{statement}
Quantified over: {quant}
Code it is anchored in: {files}

YOUR TASK: write ONE realistic change to turbolent/w2c2 (the kind of thing a contributor could plausibly submit: an optimisation, a
refactoring, a hardening, a portability tweak, a clean-up that is subtly wrong) that BREAKS this property while the project still compiles
without new warnings and both pinned test programs still pass. The change must NOT be something ordinary use would expose at once: it should
need something specific to manifest - a particular interleaving, a fault or crash at a particular point, a multi-step sequence of
operations, an unusual but valid input, a particular option / build configuration, or two cooperating sites that each look fine alone.
Prefer code sites and mechanisms that a random-testing harness is unlikely to stumble on; think about what generated tests usually miss
(rare input shapes, host state, boundary sizes, interactions between two features, rarely used options documented in the README).
The violation must be within the property as stated (a valid input in the supported feature set, behaviour the property text promises).

These ideas were already delivered in earlier rounds for this property - do NOT repeat them or close variants of them; pick a different
mechanism and, where possible, a different code site:
{earlier}

DELIVER, in the directory {wt}/seeded/ :
  patch.diff   - `git diff` of your change to the project sources (no files under seeded/ in it), applying cleanly with `git apply` to the worktree's HEAD
  demo.sh      - a shell script, run as `cd seeded && sh ./demo.sh`, that builds what it needs from the worktree's CURRENT sources (into a mktemp
                 directory it removes again; it may use helper files you put next to it in seeded/), exercises the property, and exits 0 when
                 the property holds and non-zero when it is violated. It must pass (exit 0) on the unchanged tree and fail with your change. Keep it under ~60 s.
  meta.json    - {{"property": "{pid}", "summary": "<what was changed and why it is wrong>", "needs": "<what exactly is needed for it to manifest, and what does NOT trigger it>", "how_run": "<what you ran and what you saw>"}}
Before you finish: confirm yourself that (1) the patched tree builds and both pinned tests pass, (2) demo.sh fails with the patch and passes
after `git apply -R seeded/patch.diff`, then leave the worktree WITH the patch applied and remove _b and any other build output.
Final answer: a 5-line summary (change, needs, demo result)."""


def main():
    out = sys.argv[1]
    os.makedirs(out, exist_ok=True)
    props = [json.loads(l) for l in open(os.path.join(ROOT, 'properties.jsonl'))]
    for p in props:
        pid = p['id']
        earlier = []
        for d in sorted(glob.glob(os.path.join(ROOT, 'seeded', pid + '*'))):
            try:
                m = json.load(open(os.path.join(d, 'meta.json')))
            except Exception:
                continue
            if m.get('property', pid) != pid:
                continue
            s = ' '.join(str(m.get('summary', '')).split())
            earlier.append('  - ' + s[:330])
        txt = BRIEF.format(wt='/tmp/seed/' + pid, pid=pid, title=p['title'], statement=p['statement'],
                           quant=p['quantifier']['text'], files=', '.join(p['anchors']['files']),
                           earlier='\n'.join(earlier) or '  (none)')
        open(os.path.join(out, pid + '.txt'), 'w').write(txt)
    print('wrote', len(props), 'briefs to', out)


if __name__ == '__main__':
    main()
