#!/bin/sh
# usage: tools/sweep.sh <tier> <seed> [ids...]   - runs the checks one after another, prints one summary line each
tier=$1; seed=$2; shift 2
ids=${*:-C01 C02 C03 C04 C05 C06 C07 C08 C09 C10 C11 C12 C13 C14 C15 C16 C17 C18 C19 C20}
for id in $ids; do
  start=$(date +%s)
  VERIF_SEED=$seed ./check $id --tier $tier > /tmp/sweep_$id.$$.log 2>&1
  rc=$?
  end=$(date +%s)
  echo "== $id tier=$tier seed=$seed rc=$rc wall=$((end-start))s $(grep -c '^VIOLATION' /tmp/sweep_$id.$$.log) violations, $(grep -c '^INFRA' /tmp/sweep_$id.$$.log) infra notes"
  grep -e '^VIOLATION' -e '^INFRA' -e 'BROKEN' -B1 /tmp/sweep_$id.$$.log | cut -c1-300 | head -12
  rm -f /tmp/sweep_$id.$$.log
done
