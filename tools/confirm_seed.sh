#!/bin/sh
# usage: tools/confirm_seed.sh <ID> [suffix]   - confirms a sub-agent's seeded change in its scratch worktree /tmp/seed/<ID>:
# compiles, pinned tests pass with the change, demo passes without and fails with it; then copies it to /verif/seeded/<ID><suffix>/
id=$1; sfx=$2
w=/tmp/seed/$id
[ -f $w/seeded/patch.diff ] || { echo "no patch.diff"; exit 2; }
cd $w || exit 2
cp -r seeded /tmp/seed/$id.deliver
git checkout -q -- . 2>/dev/null
# bring the scratch worktree to /repo's current HEAD (fix: commits made since the sub-agent started)
git checkout -q --detach $(git -C /repo rev-parse HEAD) 2>/dev/null
git status --short | grep -v '^??' | head -3
rm -rf _b
echo "--- unmodified tree: demo must pass"
( cd /tmp/seed/$id.deliver && cp -r . $w/seeded/ 2>/dev/null; cd $w/seeded && sh ./demo.sh >/tmp/seed/$id.demo0.log 2>&1 ); r0=$?
echo "demo exit (unmodified) = $r0"
if ! git apply seeded/patch.diff 2>/dev/null; then
  git apply --3way seeded/patch.diff >/dev/null 2>&1 || { echo "PATCH DOES NOT APPLY"; exit 3; }
  git reset -q
  cp /tmp/seed/$id.deliver/patch.diff /tmp/seed/$id.deliver/patch.pre-rebase.diff
  git diff -- . ':!seeded' > /tmp/seed/$id.deliver/patch.diff
  echo "patch rebased onto the current HEAD (3-way)"
fi
rm -rf _b
cmake -G Ninja -S . -B _b >/dev/null 2>&1 && cmake --build _b >/tmp/seed/$id.build.log 2>&1 || { echo "BUILD FAILS"; tail -5 /tmp/seed/$id.build.log; exit 4; }
_b/w2c2/w2c2_test > /tmp/seed/$id.t1.log 2>&1; t1=$?; _b/wasi/w2c2wasi_test > /tmp/seed/$id.t2.log 2>&1; t2=$?
echo "tests: w2c2_test rc=$t1 ($(grep -c '^PASS' /tmp/seed/$id.t1.log) PASS, $(grep -c 'FAIL' /tmp/seed/$id.t1.log) FAIL) w2c2wasi_test rc=$t2 ($(grep -c '^OK' /tmp/seed/$id.t2.log) OK, $(grep -c 'FAIL' /tmp/seed/$id.t2.log) FAIL)"
echo "--- changed tree: demo must fail"
( cd $w/seeded && sh ./demo.sh >/tmp/seed/$id.demo1.log 2>&1 ); r1=$?
echo "demo exit (changed) = $r1"; tail -3 /tmp/seed/$id.demo1.log | cut -c1-300
if [ $r0 -eq 0 ] && [ $r1 -ne 0 ] && [ $t1 -eq 0 ] && [ $t2 -eq 0 ]; then
  mkdir -p /verif/seeded/$id$sfx
  cp -r /tmp/seed/$id.deliver/. /verif/seeded/$id$sfx/
  echo "CONFIRMED -> /verif/seeded/$id$sfx"
else
  echo "NOT CONFIRMED"
fi
rm -rf /tmp/seed/$id.deliver
