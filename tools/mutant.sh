#!/bin/sh
# usage: tools/mutant.sh <check id> <file relative to /repo> <sed expression> [tier]
# applies a one-line mutation to /repo's working tree, runs the check, restores the tree. For sensitivity testing only.
id=$1; file=$2; expr=$3; tier=${4:-quick}
cd /repo || exit 2
git diff --quiet || { echo "repo dirty"; exit 2; }
sed -i "$expr" "$file"
if git diff --quiet; then echo "MUTATION DID NOT APPLY"; exit 3; fi
git --no-pager diff | grep '^[-+]' | grep -v '^\(---\|+++\)' | head -6
cd /verif && ./check "$id" --tier "$tier" 2>&1 | grep -v '^INFRA' | tail -4
rc=$?
git -C /repo checkout -- . 
exit $rc
