#!/bin/sh
# usage: tools/mutant.sh <check id> <file relative to the repository> <sed expression> [tier]
# applies a one-line mutation in a scratch worktree of /repo (never in /repo itself), runs the check against that tree
# (VERIF_REPO), removes the worktree. For sensitivity testing only.
id=$1; file=$2; expr=$3; tier=${4:-quick}
w=/tmp/mut-$$
git -C /repo worktree add -q --detach $w HEAD || exit 2
cd $w || exit 2
sed -i "$expr" "$file"
if git diff --quiet; then echo "MUTATION DID NOT APPLY"; cd /; git -C /repo worktree remove --force $w; exit 3; fi
git --no-pager diff | grep '^[-+]' | grep -v '^\(---\|+++\)' | head -6
cd /verif && VERIF_REPO=$w ./check "$id" --tier "$tier" 2>&1 | grep -v '^INFRA' | grep -v '^KNOWN' | tail -4
git -C /repo worktree remove --force $w
rm -rf /verif/replays
