#!/bin/sh
# usage: tools/seedcheck.sh <worktree with the seeded change applied> <check id>...   (runs the checks against that tree via VERIF_REPO)
w=$1; shift
for id in "$@"; do
  start=$(date +%s)
  out=$(VERIF_REPO=$w ./check "$id" --tier quick 2>&1)
  rc=$?
  end=$(date +%s)
  echo "== $id on $w rc=$rc wall=$((end-start))s"
  echo "$out" | grep -e '^VIOLATION' -B1 | grep -v '^--' | cut -c1-330 | head -4
  echo "$out" | grep -e '^INFRA: unconfirmed' | cut -c1-330 | head -3
done
rm -rf /verif/replays
