#!/bin/sh
# usage: tools/seedmatrix.sh <seed> [ids...]   - runs, for every stored seeded change (seeded/<id>[-N]/patch.diff), the quick tier of
# the property's check with VERIF_SEED=<seed> against a scratch worktree that has the change applied.  Works on a private copy of
# /verif (so evidence/ and replays/ of /verif are not touched) and never modifies /repo's working tree.
# Output: one line per change "<id> seed=<s> rc=<rc> wall=<s>" (rc=1 = caught).  Scratch data lives under /tmp/sm-$$ and is removed.
seed=$1; shift
ids="$*"
[ -n "$ids" ] || ids=$(cd ${SM_SRC:-/verif}/seeded && ls -d C* | sort)
top=/tmp/sm-$$
mkdir -p $top
rsync -a --exclude .cache --exclude replays --exclude .git ${SM_SRC:-/verif}/ $top/verif/
for id in $ids; do
  prop=$(echo $id | cut -c1-3)
  w=$top/wt-$id
  git -C /repo worktree add -q --detach $w HEAD || continue
  if ! git -C $w apply $top/verif/seeded/$id/patch.diff; then echo "$id seed=$seed PATCH-DOES-NOT-APPLY"; git -C /repo worktree remove --force $w; continue; fi
  start=$(date +%s)
  out=$(cd $top/verif && VERIF_REPO=$w VERIF_SEED=$seed ./check $prop --tier quick 2>&1); rc=$?
  end=$(date +%s)
  echo "$id seed=$seed rc=$rc wall=$((end-start))s $(echo "$out" | grep -B1 '^VIOLATION' | head -1 | cut -c1-160)"
  git -C /repo worktree remove --force $w
  rm -rf $top/verif/replays
done
git -C /repo worktree prune
rm -rf $top
