// rapidcheck model test for futex/map.c + futex/list.c (C17): the map from effective addresses to wait lists and the intrusive
// list of waiters, driven the way futex.c drives them (insert only absent keys; the slot pointer returned for a key is kept by a
// blocked waiter across other inserts / removals and written through later; list elements are calloc'ed and prepended once), against
// std::map / std::vector.  Built with ASan + UBSan: a stale bucket head, a freed node or a moved slot is a report.
// "never wakes waiters of another address", "a waiter that has started blocking is visible to any later notify" rest on exactly this.
#include <rapidcheck.h>
#include <cstdint>
#include <cstdio>
#include <cstdlib>
#include <cstring>
#include <map>
#include <vector>
#include <algorithm>
extern "C" {
#include "map.h"
#include "list.h"
}
#ifndef VF_BUCKETS
#define VF_BUCKETS 1024
#endif

// pointer-valued sub-expressions cannot be shown by rapidcheck: assert on the boolean
#define CHK(x) RC_ASSERT(bool(x))

static unsigned long long g_cases = 0, g_ops = 0, g_collide = 0, g_many = 0, g_maxlive = 0, g_listops = 0;

struct Waiter { ListLink link; int id; };

static int g_freed = 0;
static void freeValueCount(void* v) { (void)v; g_freed++; }

// one operation: kind 0 insert-or-get + prepend a waiter, 1 remove one waiter (and the key when its list empties), 2 lookup
struct Op { int kind; uint32_t key; unsigned pick; };

static rc::Gen<uint32_t> genKey(size_t buckets) {
    // keys colliding in one bucket (k, k+B, k+2B, ...), neighbours, and arbitrary ones
    return rc::gen::oneOf(
        rc::gen::map(rc::gen::resize(50, rc::gen::inRange<uint32_t>(0, 6)), [buckets](uint32_t i) { return (uint32_t)(8 + i * buckets); }),
        rc::gen::map(rc::gen::resize(50, rc::gen::inRange<uint32_t>(0, 400)), [](uint32_t i) { return (uint32_t)(i * 4); }),
        rc::gen::map(rc::gen::resize(50, rc::gen::inRange<uint32_t>(0, 6)), [buckets](uint32_t i) { return (uint32_t)(0xffffffffu - i * buckets); }),
        rc::gen::arbitrary<uint32_t>());
}

static bool run(size_t buckets, const std::vector<Op>& ops, bool fill_first, unsigned fill) {
    Map map;
    mapInitialize(&map, buckets);
    std::map<uint32_t, std::vector<Waiter*>> model;      // key -> waiters, most recently prepended first
    std::map<uint32_t, void**> slot;                      // the slot pointer a blocked waiter would hold
    int next_id = 1;
    size_t live = 0;
    bool collided = false;
    auto check_key = [&](uint32_t key) {
        void** s = mapGet(&map, key);
        auto it = model.find(key);
        if (it == model.end()) { CHK(s == nullptr); return; }
        CHK(s != nullptr);
        CHK(s == slot[key]);                        // slots do not move while the key is present
        // forward traversal of the wait list equals the model order
        ListLink* l = (ListLink*)*s;
        for (Waiter* w : it->second) { CHK(l == &w->link); l = l->next; }
        CHK(l == nullptr);
    };
    auto do_insert = [&](uint32_t key) {
        void** s = mapGet(&map, key);
        if (!s) {
            CHK(model.find(key) == model.end());
            s = mapInsert(&map, key);
            CHK(s != nullptr);
            CHK(*s == nullptr);
            for (auto& kv : model) if (kv.first % buckets == key % buckets) collided = true;
            slot[key] = s;
            model[key];
        } else {
            CHK(model.find(key) != model.end());
            CHK(s == slot[key]);
        }
        Waiter* w = (Waiter*)calloc(1, sizeof(Waiter));
        w->id = next_id++;
        *s = listPrepend((ListLink*)*s, &w->link);
        auto& v = model[key];
        v.insert(v.begin(), w);
        live++;
        g_listops++;
    };
    if (fill_first)
        for (unsigned i = 0; i < fill; i++) do_insert(1000u + 4u * i);      // many distinct addresses parked at the same moment
    for (const Op& op : ops) {
        g_ops++;
        if (op.kind == 0) {
            do_insert(op.key);
        } else if (op.kind == 1) {
            if (model.empty()) continue;
            // a waiter leaves: through the slot pointer it obtained when it started blocking
            auto it = model.find(op.key);
            if (it == model.end()) { it = model.begin(); std::advance(it, op.pick % model.size()); }
            uint32_t key = it->first;
            auto& v = it->second;
            size_t i = op.pick % v.size();
            Waiter* w = v[i];
            void** s = slot[key];
            *s = listRemove((ListLink*)*s, &w->link);
            v.erase(v.begin() + i);
            free(w);
            live--;
            g_listops++;
            if (*s == nullptr) {
                CHK(v.empty());
                void* removed = mapRemove(&map, key);
                CHK(removed == nullptr);
                model.erase(key);
                slot.erase(key);
                CHK(mapGet(&map, key) == nullptr);
            } else {
                CHK(!v.empty());
            }
        } else {
            check_key(op.key);
        }
        if (live > g_maxlive) g_maxlive = live;
        // every key of the model is reachable with its own list, after every step (cheap for the sizes used)
        if (model.size() <= 24 || (g_ops & 15) == 0)
            for (auto& kv : model) check_key(kv.first);
    }
    for (auto& kv : model) check_key(kv.first);
    // removing a key that is absent returns NULL and changes nothing
    CHK(mapRemove(&map, 0x7ffffff1u) == nullptr || model.count(0x7ffffff1u));
    // mapFree releases every remaining value exactly once (values = list heads; the waiters themselves are ours)
    g_freed = 0;
    size_t remaining = model.size();
    mapFree(&map, freeValueCount);
    CHK((size_t)g_freed == remaining);
    for (auto& kv : model) for (Waiter* w : kv.second) free(w);
    if (collided) g_collide++;
    return true;
}

int main() {
    bool ok = true;
    ok &= rc::check("futex map + wait lists agree with std::map under insert / leave / lookup histories", [] {
        size_t buckets = *rc::gen::element<size_t>(VF_BUCKETS, VF_BUCKETS, 1, 2, 7, 64);
        auto genOp = rc::gen::apply([](int kind, uint32_t key, unsigned pick) { return Op{kind, key, pick}; },
                                    rc::gen::element(0, 0, 0, 1, 1, 2), genKey(buckets), rc::gen::arbitrary<unsigned>());
        auto ops = *rc::gen::container<std::vector<Op>>(genOp);
        g_cases++;
        run(buckets, ops, false, 0);
    });
    ok &= rc::check("the same with hundreds of distinct addresses parked at once (map load far above a handful of keys)", [] {
        size_t buckets = *rc::gen::element<size_t>(VF_BUCKETS, 64, 7);
        unsigned fill = *rc::gen::resize(100, rc::gen::inRange<unsigned>(60, 700));
        auto genOp = rc::gen::apply([fill](int kind, uint32_t i, unsigned pick) { return Op{kind, (uint32_t)(1000u + 4u * (i % (fill + 40))), pick}; },
                                    rc::gen::element(0, 1, 1, 1, 2), rc::gen::arbitrary<uint32_t>(), rc::gen::arbitrary<unsigned>());
        auto ops = *rc::gen::resize(200, rc::gen::container<std::vector<Op>>(genOp));
        g_cases++; g_many++;
        run(buckets, ops, true, fill);
    });
    printf("RC-STATS cases=%llu ops=%llu collide=%llu many=%llu maxlive=%llu listops=%llu\n", g_cases, g_ops, g_collide, g_many, g_maxlive, g_listops);
    return ok ? 0 : 1;
}
