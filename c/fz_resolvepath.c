/* libFuzzer target (C14): wasi.c's resolvePath(directory, path bytes, length) with the oracle inside the target.
 * Input layout: [u16 dirlen][u16 declared path length][directory bytes][path bytes]; the result buffer is an exact
 * PATH_MAX-byte heap block, so any write past it is an ASan report. */
#include <stdint.h>
#include <stdio.h>
#include <stdlib.h>
#include <string.h>
#include <limits.h>
#include "w2c2_base.h"
#ifndef PATH_MAX
#define PATH_MAX 1024
#endif

bool resolvePath(char* directory, char* path, U32 pathLength, char result[PATH_MAX]);
wasmMemory* wasiMemory(void* instance) { (void)instance; return NULL; }
void trap(Trap t) { (void)t; abort(); }

static unsigned long long n_cases, n_accept, n_reject, n_limit, n_abs, n_long;
static void dump(void) {
    fprintf(stderr, "FZ-STATS cases=%llu accepted=%llu rejected=%llu limit_zone=%llu absolute=%llu longer_than_limit=%llu\n",
            n_cases, n_accept, n_reject, n_limit, n_abs, n_long);
}
static void fail(const char* why, const uint8_t* data, size_t size) {
    (void)data; (void)size;
    fprintf(stderr, "ORACLE-FAILURE: %s\n", why);
    dump();
    __builtin_trap();
}

int LLVMFuzzerTestOneInput(const uint8_t* data, size_t size) {
    static int reg;
    size_t dlen, plen, avail, jl, i;
    char* dir; char* path; char* result; char* expect;
    bool ok;
    if (!reg) { reg = 1; atexit(dump); }
    if (size < 4) return 0;
    dlen = (size_t)(data[0] | (data[1] << 8)) % (PATH_MAX - 1) + 1;          /* descriptor paths: 1 .. PATH_MAX-1 bytes */
    plen = (size_t)(data[2] | (data[3] << 8)) % (2 * PATH_MAX + 1);          /* guest path length 0 .. 2*PATH_MAX */
    avail = size - 4;
    dir = (char*)malloc(dlen + 1);
    for (i = 0; i < dlen; i++) { uint8_t c = i < avail ? data[4 + i] : (uint8_t)('a' + i % 23); dir[i] = (char)(c ? c : '/'); }
    dir[dlen] = 0;
    /* guest memory holding the path: exact size, NOT NUL terminated */
    path = (char*)malloc(plen ? plen : 1);
    for (i = 0; i < plen; i++) { size_t k = 4 + dlen + i; path[i] = (char)(k < size ? data[k] : (uint8_t)('p' + i % 7)); }
    result = (char*)malloc(PATH_MAX);
    memset(result, 0x5a, PATH_MAX);
    n_cases++;
    ok = resolvePath(dir, path, (U32)plen, result);
    if (plen == 0) {
        if (ok) fail("empty path accepted", data, size);
        n_reject++;
    } else {
        int absolute = path[0] == '/';
        int sep = !absolute && dir[dlen - 1] != '/';
        jl = absolute ? plen : dlen + (size_t)sep + plen;
        if (absolute) n_abs++;
        if (jl >= PATH_MAX) {
            n_long++;
            if (ok) fail("result that does not fit PATH_MAX accepted", data, size);
            n_reject++;
        } else if (jl + 3 <= PATH_MAX || ok) {
            if (jl + 3 > PATH_MAX) n_limit++;
            if (!ok) fail("fitting path rejected", data, size);
            expect = (char*)malloc(jl + 1);
            if (absolute) { memcpy(expect, path, plen); }
            else { memcpy(expect, dir, dlen); if (sep) expect[dlen] = '/'; memcpy(expect + dlen + sep, path, plen); }
            expect[jl] = 0;
            if (memcmp(expect, result, jl + 1) != 0) fail("resolved path differs from directory + '/' + path", data, size);
            free(expect);
            n_accept++;
        } else {
            n_limit++; n_reject++;
        }
    }
    free(result); free(path); free(dir);
    return 0;
}
