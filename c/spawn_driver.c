/* C15 thread-spawn harness: links a w2c2-translated shared-memory module (m.c/m.h), /repo/wasi/wasi.c and the futex library.
 * argv: T (host threads) K (spawns per thread) EXPECT_EXPORT(0/1).  Output: one line per spawn "S <arg> <ret>", then the log the
 * module's wasi_thread_start wrote into the PARENT's memory: "L <tid> <arg>" per record, "N <count>" . */
#include <stdio.h>
#include <stdlib.h>
#include <string.h>
#include <pthread.h>
#include <unistd.h>
#include "m.h"

bool wasiInit(int argc, char* argv[], char** envp);
static mInstance inst;
wasmMemory* wasiMemory(void* instance) { return m_memory((mInstance*)instance); }
void trap(Trap t) { fprintf(stderr, "trap %d\n", (int)t); abort(); }
extern char** environ;
#ifdef VF_IMPORTED_MEMORY
/* the module imports its shared memory (the --import-memory layout of wasi-threads programs) */
static wasmMemory* vf_shared;
static void* vf_resolve(const char* module, const char* name) {
    (void)module;
    if (strcmp(name, "memory") == 0) { if (!vf_shared) vf_shared = wasmMemoryAllocate(1, 1, true); return vf_shared; }
    return NULL;
}
#define VF_RESOLVER vf_resolve
#else
#define VF_RESOLVER NULL
#endif

/* fault injection: with FAIL_EVERY > 0 every FAIL_EVERY-th pthread_create made after the workers have started (i.e. those made by
 * wasi thread-spawn) fails with EAGAIN, as it does on a host that has run out of threads */
#include <errno.h>
static int vf_fail_every; static int vf_create_calls;
int __real_pthread_create(pthread_t* t, const pthread_attr_t* a, void* (*f)(void*), void* arg);
int __wrap_pthread_create(pthread_t* t, const pthread_attr_t* a, void* (*f)(void*), void* arg) {
    int fe = __atomic_load_n(&vf_fail_every, __ATOMIC_SEQ_CST);
    if (fe > 0 && (__sync_add_and_fetch(&vf_create_calls, 1) % fe) == 0) return EAGAIN;
    return __real_pthread_create(t, a, f, arg);
}
static pthread_barrier_t vf_go;

typedef struct { int t; int k; U32* rets; } Arg;
static int DEPTH;     /* > 0: every started thread spawns again, DEPTH generations deep (the depth travels in the top byte of the argument) */
static void* worker(void* p) {
    Arg* a = (Arg*)p; int i;
    pthread_barrier_wait(&vf_go);
    for (i = 0; i < a->k; i++) a->rets[i] = m_spawn(&inst, (U32)(a->t * 1000 + i + 1) | ((U32)DEPTH << 24));
    return NULL;
}

int main(int argc, char** argv) {
    int T = atoi(argv[1]), K = atoi(argv[2]), i, j, total, waited = 0;
    DEPTH = argc > 3 ? atoi(argv[3]) : 0;
    pthread_t th[64]; Arg args[64];
    (void)argc;
    if (!wasiInit(1, argv, environ)) return 2;
    mInstantiate(&inst, VF_RESOLVER);
    pthread_barrier_init(&vf_go, NULL, (unsigned)T + 1);
    for (i = 0; i < T; i++) { args[i].t = i; args[i].k = K; args[i].rets = (U32*)calloc((size_t)K, sizeof(U32)); pthread_create(&th[i], NULL, worker, &args[i]); }
    __atomic_store_n(&vf_fail_every, argc > 4 ? atoi(argv[4]) : 0, __ATOMIC_SEQ_CST);
    pthread_barrier_wait(&vf_go);
    for (i = 0; i < T; i++) pthread_join(th[i], NULL);
    __atomic_store_n(&vf_fail_every, 0, __ATOMIC_SEQ_CST);
    total = 0;
    for (i = 0; i < T; i++) for (j = 0; j < K; j++) { printf("S %u %d\n", (unsigned)(i * 1000 + j + 1) | ((unsigned)DEPTH << 24), (int)args[i].rets[j]); if ((int)args[i].rets[j] > 0) total++; }
    /* wait (bounded) until every started thread - and every thread those started - has logged */
    total *= DEPTH + 1;
    while (m_count(&inst) < (U32)total && waited < 5000) { usleep(1000); waited++; }
    usleep(20000);    /* a thread started twice would still be logging */
    {
        U32 n = m_count(&inst), r;
        wasmMemory* mem = m_memory(&inst);
        for (r = 0; r < n && r < 4000; r++) {
            U32 tid, arg; memcpy(&tid, mem->data + 16 + r * 8, 4); memcpy(&arg, mem->data + 20 + r * 8, 4);
            printf("L %u %u\n", tid, arg);
        }
        printf("N %u\n", n);
        printf("X %u\n", (unsigned)m_decoyruns(&inst));
        /* the shared memory is what it was, whatever happened to individual spawns */
        printf("P %u %u\n", mem->pages, (unsigned)(mem->data != NULL));
        /* spawns made by the module's own threads: (argument, returned id) pairs logged at 32768 */
        { U32 n2, q; memcpy(&n2, mem->data + 8, 4);
          for (q = 0; q < n2 && q < 3000; q++) { U32 a2; I32 r2; memcpy(&a2, mem->data + 32768 + q * 8, 4); memcpy(&r2, mem->data + 32772 + q * 8, 4); printf("S %u %d\n", a2, r2); } }
    }
    return 0;
}
