/* wasiagent (E5): owns a guest wasmMemory and executes WASI calls of /repo/wasi/wasi.c on request.
 * Control protocol: text lines on fd CTRL_IN (default 10), replies on fd CTRL_OUT (default 11); fds 0-2 stay the
 * "standard streams" under test. The WASI functions are declared here with the WITX signatures - the types a w2c2-translated
 * module declares for its imports - not with the parameter types used inside wasi.c.
 */
#include <stdio.h>
#include <stdlib.h>
#include <string.h>
#include <unistd.h>
#include <time.h>
#include <errno.h>
#include <signal.h>
#include <sys/time.h>
#include <sys/resource.h>
#include <pthread.h>
#include "w2c2_base.h"

typedef struct WasiFileDescriptorX { int fd; void* dir; char* path; } WasiFileDescriptorX;
bool wasiInit(int argc, char* argv[], char** envp);
bool wasiFileDescriptorAdd(int nativeFD, char* path, U32* wasiFD);

#define DECL2(name, params) U32 wasi_snapshot_preview1__##name params; U32 wasi_unstable__##name params;
DECL2(fd_write, (void*, U32, U32, U32, U32))
DECL2(fd_read, (void*, U32, U32, U32, U32))
DECL2(fd_pwrite, (void*, U32, U32, U32, U64, U32))
DECL2(fd_pread, (void*, U32, U32, U32, U64, U32))
DECL2(fd_seek, (void*, U32, U64, U32, U32))
DECL2(fd_tell, (void*, U32, U32))
DECL2(fd_close, (void*, U32))
DECL2(fd_filestat_get, (void*, U32, U32))
DECL2(fd_fdstat_get, (void*, U32, U32))
DECL2(fd_prestat_get, (void*, U32, U32))
DECL2(fd_prestat_dir_name, (void*, U32, U32, U32))
DECL2(fd_readdir, (void*, U32, U32, U32, U64, U32))
DECL2(fd_sync, (void*, U32))
DECL2(fd_datasync, (void*, U32))
DECL2(path_open, (void*, U32, U32, U32, U32, U32, U64, U64, U32, U32))
DECL2(path_filestat_get, (void*, U32, U32, U32, U32, U32))
DECL2(path_create_directory, (void*, U32, U32, U32))
DECL2(path_remove_directory, (void*, U32, U32, U32))
DECL2(path_unlink_file, (void*, U32, U32, U32))
DECL2(path_rename, (void*, U32, U32, U32, U32, U32, U32))
DECL2(path_symlink, (void*, U32, U32, U32, U32, U32))
DECL2(path_readlink, (void*, U32, U32, U32, U32, U32, U32))
DECL2(args_sizes_get, (void*, U32, U32))
DECL2(args_get, (void*, U32, U32))
DECL2(environ_sizes_get, (void*, U32, U32))
DECL2(environ_get, (void*, U32, U32))
DECL2(clock_time_get, (void*, U32, U64, U32))
DECL2(clock_res_get, (void*, U32, U32))
DECL2(random_get, (void*, U32, U32))
void wasi_snapshot_preview1__proc_exit(void*, U32);
void wasi_unstable__proc_exit(void*, U32);

static wasmMemory* g_mem;
wasmMemory* wasiMemory(void* instance) { (void)instance; return g_mem; }
void trap(Trap t) { fprintf(stderr, "agent: trap %d\n", (int)t); abort(); }

static FILE* in;
static FILE* out;

/* "sigstorm <usec>": while a WASI call runs, the process receives SIGALRM (empty handler, SA_RESTART) every <usec> microseconds -
 * a host that uses timers / child processes / profiling delivers signals at any moment; 0 switches it off */
static long g_storm_usec;
static void on_alarm(int s) { (void)s; }
static void storm(int on) {
    struct itimerval it;
    memset(&it, 0, sizeof it);
    if (on) { it.it_interval.tv_usec = g_storm_usec; it.it_value.tv_usec = g_storm_usec; }
    setitimer(ITIMER_REAL, &it, NULL);
}

/* "burn <ms>": another thread of the process consumes <ms> milliseconds of CPU time and ends (the per-thread CPU clock of the
   calling thread must not show it; the process clock must) */
static void* burner(void* arg) {
    long ms = (long)arg; struct timespec a, b; volatile unsigned long x = 0;
    clock_gettime(CLOCK_THREAD_CPUTIME_ID, &a);
    for (;;) {
        int k; for (k = 0; k < 100000; k++) x += k;
        clock_gettime(CLOCK_THREAD_CPUTIME_ID, &b);
        if ((b.tv_sec - a.tv_sec) * 1000L + (b.tv_nsec - a.tv_nsec) / 1000000L >= ms) break;
    }
    return NULL;
}

static int hexval(int c) { return c <= '9' ? c - '0' : (c | 32) - 'a' + 10; }

static char** read_vector(char* tok, int* countOut) {
    /* tok: count followed by hex strings, space separated */
    int n = atoi(tok), i;
    char** v = (char**)calloc((size_t)n + 1, sizeof(char*));
    for (i = 0; i < n; i++) {
        char* h = strtok(NULL, " \n");
        size_t len, k;
        if (h == NULL || strcmp(h, "-") == 0) { v[i] = (char*)calloc(1, 1); continue; }
        len = strlen(h) / 2;
        v[i] = (char*)malloc(len + 1);
        for (k = 0; k < len; k++) v[i][k] = (char)(hexval(h[2 * k]) * 16 + hexval(h[2 * k + 1]));
        v[i][len] = 0;
    }
    v[n] = NULL;
    *countOut = n;
    return v;
}

#define A(i) (a[i])
#define CALL(name, expr) if (strcmp(fn, #name) == 0) { r = unstable ? wasi_unstable__##expr : wasi_snapshot_preview1__##expr; known = 1; }

/* one WASI call by name; *knownOut = 0 when the name is not one the agent can call */
static U32 do_call(const char* fn, int unstable, const U64* a, int* knownOut) {
    U32 r = 0xdead; int known = 0;
    CALL(fd_write, fd_write(NULL, (U32)A(0), (U32)A(1), (U32)A(2), (U32)A(3)))
    CALL(fd_read, fd_read(NULL, (U32)A(0), (U32)A(1), (U32)A(2), (U32)A(3)))
    CALL(fd_pwrite, fd_pwrite(NULL, (U32)A(0), (U32)A(1), (U32)A(2), A(3), (U32)A(4)))
    CALL(fd_pread, fd_pread(NULL, (U32)A(0), (U32)A(1), (U32)A(2), A(3), (U32)A(4)))
    CALL(fd_seek, fd_seek(NULL, (U32)A(0), A(1), (U32)A(2), (U32)A(3)))
    CALL(fd_tell, fd_tell(NULL, (U32)A(0), (U32)A(1)))
    CALL(fd_close, fd_close(NULL, (U32)A(0)))
    CALL(fd_filestat_get, fd_filestat_get(NULL, (U32)A(0), (U32)A(1)))
    CALL(fd_fdstat_get, fd_fdstat_get(NULL, (U32)A(0), (U32)A(1)))
    CALL(fd_prestat_get, fd_prestat_get(NULL, (U32)A(0), (U32)A(1)))
    CALL(fd_prestat_dir_name, fd_prestat_dir_name(NULL, (U32)A(0), (U32)A(1), (U32)A(2)))
    CALL(fd_readdir, fd_readdir(NULL, (U32)A(0), (U32)A(1), (U32)A(2), A(3), (U32)A(4)))
    CALL(fd_sync, fd_sync(NULL, (U32)A(0)))
    CALL(fd_datasync, fd_datasync(NULL, (U32)A(0)))
    CALL(path_open, path_open(NULL, (U32)A(0), (U32)A(1), (U32)A(2), (U32)A(3), (U32)A(4), A(5), A(6), (U32)A(7), (U32)A(8)))
    CALL(path_filestat_get, path_filestat_get(NULL, (U32)A(0), (U32)A(1), (U32)A(2), (U32)A(3), (U32)A(4)))
    CALL(path_create_directory, path_create_directory(NULL, (U32)A(0), (U32)A(1), (U32)A(2)))
    CALL(path_remove_directory, path_remove_directory(NULL, (U32)A(0), (U32)A(1), (U32)A(2)))
    CALL(path_unlink_file, path_unlink_file(NULL, (U32)A(0), (U32)A(1), (U32)A(2)))
    CALL(path_rename, path_rename(NULL, (U32)A(0), (U32)A(1), (U32)A(2), (U32)A(3), (U32)A(4), (U32)A(5)))
    CALL(path_symlink, path_symlink(NULL, (U32)A(0), (U32)A(1), (U32)A(2), (U32)A(3), (U32)A(4)))
    CALL(path_readlink, path_readlink(NULL, (U32)A(0), (U32)A(1), (U32)A(2), (U32)A(3), (U32)A(4), (U32)A(5)))
    CALL(args_sizes_get, args_sizes_get(NULL, (U32)A(0), (U32)A(1)))
    CALL(args_get, args_get(NULL, (U32)A(0), (U32)A(1)))
    CALL(environ_sizes_get, environ_sizes_get(NULL, (U32)A(0), (U32)A(1)))
    CALL(environ_get, environ_get(NULL, (U32)A(0), (U32)A(1)))
    CALL(clock_time_get, clock_time_get(NULL, (U32)A(0), A(1), (U32)A(2)))
    CALL(clock_res_get, clock_res_get(NULL, (U32)A(0), (U32)A(1)))
    CALL(random_get, random_get(NULL, (U32)A(0), (U32)A(1)))
    *knownOut = known;
    return r;
}

/* "par <K> { T <ncalls> { <fn> <unstable> <nargs> <args...> } }": K threads start together (barrier) and each runs its own list of
 * WASI calls; answer "par r r r / r r r / ..." (return codes per thread, in call order).  A host with wasi-threads issues WASI calls
 * from several threads at once; scripts that work on disjoint directories and disjoint guest memory must give the results of
 * running them one after the other. */
typedef struct { char fn[40]; int unstable; U64 a[12]; U32 r; } PCall;
typedef struct { PCall* calls; int n; } PScript;
static pthread_barrier_t g_bar;
static void* par_thread(void* p) {
    PScript* s = (PScript*)p; int i, known;
    pthread_barrier_wait(&g_bar);
    for (i = 0; i < s->n; i++) s->calls[i].r = do_call(s->calls[i].fn, s->calls[i].unstable, s->calls[i].a, &known);
    return NULL;
}

int main(int argc, char** argv) {
    static char line[1 << 22];
    int cin = argc > 1 ? atoi(argv[1]) : 10, cout = argc > 2 ? atoi(argv[2]) : 11;
    U32 pages = argc > 3 ? (U32)atoi(argv[3]) : 64;
    in = fdopen(cin, "r");
    out = fdopen(cout, "w");
    if (!in || !out) return 90;
    g_mem = wasmMemoryAllocate(pages, pages, false);
    while (fgets(line, sizeof line, in)) {
        char* cmd = strtok(line, " \n");
        if (!cmd) continue;
        if (strcmp(cmd, "init") == 0) {
            int ac, ec; char** av; char** ev;
            av = read_vector(strtok(NULL, " \n"), &ac);
            ev = read_vector(strtok(NULL, " \n"), &ec);
            {
                /* optional: the host passes only the first ac - trim entries of a longer array (argv[argc] is then NOT NULL) */
                char* t = strtok(NULL, " \n");
                int trim = t ? atoi(t) : 0;
                if (trim > ac) trim = ac;
                fprintf(out, "ok %d\n", wasiInit(ac - trim, av, ev) ? 1 : 0);
            }
        } else if (strcmp(cmd, "preopen") == 0) {
            char* p = strtok(NULL, "\n"); U32 fd = 0xffffffffu; bool ok;
            ok = wasiFileDescriptorAdd(-1, p, &fd);
            fprintf(out, "ok %d %u\n", ok ? 1 : 0, fd);
        } else if (strcmp(cmd, "poke") == 0) {
            U32 addr = (U32)strtoul(strtok(NULL, " \n"), NULL, 10); char* h = strtok(NULL, " \n"); size_t k, len = h ? strlen(h) / 2 : 0;
            for (k = 0; k < len; k++) g_mem->data[addr + k] = (U8)(hexval(h[2 * k]) * 16 + hexval(h[2 * k + 1]));
            fprintf(out, "ok\n");
        } else if (strcmp(cmd, "fill") == 0) {
            U32 addr = (U32)strtoul(strtok(NULL, " \n"), NULL, 10); U32 len = (U32)strtoul(strtok(NULL, " \n"), NULL, 10);
            int v = atoi(strtok(NULL, " \n"));
            memset(g_mem->data + addr, v, len);
            fprintf(out, "ok\n");
        } else if (strcmp(cmd, "peek") == 0) {
            U32 addr = (U32)strtoul(strtok(NULL, " \n"), NULL, 10); U32 len = (U32)strtoul(strtok(NULL, " \n"), NULL, 10), k;
            fputs("mem ", out);
            for (k = 0; k < len; k++) fprintf(out, "%02x", g_mem->data[addr + k]);
            fputc('\n', out);
        } else if (strcmp(cmd, "sigstorm") == 0) {
            struct sigaction sa;
            g_storm_usec = atol(strtok(NULL, " \n"));
            memset(&sa, 0, sizeof sa);
            sa.sa_handler = on_alarm; sa.sa_flags = SA_RESTART;
            sigaction(SIGALRM, &sa, NULL);
            fprintf(out, "ok\n");
        } else if (strcmp(cmd, "fsize") == 0) {
            /* soft file-size limit of the process (RLIMIT_FSIZE); SIGXFSZ ignored, as an embedder that wants EFBIG does */
            struct rlimit rl; long long n = atoll(strtok(NULL, " \n"));
            signal(SIGXFSZ, SIG_IGN);
            getrlimit(RLIMIT_FSIZE, &rl);
            rl.rlim_cur = n < 0 ? rl.rlim_max : (rlim_t)n;
            fprintf(out, "ok %d\n", setrlimit(RLIMIT_FSIZE, &rl));
        } else if (strcmp(cmd, "burn") == 0) {
            pthread_t t; long ms = atol(strtok(NULL, " \n"));
            if (pthread_create(&t, NULL, burner, (void*)ms) == 0) pthread_join(t, NULL);
            fprintf(out, "ok\n");
        } else if (strcmp(cmd, "now") == 0) {
            struct timespec ts; int id = atoi(strtok(NULL, " \n"));
            clock_gettime(id == 0 ? CLOCK_REALTIME : id == 1 ? CLOCK_MONOTONIC : id == 2 ? CLOCK_PROCESS_CPUTIME_ID : CLOCK_THREAD_CPUTIME_ID, &ts);
            fprintf(out, "now %lld\n", (long long)ts.tv_sec * 1000000000LL + ts.tv_nsec);
        } else if (strcmp(cmd, "par") == 0) {
            int K = atoi(strtok(NULL, " \n")), k, i, j; PScript* sc = (PScript*)calloc((size_t)K, sizeof(PScript));
            pthread_t* th = (pthread_t*)calloc((size_t)K, sizeof(pthread_t));
            for (k = 0; k < K; k++) {
                strtok(NULL, " \n");                                   /* "T" */
                sc[k].n = atoi(strtok(NULL, " \n"));
                sc[k].calls = (PCall*)calloc((size_t)sc[k].n + 1, sizeof(PCall));
                for (i = 0; i < sc[k].n; i++) {
                    int na;
                    strncpy(sc[k].calls[i].fn, strtok(NULL, " \n"), 39);
                    sc[k].calls[i].unstable = atoi(strtok(NULL, " \n"));
                    na = atoi(strtok(NULL, " \n"));
                    for (j = 0; j < na && j < 12; j++) sc[k].calls[i].a[j] = strtoull(strtok(NULL, " \n"), NULL, 10);
                }
            }
            pthread_barrier_init(&g_bar, NULL, (unsigned)K);
            for (k = 0; k < K; k++) pthread_create(&th[k], NULL, par_thread, &sc[k]);
            for (k = 0; k < K; k++) pthread_join(th[k], NULL);
            pthread_barrier_destroy(&g_bar);
            fprintf(out, "par");
            for (k = 0; k < K; k++) {
                for (i = 0; i < sc[k].n; i++) fprintf(out, " %u", sc[k].calls[i].r);
                if (k + 1 < K) fprintf(out, " /");
                free(sc[k].calls);
            }
            fprintf(out, "\n");
            free(sc); free(th);
        } else if (strcmp(cmd, "repeat") == 0) {
            /* "repeat <n> <cell> <close> <fn> <unstable> <args...>": the same call n times; <cell> != 0 names a u32 result cell that must
             * hold a strictly larger value after every successful call (descriptor numbers handed out by path_open); <close> = 1: the
             * descriptor just handed out is closed again with fd_close (a failing close counts as a failure) */
            long n = atol(strtok(NULL, " \n")), i, ok = 0, fail = 0, firstfailat = -1, dups = 0; U32 cell = (U32)strtoul(strtok(NULL, " \n"), NULL, 10);
            int closeit = atoi(strtok(NULL, " \n"));
            char* fn = strtok(NULL, " \n"); int unstable = atoi(strtok(NULL, " \n")); U64 a[12]; int na = 0, known = 0; char* t; U32 r = 0, firstfailret = 0;
            U32 first = 0, last = 0; int have = 0;
            memset(a, 0, sizeof a);
            while ((t = strtok(NULL, " \n")) && na < 12) a[na++] = strtoull(t, NULL, 10);
            for (i = 0; i < n; i++) {
                r = do_call(fn, unstable, a, &known);
                if (!known) break;
                if (r != 0) { if (!fail) { firstfailret = r; firstfailat = i; } fail++; continue; }
                ok++;
                if (cell) {
                    U32 v = i32_load(g_mem, cell);
                    if (have && v <= last) dups++;
                    if (!have) first = v;
                    last = v; have = 1;
                    if (closeit) {
                        U64 ca[12]; int k2; memset(ca, 0, sizeof ca); ca[0] = v;
                        r = do_call("fd_close", unstable, ca, &k2);
                        if (r != 0) { if (!fail) { firstfailret = r; firstfailat = i; } fail++; ok--; }
                    }
                }
            }
            fprintf(out, "rep %ld %ld %u %ld %ld %u %u\n", ok, fail, firstfailret, firstfailat, dups, first, last);
        } else if (strcmp(cmd, "res") == 0) {
            struct timespec ts; int id = atoi(strtok(NULL, " \n"));
            clock_getres(id == 0 ? CLOCK_REALTIME : id == 1 ? CLOCK_MONOTONIC : id == 2 ? CLOCK_PROCESS_CPUTIME_ID : CLOCK_THREAD_CPUTIME_ID, &ts);
            fprintf(out, "res %lld\n", (long long)ts.tv_sec * 1000000000LL + ts.tv_nsec);
        } else if (strcmp(cmd, "call") == 0) {
            char* fn = strtok(NULL, " \n"); int unstable = atoi(strtok(NULL, " \n")); U64 a[12]; int n = 0, known = 0; U32 r = 0xdead; char* t;
            while ((t = strtok(NULL, " \n")) && n < 12) a[n++] = strtoull(t, NULL, 10);
            if (g_storm_usec > 0) storm(1);
            r = do_call(fn, unstable, a, &known);
            if (g_storm_usec > 0) storm(0);
            if (strcmp(fn, "proc_exit") == 0) {
                fflush(out);
                if (unstable) wasi_unstable__proc_exit(NULL, (U32)A(0)); else wasi_snapshot_preview1__proc_exit(NULL, (U32)A(0));
                known = 1;
            }
            if (!known) fprintf(out, "err unknown function %s\n", fn); else fprintf(out, "ret %u\n", r);
        } else if (strcmp(cmd, "exit") == 0) {
            break;
        } else {
            fprintf(out, "err unknown command\n");
        }
        fflush(out);
    }
    return 0;
}
