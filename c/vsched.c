/* vsched (E4): deterministic cooperative scheduler for code that synchronises through pthread mutexes / condition variables.
 * The code under test is linked with -Wl,--wrap=pthread_mutex_lock,... so every call lands here. Real pthreads carry the
 * stacks, but exactly one managed thread runs at a time (baton = one semaphore per thread); at every interposed call the next
 * thread to run, spurious condition-variable wake-ups, the waiter picked by pthread_cond_signal and the firing of timeouts are
 * CHOICES read from a decision string (VSCHED_DECISIONS, hex, or vs_init). When the string is exhausted the policy is
 * round-robin without spurious wake-ups; timeouts fire only when nothing else can run. No source line of /repo is changed. */
#define _GNU_SOURCE
#include <errno.h>
#include <pthread.h>
#include <semaphore.h>
#include <stdio.h>
#include <stdlib.h>
#include <string.h>
#include <sys/time.h>
#include <time.h>
#include <unistd.h>
#include "vsched.h"

int __real_pthread_create(pthread_t*, const pthread_attr_t*, void* (*)(void*), void*);
int __real_pthread_join(pthread_t, void**);

#define MAXT 80
#define MAXM 256
#define MAXACQ 8192

typedef enum { ST_FREE = 0, ST_RUNNABLE, ST_WANT_MUTEX, ST_COND, ST_WOKEN, ST_JOIN, ST_DONE, ST_IDLE } St;

typedef struct {
    St st;
    void* mutex;          /* mutex wanted (WANT_MUTEX) or to re-acquire (COND/WOKEN) */
    void* cond;
    int timed, timedout;
    long long deadline;   /* virtual time (ns) at which a timed wait expires */
    int join_target;
    sem_t sem;
    pthread_t th;
    void* (*fn)(void*);
    void* arg;
    void* ret;
    int joined;
    int nacq;
    unsigned long acq[MAXACQ];
} VT;

typedef struct { void* addr; int owner; } VM;

static VT T[MAXT];
static int nT;
static VM M[MAXM];
static int nM;
static __thread int self_id = -1;
static int initialised;
static unsigned char* dec;
static size_t dec_len, dec_pos;
static int spurious_budget = 3;
/* Virtual clock: clock_gettime / gettimeofday of the code under test are redirected here (-Wl,--wrap), so time is part of the
 * schedule.  It stands still while threads run, jumps to the deadline when a timeout fires, and moves a fraction of the remaining
 * time towards the deadline when a timed waiter is woken spuriously - a timed wait returns ETIMEDOUT only at or after its abstime. */
#define VS_EPOCH_S 1000000000LL
#define VS_TIME_FAR 4000000000000000000LL     /* deadline of a wait whose abstime is beyond ~126 years */
#define VS_MAX_JUMP (1LL << 50)                /* the clock never jumps further than ~13 days at once (keeps it far from overflow) */
static long long vnow_ns;
long long vs_now(void) { return vnow_ns; }
int __wrap_clock_gettime(clockid_t id, struct timespec* ts) {
    (void)id;
    ts->tv_sec = (time_t)(VS_EPOCH_S + vnow_ns / 1000000000LL);
    ts->tv_nsec = (long)(vnow_ns % 1000000000LL);
    return 0;
}
int __wrap_gettimeofday(struct timeval* tv, void* tz) {
    (void)tz;
    tv->tv_sec = (time_t)(VS_EPOCH_S + vnow_ns / 1000000000LL);
    tv->tv_usec = (long)((vnow_ns % 1000000000LL) / 1000);
    return 0;
}
static void fire_timeout(int t) {
    long long left = T[t].deadline - vnow_ns;
    if (left > VS_MAX_JUMP) left = VS_MAX_JUMP;       /* callers make no claim about timeouts that long (harness: c < 2^50) */
    if (left > 0) vnow_ns += left;
    T[t].st = ST_WOKEN; T[t].timedout = 1;
}
static unsigned long vclock;
static int rr_last;
static int deadlocked;
static unsigned long steps, switches, spurious_used, timeouts_fired, max_steps = 4000000;

unsigned long vs_stamp(void) { return ++vclock; }
int vs_self(void) { return self_id; }
int vs_acq_count(int t) { return T[t].nacq; }
unsigned long vs_acq_stamp(int t, int k) { return T[t].acq[k]; }
int vs_deadlocked(void) { return deadlocked; }
void vs_stats(unsigned long* out) { out[0] = steps; out[1] = switches; out[2] = spurious_used; out[3] = timeouts_fired; out[4] = dec_pos; }

static int hexv(int c) { return c <= '9' ? c - '0' : (c | 32) - 'a' + 10; }

void vs_init(const unsigned char* decisions, size_t len, int spurious) {
    if (initialised) return;
    initialised = 1;
    dec = (unsigned char*)malloc(len + 1);
    memcpy(dec, decisions, len);
    dec_len = len;
    spurious_budget = spurious;
    T[0].st = ST_RUNNABLE;
    sem_init(&T[0].sem, 0, 0);
    nT = 1;
    self_id = 0;
}

static void lazy_init(void) {
    const char* h;
    size_t n, i;
    unsigned char* b;
    if (initialised) return;
    h = getenv("VSCHED_DECISIONS");
    if (!h) h = "";
    n = strlen(h) / 2;
    b = (unsigned char*)malloc(n + 1);
    for (i = 0; i < n; i++) b[i] = (unsigned char)(hexv(h[2 * i]) * 16 + hexv(h[2 * i + 1]));
    vs_init(b, n, getenv("VSCHED_SPURIOUS") ? atoi(getenv("VSCHED_SPURIOUS")) : 3);
    free(b);
}

static VM* mutex_of(void* a) {
    int i;
    for (i = 0; i < nM; i++) if (M[i].addr == a) return &M[i];
    if (nM >= MAXM) { fprintf(stderr, "vsched: too many mutexes\n"); _exit(70); }
    M[nM].addr = a; M[nM].owner = -1;
    return &M[nM++];
}

static int can_run(int i) {
    switch (T[i].st) {
    case ST_RUNNABLE: return 1;
    case ST_WANT_MUTEX:
    case ST_WOKEN: return mutex_of(T[i].mutex)->owner < 0;
    case ST_JOIN: return T[T[i].join_target].st == ST_DONE;
    default: return 0;
    }
}

static void report_deadlock(void) {
    int i;
    deadlocked = 1;
    fprintf(stderr, "VSCHED-DEADLOCK after %lu steps:", steps);
    for (i = 0; i < nT; i++) fprintf(stderr, " t%d=%d", i, (int)T[i].st);
    fprintf(stderr, "\n");
    fflush(NULL);
    _exit(66);
}

/* choose the next thread to run (applying wake-up choices on the way); returns its id */
static int choose(void) {
    for (;;) {
        int opt_kind[3 * MAXT], opt_t[3 * MAXT], n = 0, i, all_done = 1;
        if (++steps > max_steps) { fprintf(stderr, "VSCHED-STEP-LIMIT\n"); fflush(NULL); _exit(67); }
        for (i = 0; i < nT; i++) {
            if (T[i].st != ST_DONE && T[i].st != ST_FREE) all_done = 0;
            if (T[i].st == ST_IDLE) continue;
            if (can_run(i)) { opt_kind[n] = 0; opt_t[n++] = i; }
        }
        if (all_done) return -1;
        if (n == 0) {
            /* nothing can run: pending timeouts fire first, then a thread parked in vs_idle_wait gets the baton */
            int idle = -1, timedw = -1;
            for (i = 0; i < nT; i++) { if (T[i].st == ST_IDLE) idle = i; if (T[i].st == ST_COND && T[i].timed && timedw < 0) timedw = i; }
            if (timedw >= 0) { fire_timeout(timedw); timeouts_fired++; continue; }
            if (idle >= 0) { T[idle].st = ST_RUNNABLE; return idle; }
        }
        if (dec_pos < dec_len) {
            for (i = 0; i < nT; i++) {
                if (T[i].st == ST_COND && !T[i].timed && spurious_budget > 0) { opt_kind[n] = 1; opt_t[n++] = i; }
                if (T[i].st == ST_COND && T[i].timed) { opt_kind[n] = 2; opt_t[n++] = i; }
            }
            /* spurious wake-up of a timed waiter: time has passed, but not all of it */
            for (i = 0; i < nT; i++) if (T[i].st == ST_COND && T[i].timed && spurious_budget > 0) { opt_kind[n] = 3; opt_t[n++] = i; }
            if (n == 0) report_deadlock();
            i = dec[dec_pos++] % n;
        } else {
            /* exhausted: round-robin among runnable threads; fire a timeout only when nothing else can run */
            if (n == 0) {
                for (i = 0; i < nT; i++) if (T[i].st == ST_COND && T[i].timed) { opt_kind[n] = 2; opt_t[n++] = i; break; }
                if (n == 0) report_deadlock();
                i = 0;
            } else {
                int k, best = 0;
                for (k = 0; k < n; k++) if (opt_t[k] > rr_last) { best = k; break; }
                i = best;
            }
        }
        if (opt_kind[i] == 0) { rr_last = opt_t[i]; return opt_t[i]; }
        if (opt_kind[i] == 1) { T[opt_t[i]].st = ST_WOKEN; spurious_budget--; spurious_used++; }
        else if (opt_kind[i] == 3) {
            long long left = T[opt_t[i]].deadline - vnow_ns;
            int q = dec_pos < dec_len ? 1 + dec[dec_pos++] % 3 : 2;         /* a quarter, half or three quarters of what is left */
            if (left > VS_MAX_JUMP) left = VS_MAX_JUMP;
            if (left > 0) vnow_ns += left / 4 * q;
            T[opt_t[i]].st = ST_WOKEN; spurious_budget--; spurious_used++;
        }
        else { fire_timeout(opt_t[i]); timeouts_fired++; }
    }
}

/* scheduling point: the calling thread has already set its own state */
static void reschedule(void) {
    int me = self_id, next = choose();
    if (next < 0) {
        /* everything finished: only reachable from a finishing thread */
        return;
    }
    if (next != me) {
        switches++;
        sem_post(&T[next].sem);
        if (T[me].st != ST_DONE) sem_wait(&T[me].sem);
    }
}

void vs_yield(void) { lazy_init(); T[self_id].st = ST_RUNNABLE; reschedule(); }
void vs_idle_wait(void) { lazy_init(); T[self_id].st = ST_IDLE; reschedule(); T[self_id].st = ST_RUNNABLE; }
int vs_all_done(void) { int i; for (i = 0; i < nT; i++) if (i != self_id && T[i].st != ST_DONE && T[i].st != ST_FREE) return 0; return 1; }

static void acquire(int me, void* m) {
    VM* vm = mutex_of(m);
    if (vm->owner >= 0) { fprintf(stderr, "vsched: internal error: mutex not free\n"); _exit(71); }
    vm->owner = me;
    if (T[me].nacq < MAXACQ) T[me].acq[T[me].nacq++] = ++vclock;
    T[me].st = ST_RUNNABLE;
}

int __wrap_pthread_mutex_init(pthread_mutex_t* m, const pthread_mutexattr_t* a) { (void)a; lazy_init(); mutex_of(m)->owner = -1; return 0; }
int __wrap_pthread_mutex_destroy(pthread_mutex_t* m) { lazy_init(); mutex_of(m)->owner = -1; return 0; }

int __wrap_pthread_mutex_lock(pthread_mutex_t* m) {
    int me;
    lazy_init();
    me = self_id;
    T[me].st = ST_WANT_MUTEX; T[me].mutex = m;
    reschedule();
    acquire(me, m);
    return 0;
}

int __wrap_pthread_mutex_unlock(pthread_mutex_t* m) {
    int me;
    lazy_init();
    me = self_id;
    /* unlocking a (default) mutex that the calling thread does not hold is undefined in POSIX; in practice it releases a lock that
       another thread believes it holds - reported like the other protocol errors */
    if (mutex_of(m)->owner != me) { fprintf(stderr, "VSCHED-ERROR: unlock of a mutex the thread does not hold\n"); fflush(NULL); _exit(68); }
    mutex_of(m)->owner = -1;
    T[me].st = ST_RUNNABLE;
    reschedule();
    return 0;
}

int __wrap_pthread_cond_init(pthread_cond_t* c, const pthread_condattr_t* a) { (void)c; (void)a; lazy_init(); return 0; }
int __wrap_pthread_cond_destroy(pthread_cond_t* c) {
    int i;
    lazy_init();
    for (i = 0; i < nT; i++) if ((T[i].st == ST_COND) && T[i].cond == c) { fprintf(stderr, "VSCHED-ERROR: cond destroyed with waiters\n"); fflush(NULL); _exit(68); }
    return 0;
}

static int cond_wait_common(pthread_cond_t* c, pthread_mutex_t* m, int timed) {
    int me = self_id, r;
    VM* vm = mutex_of(m);
    if (vm->owner != me) { fprintf(stderr, "VSCHED-ERROR: cond wait without holding the mutex\n"); fflush(NULL); _exit(68); }
    vm->owner = -1;
    T[me].st = ST_COND; T[me].cond = c; T[me].mutex = m; T[me].timed = timed; T[me].timedout = 0;
    reschedule();
    acquire(me, m);
    r = T[me].timedout ? ETIMEDOUT : 0;
    T[me].timedout = 0;
    return r;
}

int __wrap_pthread_cond_wait(pthread_cond_t* c, pthread_mutex_t* m) { lazy_init(); return cond_wait_common(c, m, 0); }
static unsigned long einval_count;
int __wrap_pthread_cond_timedwait(pthread_cond_t* c, pthread_mutex_t* m, const struct timespec* t) {
    lazy_init();
    /* POSIX: EINVAL for an abstime whose nanoseconds are outside [0, 10^9) - returned without releasing the mutex, as the real
     * function does; a caller that treats this as a wake-up spins with the mutex held, which the model reports as a livelock */
    if (t == NULL || t->tv_nsec < 0 || t->tv_nsec >= 1000000000L) {
        if (++einval_count > 10000) {
            static const char msg[] = "VSCHED-DEADLOCK: pthread_cond_timedwait keeps being called with an invalid abstime (tv_nsec outside [0, 1e9)): livelock with the mutex held\n";
            (void)!write(2, msg, sizeof msg - 1);
            _exit(66);
        }
        return EINVAL;
    }
    {
        long long sec = (long long)t->tv_sec - VS_EPOCH_S, dl;
        if (sec < 0) dl = 0;
        else if (sec >= VS_TIME_FAR / 1000000000LL) dl = VS_TIME_FAR;
        else dl = sec * 1000000000LL + t->tv_nsec;
        T[self_id].deadline = dl;
    }
    return cond_wait_common(c, m, 1);
}

int __wrap_pthread_cond_signal(pthread_cond_t* c) {
    int w[MAXT], n = 0, i, me;
    lazy_init();
    me = self_id;
    for (i = 0; i < nT; i++) if (T[i].st == ST_COND && T[i].cond == c) w[n++] = i;
    if (n > 0) {
        int k = 0;
        if (n > 1 && dec_pos < dec_len) k = dec[dec_pos++] % n;
        T[w[k]].st = ST_WOKEN;
    }
    T[me].st = ST_RUNNABLE;
    reschedule();
    return 0;
}

int __wrap_pthread_cond_broadcast(pthread_cond_t* c) {
    int i, me;
    lazy_init();
    me = self_id;
    for (i = 0; i < nT; i++) if (T[i].st == ST_COND && T[i].cond == c) T[i].st = ST_WOKEN;
    T[me].st = ST_RUNNABLE;
    reschedule();
    return 0;
}

static void* trampoline(void* p) {
    int me = (int)(long)p;
    self_id = me;
    sem_wait(&T[me].sem);           /* wait for the baton */
    T[me].ret = T[me].fn(T[me].arg);
    T[me].st = ST_DONE;
    {
        int next = choose();
        if (next >= 0) { switches++; sem_post(&T[next].sem); }
    }
    return T[me].ret;
}

static int spawn(void* (*fn)(void*), void* arg) {
    int id;
    pthread_attr_t at;
    lazy_init();
    if (nT >= MAXT) { fprintf(stderr, "vsched: too many threads\n"); _exit(70); }
    id = nT++;
    T[id].st = ST_RUNNABLE; T[id].fn = fn; T[id].arg = arg; T[id].nacq = 0; T[id].joined = 0;
    sem_init(&T[id].sem, 0, 0);
    pthread_attr_init(&at);
    pthread_attr_setstacksize(&at, 1 << 20);
    if (__real_pthread_create(&T[id].th, &at, trampoline, (void*)(long)id) != 0) { fprintf(stderr, "vsched: pthread_create failed\n"); _exit(70); }
    return id;
}

int vs_spawn(void* (*fn)(void*), void* arg) { return spawn(fn, arg); }

int __wrap_pthread_create(pthread_t* th, const pthread_attr_t* a, void* (*fn)(void*), void* arg) {
    int id, me;
    (void)a;
    id = spawn(fn, arg);
    *th = T[id].th;
    me = self_id;
    T[me].st = ST_RUNNABLE;
    reschedule();
    return 0;
}

static int id_of(pthread_t th) {
    int i;
    for (i = 1; i < nT; i++) if (pthread_equal(T[i].th, th)) return i;
    return -1;
}

void vs_join(int id) {
    int me = self_id;
    if (T[id].st != ST_DONE) { T[me].st = ST_JOIN; T[me].join_target = id; reschedule(); T[me].st = ST_RUNNABLE; }
    if (!T[id].joined) { T[id].joined = 1; __real_pthread_join(T[id].th, NULL); }
}

int __wrap_pthread_join(pthread_t th, void** ret) {
    int id;
    lazy_init();
    id = id_of(th);
    if (id < 0) return __real_pthread_join(th, ret);
    vs_join(id);
    if (ret) *ret = T[id].ret;
    return 0;
}
