/* vsched self-test (DESIGN Appendix A): small programs with known outcome sets.
 * argv[1] = scenario: 0 unlocked counter, 1 locked counter, 2 if-instead-of-while consumer, 3 lock-order inversion.
 * prints "R <outcome>"; deadlocks exit with status 66 (reported by vsched). */
#include <pthread.h>
#include <stdio.h>
#include <stdlib.h>
#include "vsched.h"

static int counter, scenario, ready, consumed_without_item;
static pthread_mutex_t m1, m2;
static pthread_cond_t cv;

static void* incr(void* p) {
    int tmp;
    (void)p;
    if (scenario == 1) pthread_mutex_lock(&m1);
    tmp = counter;
    vs_yield();
    counter = tmp + 1;
    if (scenario == 1) pthread_mutex_unlock(&m1);
    return NULL;
}
static void* consumer(void* p) {
    (void)p;
    pthread_mutex_lock(&m1);
    if (!ready) pthread_cond_wait(&cv, &m1);          /* BUG on purpose: 'if' instead of 'while' */
    if (!ready) consumed_without_item = 1;
    pthread_mutex_unlock(&m1);
    return NULL;
}
static void* producer(void* p) {
    (void)p;
    vs_yield();
    pthread_mutex_lock(&m1);
    ready = 1;
    pthread_cond_signal(&cv);
    pthread_mutex_unlock(&m1);
    return NULL;
}
static void* ab(void* p) { (void)p; pthread_mutex_lock(&m1); pthread_mutex_lock(&m2); pthread_mutex_unlock(&m2); pthread_mutex_unlock(&m1); return NULL; }
static void* ba(void* p) { (void)p; pthread_mutex_lock(&m2); pthread_mutex_lock(&m1); pthread_mutex_unlock(&m1); pthread_mutex_unlock(&m2); return NULL; }

int main(int argc, char** argv) {
    int a, b;
    (void)argc;
    scenario = atoi(argv[1]);
    pthread_mutex_init(&m1, NULL); pthread_mutex_init(&m2, NULL); pthread_cond_init(&cv, NULL);
    if (scenario <= 1) { a = vs_spawn(incr, NULL); b = vs_spawn(incr, NULL); }
    else if (scenario == 2) { a = vs_spawn(consumer, NULL); b = vs_spawn(producer, NULL); }
    else { a = vs_spawn(ab, NULL); b = vs_spawn(ba, NULL); }
    vs_join(a); vs_join(b);
    printf("R %d\n", scenario <= 1 ? counter : scenario == 2 ? consumed_without_item : 0);
    return 0;
}
