#ifndef VSCHED_H
#define VSCHED_H
#include <stddef.h>
void vs_init(const unsigned char* decisions, size_t len, int spurious_budget);
int vs_spawn(void* (*fn)(void*), void* arg);
void vs_join(int id);
void vs_yield(void);
void vs_idle_wait(void);            /* returns when no other thread can run and no timeout is pending */
int vs_all_done(void);              /* every thread except the caller has finished */
int vs_self(void);
unsigned long vs_stamp(void);
int vs_acq_count(int t);
unsigned long vs_acq_stamp(int t, int k);
void vs_stats(unsigned long* out5);
long long vs_now(void);            /* virtual time in ns (what clock_gettime / gettimeofday of the code under test see) */
#endif
