// rapidcheck properties for w2c2/leb128.h (C07/C08): value -> every legal padded encoding -> decoder returns the value and
// consumes exactly the encoding; on truncated buffers the decoder stays inside the buffer (ASan, exact-size heap buffers).
#include <rapidcheck.h>
#include <cstdint>
#include <cstdio>
#include <cstdlib>
#include <cstring>
#include <vector>
extern "C" {
#include "leb128.h"
}

static unsigned long long g_cases = 0, g_padded = 0, g_trunc = 0, g_maxlen = 0, g_negative = 0;

static std::vector<uint8_t> enc_u(uint64_t v, int n) {          // n = total length (>= minimal)
    std::vector<uint8_t> out;
    for (int i = 0; i < n; i++) { uint8_t b = v & 0x7f; v >>= 7; out.push_back(b | (i < n - 1 ? 0x80 : 0)); }
    return out;
}
static int minlen_u(uint64_t v) { int n = 1; while (v >>= 7) n++; return n; }
static std::vector<uint8_t> enc_s(int64_t v, int n) {
    std::vector<uint8_t> out;
    for (int i = 0; i < n; i++) { uint8_t b = v & 0x7f; v >>= 7; out.push_back(b | (i < n - 1 ? 0x80 : 0)); }
    return out;
}
static int minlen_s(int64_t v) {
    int n = 1;
    while (true) { uint8_t b = v & 0x7f; v >>= 7; if ((v == 0 && !(b & 0x40)) || (v == -1 && (b & 0x40))) return n; n++; }
}

template <typename F> static void with_exact_buffer(const std::vector<uint8_t>& bytes, size_t tail, F f) {
    // exact-size heap allocation: any over-read is an ASan heap-buffer-overflow
    size_t n = bytes.size() + tail;
    uint8_t* p = (uint8_t*)malloc(n ? n : 1);
    memcpy(p, bytes.data(), bytes.size());
    for (size_t i = 0; i < tail; i++) p[bytes.size() + i] = 0xAB;
    Buffer b; b.data = p; b.length = n;
    f(b, p);
    free(p);
}

int main() {
    bool ok = true;
    ok &= rc::check("u32: every padded encoding decodes to the value, consuming exactly its bytes", [] {
        uint32_t v = *rc::gen::oneOf(rc::gen::arbitrary<uint32_t>(), rc::gen::element<uint32_t>(0u, 1u, 127u, 128u, 16383u, 16384u, 0x0fffffffu, 0x10000000u, 0x7fffffffu, 0x80000000u, 0xffffffffu));
        int mn = minlen_u(v);
        int n = *rc::gen::inRange(mn, 6);
        size_t tail = *rc::gen::inRange<size_t>(0, 4);
        g_cases++; if (n > mn) g_padded++; if (n == 5) g_maxlen++;
        with_exact_buffer(enc_u(v, n), tail, [&](Buffer& b, uint8_t* p) {
            U32 r = 0xdeadbeef; size_t c = leb128ReadU32(&b, &r);
            RC_ASSERT(c == (size_t)n); RC_ASSERT(r == v); RC_ASSERT(b.data == p + n); RC_ASSERT(b.length == tail);
        });
    });
    ok &= rc::check("i32: every padded encoding decodes to the value (sign extension), consuming exactly its bytes", [] {
        int32_t v = *rc::gen::oneOf(rc::gen::arbitrary<int32_t>(), rc::gen::element<int32_t>(0, -1, 63, 64, -64, -65, 8191, 8192, -8192, -8193, INT32_MAX, INT32_MIN, INT32_MIN + 1, 0x07ffffff, -0x08000000, -0x08000001));
        int mn = minlen_s(v);
        int n = *rc::gen::inRange(mn, 6);
        size_t tail = *rc::gen::inRange<size_t>(0, 4);
        g_cases++; if (n > mn) g_padded++; if (n == 5) g_maxlen++; if (v < 0) g_negative++;
        with_exact_buffer(enc_s(v, n), tail, [&](Buffer& b, uint8_t* p) {
            I32 r = 0x5a5a5a5a; size_t c = leb128ReadI32(&b, &r);
            RC_ASSERT(c == (size_t)n); RC_ASSERT(r == v); RC_ASSERT(b.data == p + n); RC_ASSERT(b.length == tail);
        });
    });
    ok &= rc::check("u64: every padded encoding decodes to the value", [] {
        uint64_t v = *rc::gen::oneOf(rc::gen::arbitrary<uint64_t>(), rc::gen::element<uint64_t>(0ull, 1ull, 0xffffffffull, 0x100000000ull, 0x7fffffffffffffffull, 0x8000000000000000ull, 0xffffffffffffffffull));
        int mn = minlen_u(v);
        int n = *rc::gen::inRange(mn, 11);
        size_t tail = *rc::gen::inRange<size_t>(0, 4);
        g_cases++; if (n > mn) g_padded++; if (n == 10) g_maxlen++;
        with_exact_buffer(enc_u(v, n), tail, [&](Buffer& b, uint8_t* p) {
            U64 r = 0; size_t c = leb128ReadU64(&b, &r);
            RC_ASSERT(c == (size_t)n); RC_ASSERT(r == v); RC_ASSERT(b.data == p + n);
        });
    });
    ok &= rc::check("i64: every padded encoding decodes to the value (sign extension)", [] {
        int64_t v = *rc::gen::oneOf(rc::gen::arbitrary<int64_t>(), rc::gen::element<int64_t>(0ll, -1ll, INT64_MAX, INT64_MIN, INT64_MIN + 1, (int64_t)INT32_MIN, (int64_t)INT32_MAX + 1, -(1ll << 62), (1ll << 62), -(1ll << 56) - 1));
        int mn = minlen_s(v);
        int n = *rc::gen::inRange(mn, 11);
        size_t tail = *rc::gen::inRange<size_t>(0, 4);
        g_cases++; if (n > mn) g_padded++; if (n == 10) g_maxlen++; if (v < 0) g_negative++;
        with_exact_buffer(enc_s(v, n), tail, [&](Buffer& b, uint8_t* p) {
            I64 r = 0; size_t c = leb128ReadI64(&b, &r);
            RC_ASSERT(c == (size_t)n); RC_ASSERT(r == v); RC_ASSERT(b.data == p + n);
        });
    });
    ok &= rc::check("truncated encodings: the decoders never read past the buffer", [] {
        uint64_t v = *rc::gen::arbitrary<uint64_t>();
        int n = *rc::gen::inRange(minlen_u(v), 11);
        std::vector<uint8_t> e = enc_u(v, n);
        size_t cut = *rc::gen::inRange<size_t>(0, e.size());
        e.resize(cut);
        int which = *rc::gen::inRange(0, 4);
        g_cases++; g_trunc++;
        with_exact_buffer(e, 0, [&](Buffer& b, uint8_t* p) {
            size_t c;
            if (which == 0) { U32 r; c = leb128ReadU32(&b, &r); } else if (which == 1) { I32 r; c = leb128ReadI32(&b, &r); }
            else if (which == 2) { U64 r; c = leb128ReadU64(&b, &r); } else { I64 r; c = leb128ReadI64(&b, &r); }
            RC_ASSERT(c <= cut); RC_ASSERT(b.data <= p + cut);
        });
    });
    printf("RC-STATS cases=%llu padded=%llu maxlen=%llu negative=%llu truncated=%llu\n", g_cases, g_padded, g_maxlen, g_negative, g_trunc);
    return ok ? 0 : 1;
}
