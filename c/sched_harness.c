/* C17 / C18 harness: runs generated per-thread programs of wait / notify / store / grow / size calls of a w2c2-translated
 * shared-memory module under vsched. Program on stdin:  "T <nthreads>", then "o <tid> <op> <a> <b> <c>" lines, "A <addr>" lines for
 * the address set of the closing phase, "X".  Ops: 0 wait32(addr, expected, timeout)  1 wait64  2 notify(addr, count)
 * 3 store32(addr, v)  4 store64(addr, v)  5 grow(delta)  6 size()  7 load32(addr)  8 plainstore(addr, v)
 * Output: "E <tid> <opidx> <op> <a> <b> <c> <result> <start stamp> <end stamp> <nacq> <acq stamps...>" per executed op. */
#include <stdio.h>
#include <stdlib.h>
#include <string.h>
#include "m.h"
#include "vsched.h"

void trap(Trap t) { printf("TRAP %d\n", (int)t); fflush(stdout); _exit(69); }

#ifdef VF_IMPORTED_MEMORY
/* the module imports its shared memory: the embedder owns it */
static wasmMemory* vf_shared;
static void* vf_resolve(const char* module, const char* name) {
    (void)module;
    if (strcmp(name, "memory") == 0) {
        if (!vf_shared) vf_shared = wasmMemoryAllocate(1, VF_IMPORTED_MEMORY, true);
        return vf_shared;
    }
    return NULL;
}
#define VF_RESOLVER vf_resolve
#else
#define VF_RESOLVER NULL
#endif

#define MAXOPS 256
typedef struct { int op; unsigned long long a, b; long long c; } Op;
typedef struct { int tid; int n; Op ops[MAXOPS]; mInstance* inst; } Prog;
static Prog progs[40];
static int nthreads;
static mInstance root;
static unsigned long long addrs[64]; static int naddrs;

static void exec_op(int tid, int idx, mInstance* inst, Op* o) {
    unsigned long long res = 0;
    int a0 = vs_acq_count(vs_self());
    unsigned long s0 = vs_stamp(), s1;
    long long t0 = vs_now();
    int a1, k;
    switch (o->op) {
    case 0: res = m_wait32(inst, (U32)o->a, (U32)o->b, (U64)o->c); break;
    case 1: res = m_wait64(inst, (U32)o->a, (U64)o->b, (U64)o->c); break;
    case 2: res = m_notify(inst, (U32)o->a, (U32)o->b); break;
    case 3: m_store32(inst, (U32)o->a, (U32)o->b); break;
    case 4: m_store64(inst, (U32)o->a, (U64)o->b); break;
    case 5: res = m_grow(inst, (U32)o->a); break;
    case 6: res = m_size(inst); break;
    case 7: res = m_load32(inst, (U32)o->a); break;
    case 8: m_plainstore(inst, (U32)o->a, (U32)o->b); break;
    }
    s1 = vs_stamp();
    a1 = vs_acq_count(vs_self());
    /* "timed-out" is the answer only when the timeout has elapsed: on the virtual clock, at least o->c ns since the call began */
    if ((o->op == 0 || o->op == 1) && res == 2 && o->c >= 0 && o->c < (1LL << 50) && vs_now() - t0 < o->c)
        printf("EARLY %d %d %lld %lld\n", tid, idx, vs_now() - t0, o->c);
    printf("E %d %d %d %llu %llu %lld %llu %lu %lu %d", tid, idx, o->op, o->a, o->b, o->c, res, s0, s1, a1 - a0);
    for (k = a0; k < a1; k++) printf(" %lu", vs_acq_stamp(vs_self(), k));
    printf("\n");
}

static void* worker(void* p) {
    Prog* g = (Prog*)p; int i;
    for (i = 0; i < g->n; i++) { exec_op(g->tid, i, g->inst, &g->ops[i]); vs_yield(); }
    return NULL;
}

int main(void) {
    static char line[1 << 16];
    int i, round = 0, jidx = 0;
    unsigned long st[5];
    while (fgets(line, sizeof line, stdin)) {
        if (line[0] == 'T') nthreads = atoi(line + 2);
        else if (line[0] == 'D') {
            /* decision string (hex) + spurious budget */
            char* h = strtok(line + 2, " \n"); char* sb = strtok(NULL, " \n");
            size_t n = h && strcmp(h, "-") ? strlen(h) / 2 : 0, k; unsigned char* b = (unsigned char*)malloc(n + 1);
            for (k = 0; k < n; k++) { int hi = h[2 * k], lo = h[2 * k + 1]; b[k] = (unsigned char)(((hi <= '9' ? hi - '0' : (hi | 32) - 'a' + 10) << 4) | (lo <= '9' ? lo - '0' : (lo | 32) - 'a' + 10)); }
            vs_init(b, n, sb ? atoi(sb) : 3);
        } else if (line[0] == 'o') {
            int tid, op; unsigned long long a, b; long long c;
            sscanf(line + 2, "%d %d %llu %llu %lld", &tid, &op, &a, &b, &c);
            progs[tid].tid = tid;
            progs[tid].ops[progs[tid].n].op = op; progs[tid].ops[progs[tid].n].a = a; progs[tid].ops[progs[tid].n].b = b; progs[tid].ops[progs[tid].n].c = c;
            progs[tid].n++;
        } else if (line[0] == 'A') addrs[naddrs++] = strtoull(line + 2, NULL, 10);
        else if (line[0] == 'X') break;
    }
    setvbuf(stdout, NULL, _IOFBF, 1 << 20);
    mInstantiate(&root, VF_RESOLVER);
    for (i = 1; i <= nthreads; i++) {
        progs[i].inst = (mInstance*)root.common.newChild((wasmModuleInstance*)&root);
        vs_spawn(worker, &progs[i]);
    }
    /* closing phase: whenever nothing else can run, wake every address; a waiter that still does not return is lost */
    for (;;) {
        vs_idle_wait();
        if (vs_all_done()) break;
        if (++round > nthreads * 4 + 8) { printf("STUCK\n"); fflush(stdout); _exit(65); }
        for (i = 0; i < naddrs; i++) {
            Op o; o.op = 2; o.a = addrs[i]; o.b = 0xffffffffu; o.c = 0;
            exec_op(0, jidx++, &root, &o);
        }
    }
    {
        wasmMemory* mem = m_memory(&root);
        printf("P %u %u %u\n", mem->pages, mem->size, mem->maxPages);
    }
    vs_stats(st);
    printf("S %lu %lu %lu %lu %lu\n", st[0], st[1], st[2], st[3], st[4]);
    fflush(stdout);
    return 0;
}
